"""C11 -- OUTPUT4 / OUTPUT2 decoders (partial claim).

Every rule is decided on values: the readers, skippers and loaders are walked by the consumption evaluator (c11_consume.Walker), formats come
from the per-key-width tables of c11_fmt; nothing depends on the names of locals, on temporaries, on branch layout, on loop form or on which
helper a statement lives in.

Anchors are the public entry points and the functions the property names (`_loadop4_*`, `_skipop4_*`, `_getkey`, `rdop2nt`, `rdop2record`,
`rdop2tabheaders`, `rdop2matrix`, `skipop2matrix`, `skipop2record`, `rdop2dynamics`, `directory`, `rdop2mats`, `dir` / `dctload` / `listload`,
`_op2open`, `_op4open_read`).  Private helpers are never looked up by name: the readers a loader hands a matrix to are found where the
loader *enters* them (through a local that holds the selected reader or in an if / elif chain alike), the functions a reader is handed to
allocate / store / finish by the calls that pass the matrix along, the roles of their arguments by what the simplest store function does
with them, the name filter of `rdop2mats` by reachability, format attributes by the decodes that use them."""
from __future__ import annotations

import ast

from . import e2_formula as F
from . import c11_consume as C
from . import c11_fmt as T
from . import c11_conc as K
from .c11_consume import Stuck
from .core import Unsupported
from .e2_eval import DictValue, is_unknown
from .sem import place

OP4, OP2 = T.OP4, T.OP2
STRUCT_SIZE, STRUCT_KIND, NP_KIND = T.STRUCT_SIZE, T.STRUCT_KIND, T.NP_KIND
KEYB = F.sym("self._ibytes")
KEY = 8 + KEYB                      # bytes of one key triplet [4][key][4]


# ------------------------------------------------------------------------------------------------------------------ walking helpers
def _func(ctx, rel, q):
    """an anchor function by the name the property gives it: defined in the class, or in a base class of the same module"""
    return ctx.src.func(rel, C.resolve_method(ctx, rel, q))


def _has_func(ctx, rel, q):
    return ctx.src.has_func(rel, C.resolve_method(ctx, rel, q))



def _walk(ctx, rel, cls, q, tag="", **kw):
    """walk a function once per (function, tag); a construct the walker cannot lower is an analysis error of the calling rule"""
    cache = ctx.__dict__.setdefault("_c11_walks", {})
    if not _SIZES and not getattr(ctx, "_c11_sizes_done", False):
        ctx._c11_sizes_done = True
        try:
            tbs = T.tables(ctx)
            for what in ("op2", "op4"):
                for nm, v in tbs[what][32].items():
                    if _rat(v) and v.is_const():
                        _SIZES.add(nm)
        except (Stuck, Unsupported):
            pass
    k = (q, tag)
    if k not in cache:
        fn = _func(ctx, rel, q)
        wk = None
        try:
            wk = C.Walker(ctx, rel, cls, fn, **kw)
            cache[k] = wk.run_function()
        except (Stuck, Unsupported) as e:
            cache[k] = e
            # (what the walk met before it got stuck is still known: a name read that nothing binds is a verdict of its own)
            e.unbound = [(ev_[1], ev_[2]) for ev_ in (wk.events if wk is not None else []) if ev_[0] == "unbound"]
        except RecursionError:
            cache[k] = Stuck("the walk does not end (recursion limit)")
        except Exception as e:  # noqa  (a construct that trips the evaluator is one it cannot lower: an analysis error, never a crash of the rule)
            import traceback
            tb = traceback.extract_tb(e.__traceback__)
            at = f"{tb[-1].filename.split('/')[-1]}:{tb[-1].lineno}" if tb else "?"
            cache[k] = Stuck(f"the evaluator failed on this function ({type(e).__name__}: {e}, at {at})")
    else:
        _func(ctx, rel, q)
    w = cache[k]
    if isinstance(w, Exception):
        ub = getattr(w, "unbound", None)
        if ub and not getattr(w, "_reported", False):
            w._reported = True
            ctx.check(False, f"{q.split('.')[-1]}: every name a reading path uses is bound where it is read (a local no path has assigned / a name "
                             "nothing defines raises UnboundLocalError / NameError: that path decodes nothing)", ub[0][1], sorted({n for n, _x in ub}))
        ctx.error(f"{q.split('.')[-1]}: cannot follow the file position", _func(ctx, rel, q), str(w))
        return None
    # bytes of the file decoded into a number that steers the reading (a count, a test) through a function the evaluator does not model
    # (int.from_bytes, np.frombuffer, ...): nothing can be decided about such a reader
    if not hasattr(w, "_c11_unmodelled"):
        w._c11_unmodelled = sorted(n for n in _decoders(w.top.items, binary_only=True) if n not in MODELLED_DECODERS)
    if w._c11_unmodelled:
        ctx.error(f"{q.split('.')[-1]}: bytes read from the file steer the reading through a decoder the evaluator does not model",
                  _func(ctx, rel, q), w._c11_unmodelled)
        return None
    if not hasattr(w, "_c11_unbound"):
        w._c11_unbound = sorted({e[1] for e in w.events if e[0] == "unbound"})
        if w._c11_unbound:
            # (reported once, by the rule that walks the function first)
            node = [e[2] for e in w.events if e[0] == "unbound"][0]
            ctx.check(False, f"{q.split('.')[-1]}: every name a reading path uses is bound where it is read (a local no path has assigned / a name "
                             "nothing defines raises UnboundLocalError / NameError: that path decodes nothing)", node, w._c11_unbound)
    if not hasattr(w, "_c11_stuck"):
        w._c11_stuck = _stuck_loops(w.top.items)
        if w._c11_stuck:
            lp = w._c11_stuck[0]
            ctx.check(False, f"{q.split('.')[-1]}: a loop that reads the file ends: its test depends on something the loop assigns or reads (here nothing "
                             "the loop does can change its test - once entered it never stops, or it is never entered)", lp.node,
                      {"loop test": repr(C.norm(lp.test, whole_values=False))[:300]})
    if not hasattr(w, "_c11_floats"):
        w._c11_floats = _float_amounts(w.top.items)
        if w._c11_floats:
            # (reported once, by the rule that walks the function first)
            ctx.check(False, f"{q.split('.')[-1]}: a number of bytes / lines / values handed to read, seek, fromfile, islice or range is an integer "
                             "(`/` gives a float, which these calls reject: every use fails)", _func(ctx, rel, q), repr(w._c11_floats[0])[:300])
    return w


MODELLED_DECODERS = frozenset({"dec", "arr", "call:len", "call:.decode", "call:bool"})


def _w2(ctx, name, **kw):
    kw.setdefault("sizes", T.size_model(ctx, "op2"))
    return _walk(ctx, OP2, "OP2", "OP2." + name, **kw)


def _w4(ctx, name, **kw):
    return _walk(ctx, OP4, "OP4", "OP4." + name, **kw)


def _bound(ctx, ok, text, where):
    """a sentinel on what a rule could bind: not a property verdict - when it is not met the rule could not bind (exit 2)"""
    if ok:
        ctx.ok(text, where, nontrivial=False)
    else:
        ctx.error(text, where)


def _short(q):
    return q.split(".")[-1]


SKIPPERS = frozenset({"self._skipop4_ascii", "self._skipop4_binary"})      # compared with the readers, not followed inside the loaders


def _phi_paths(v, path=()):
    """the leaves of a tree of selections: value -> [(path [(condition, taken)], leaf value)]"""
    p = C.fn_parts(v) if _rat(v) else None
    if p is not None and p[0] == "phi" and len(path) < 12:
        return _phi_paths(p[1][1], path + ((p[1][0], True),)) + _phi_paths(p[1][2], path + ((p[1][0], False),))
    return [(path, v)]


def _path_oracle(path):
    """case oracle of a walk: the tests of one selection path are decided as that path takes them"""
    def force(cv):
        for c, take in path:
            if C.same(cv, c, whole_values=False):
                return take
        return None
    return force


def _entered_readers(w):
    """the functions a loader enters to read the matrix: called from the loader itself, touching the file, looping over columns ->
    [(FunctionDef, selection path)] - whether they are called through a local that holds the selected one or written out in branches"""
    out = []
    for e in w.events:
        if e[0] != "enter" or e[3] != 0 or e[1] not in w.effects:
            continue
        if not any(isinstance(n, (ast.While, ast.For)) for n in ast.walk(e[1])):
            continue
        path = tuple((c, pol) for c, pol in e[2] if _rat(c) and not (C.truth_of(c) is not None))
        out.append((e[1], path))
    return out


def _readers(ctx, loader):
    """the readers a loader selects between: [{name, fn, paths: [selection path, ...], w: the loader walked with that reader, layout}]"""
    cache = ctx.__dict__.setdefault("_c11_readers", {})
    if loader in cache:
        return cache[loader]
    out = cache[loader] = []
    w0 = _w4(ctx, loader, tag="discover", no_inline=SKIPPERS)
    if w0 is None:
        return out
    ents = _entered_readers(w0)
    if not ents:
        ctx.error(f"{loader}: the readers it hands the matrix to", w0.fn)
        return out
    for fn, path in ents:
        old = [r for r in out if r["fn"] is fn]
        if old:
            old[0]["paths"].append(path)
            continue
        _func(ctx, OP4, "OP4." + fn.name)
        w = _w4(ctx, loader, tag="reader:" + fn.name, force=_path_oracle(path), no_inline=SKIPPERS)
        if w is None:
            continue
        out.append({"name": fn.name, "fn": fn, "paths": [path], "w": w, "layout": _layout(w, fn)})
    return out


def _layout(w, rf):
    """dense / bigmat / nonbigmat, read off the loops the reader runs: no string loop, a string loop on a header pair, a string loop on a
    packed header word"""
    cols = C.loops_of_call(w, rf)
    if len(cols) != 1:
        return "?"
    inner = C.loops_in(cols[0].items, deep=False)
    if not inner:
        return "dense"
    _p, dec = _counter(inner[0])
    return "nonbigmat" if _rat(dec) and _words_in([dec]) else "bigmat"


def _skip_args(w, skf, name="self._skipop4_ascii"):
    """{parameter of the skipper: value} the loader passes to it; the skipper may be called on several paths, with the same values"""
    calls = [e for e in w.events if e[0] == "call" and e[1] == name]
    if not calls:
        return None
    names = [x.arg for x in skf.args.args][1:]
    first = place(calls[0][2], calls[0][3], names)
    for e in calls[1:]:
        a = place(e[2], e[3], names)
        if set(a) != set(first) or not all(C.same(a[k], first[k], whole_values=False) for k in a):
            return None
    return first


# ---- calls through the (allocate, store, finish) functions a reader is handed
def _class_function_leaves(w, v):
    """the functions of the class a callee value selects between, [] if it is anything else"""
    out = []
    for _path, leaf in _phi_paths(v):
        n = C.sym_name(leaf) if _rat(leaf) else None
        f = w.table.get(n) if n is not None else None
        if f is None:
            return []
        if not any(f is x for x in out):
            out.append(f)
    return out


def _handed_calls(w):
    """calls through a local that holds a function of the class the callee was handed (not followed: they do not read the file)"""
    return [e for e in w.events if e[0] == "call" and e[6] is not None and _rat(e[6]) and _class_function_leaves(w, e[6])]


def _mentions(v, x):
    a = C.as_atom(x) if _rat(x) else None
    return a is not None and _rat(v) and (C.as_atom(v) == a or any(d == a for d in C.walk_atoms(v)))


def _matrix_calls(w):
    """(allocation, [stores], finish): the call whose result is the matrix under construction, the calls it is handed to inside loops,
    the call it is handed to at the end"""
    hc = _handed_calls(w)
    for ini in hc:
        X = ini[8]
        if not _rat(X) or C.as_atom(X) is None:
            continue
        users = [e for e in hc if e is not ini and any(_mentions(a, X) for a in e[2])]
        if users:
            stores = [e for e in users if not e[7].equals(w.top.id)]
            fins = [e for e in users if e[7].equals(w.top.id)]
            return ini, stores, (fins[-1] if fins else None)
    return None, [], None


def _store_roles(ctx, w, callee):
    """what a store function does with its arguments, read off the simplest variant: X[row + k, col] = text[k * width : (k + 1) * width]
    for k < count   /   X[row : row + len(values), col] = values.   -> {role: parameter name}, parameter names"""
    cache = ctx.__dict__.setdefault("_c11_roles", {})
    fns = _class_function_leaves(w, callee)
    key = tuple(sorted(f.name for f in fns))
    if key in cache:
        return cache[key]
    sigs = {tuple(a.arg for a in f.args.args) for f in fns}
    res = (None, None)
    if len(sigs) == 1:
        params = list(next(iter(sigs)))
        psyms = {p_: F.sym(p_) for p_ in params}

        def only_param(v):
            hit = [p_ for p_ in params if _rat(v) and _mentions(v, psyms[p_])]
            return hit[0] if len(hit) == 1 else None
        for f in sorted(fns, key=lambda f: len(ast.dump(f))):
            try:
                sw = C.Walker(ctx, OP4, "OP4", f, follow=False, files=()).run_function()
            except (Stuck, Unsupported):
                continue
            roles = {}
            for nm, ix, val, _st in sw.all_cells:
                if nm not in params or not _rat(ix):
                    continue
                p = C.fn_parts(ix)
                if p is None or p[0] != "tuple" or len(p[1]) != 2:
                    continue
                r0, c0 = p[1]
                sl = C._slice_parts(r0)
                if sl is not None:
                    r0 = sl[0]
                if only_param(r0) is None or only_param(c0) is None:
                    continue
                roles = {"matrix": nm, "row": only_param(r0), "col": only_param(c0)}
                # the count: the trip count of the loop whose running index is added to the row
                for fid, n in sw.for_trips:
                    if _rat(r0) and any(d[0] == "fn" and d[1] == "item" and C._arg(d[2][0]).equals(fid) for d in C.walk_atoms(r0)) and only_param(n):
                        roles["count"] = only_param(n)
                pv = C.fn_parts(val) if _rat(val) else None
                if pv is not None and pv[0] == "idx" and _rat(pv[1][0]) and only_param(pv[1][0]) and C._slice_parts(pv[1][1]) is not None:
                    lo, up, _stp = C._slice_parts(pv[1][1])
                    roles["text"] = only_param(pv[1][0])
                    if lo is not None and up is not None and only_param(up - lo):
                        roles["width"] = only_param(up - lo)
                elif _rat(val) and only_param(val):
                    roles["values"] = only_param(val)
                break
            if roles:
                res = (roles, params)
                break
        if res[0] is None:
            # no variant could be read: the parameters keep the roles their names announce
            named = {"matrix": "X", "row": "r", "col": "c", "count": "L", "text": "s", "width": "numlen", "values": "Y"}
            res = ({k: v for k, v in named.items() if v in params}, params)
    cache[key] = res
    return res


def _store_arg(ctx, w, e, role):
    """the value a store call passes in a role"""
    roles, params = _store_roles(ctx, w, e[6])
    if roles is None or role not in roles:
        return None
    return place(e[2], e[3], params).get(roles[role])


def _lv_in(v, frame):
    """the loop-carried placeholders of one loop frame occurring in a formula"""
    out = []
    for d in C.walk_atoms(v):
        if d[0] == "fn" and d[1] == "lv" and C._arg(d[2][0]).equals(frame):
            at = F.Rat(F.Poly.atom(F._intern(d)))
            if not any(at.equals(x) for x in out):
                out.append(at)
    return out



def _is_sub_frame(fid, root):
    """fid is root or a frame nested in it"""
    cur = fid
    for _ in range(12):
        if cur.equals(root):
            return True
        p = C.fn_parts(cur)
        if p is None or p[0] != "frame":
            return False
        cur = p[1][0]
    return False


def _counter(lp):
    """`while P > 0` -> (P, decrement per iteration) for the loop-carried P of the test"""
    t = C.fn_parts(C.norm(lp.test))
    if t is None or t[0] != "ge0":
        return None, None
    ps = _lv_in(t[1][0], lp.frame)
    if len(ps) != 1 or not (t[1][0] + 1).equals(ps[0]):
        return None, None
    upd = [v for p, v in lp.carry if p.equals(ps[0])]
    if len(upd) != 1 or upd[0] is None or is_unknown(upd[0]):
        return ps[0], None
    return ps[0], ps[0] - upd[0]


def _counter_loose(lp):
    """the one loop-carried local a loop test compares with a constant -> (P, True when the test is `P > 0`), (None, False) when there is none"""
    t = C.fn_parts(C.norm(lp.test)) if _rat(lp.test) else None
    if t is None or t[0] != "ge0":
        return None, False
    ps = _lv_in(t[1][0], lp.frame)
    if len(ps) != 1 or not (t[1][0] - ps[0]).is_const():
        return None, False
    return ps[0], (t[1][0] + 1).equals(ps[0])


def _tested_counter(lp):
    """the one loop-carried local a loop test reads -> (P, decrement per iteration, whether the test is `P > 0`)"""
    if not _rat(lp.test):
        return None, None, False
    ps = _lv_in(lp.test, lp.frame)
    if len(ps) != 1:
        return None, None, False
    upd = [v for p, v in lp.carry if p.equals(ps[0])]
    dec = ps[0] - upd[0] if len(upd) == 1 and upd[0] is not None and not is_unknown(upd[0]) and not isinstance(upd[0], tuple) else None
    # (`while P > 0` and `while P != 0` stop at the same place: the counter reaches 0 exactly at the end of a well-formed column)
    return ps[0], dec, C.same(lp.test, F.fn("ge0", ps[0] - 1), whole_values=False) or C.same(lp.test, F.fn("not", F.fn("eq0", ps[0])), whole_values=False)


def _rat(v):
    return v is not None and not is_unknown(v) and not isinstance(v, (tuple, DictValue))


# ------------------------------------------------------------------------------------------------------------------ R1
def _leaf_label(path):
    """name of one format binding: the last selection taken, e.g. `form == 'uint'`"""
    if not path:
        return "all"
    trues = [c for c, take in path if take]
    if trues:
        return T.show_cond(trues[-1])
    return "not (" + T.show_cond(path[-1][0]) + ")"


def _check_site(ctx, q, c, tbs, extra=None, site_label="", mtype=None, label=None):
    """one struct/fromfile cut-over site: same count, same bytes, same type on both routes, for every format binding and key width"""
    nm = _short(q)
    node = c["node"]
    fp = C.fn_parts(c["fmt"]) if _rat(c["fmt"]) else None
    if fp is None or fp[0] not in ("fmt", "mod") or len(fp[1]) != 2:
        ctx.error(f"{nm}: struct format of the cut-over is not `format % count`", c["unpack_node"], repr(c["fmt"]))
        return
    fmtv, cnt_s = fp[1]
    cnt = c["count_ff"]
    ok = C.same(cnt_s, cnt)
    ctx.check(ok, f"{nm}{site_label}: both sides of the cut-over read the same number of values", node,
              None if ok else {"unpack": repr(cnt_s), "fromfile": repr(cnt)})
    if not ok:
        return
    if C.norm(cnt).is_zero():
        ctx.error(f"{nm}: count of the cut-over", node)
        return
    bpv = c["nbytes"] / cnt
    vals = [fmtv, c["dtype"], bpv] + list(extra or [])
    try:
        lvs = C.leaves(vals)
    except Unsupported as e:
        ctx.error(f"{nm}: format selections of the cut-over", node, str(e))
        return
    for path, (f_, d_, b_, *rest) in lvs:
        key = _leaf_label(path)
        for bits in (32, 64):
            tb = tbs[bits]
            ftxt, dtxt, bnum = T.strval(f_, tb), T.strval(d_, tb), T.numval(C.norm(b_), tb)
            si, dt = T.struct_items(ftxt), T.dtype_of(dtxt)
            if si is None or dt is None or len(si[1]) != 1 or si[1][0][0] != "%d" or bnum is None:
                ctx.error(f"{nm} [{key}, {bits}-bit keys]: cannot resolve the formats of the cut-over", node,
                          {"struct": ftxt or repr(f_), "numpy": dtxt or repr(d_), "bytes per value": repr(bnum)})
                continue
            code = si[1][0][1]
            kind, size = dt[1], dt[2]
            bnum = C.norm(bnum)
            formats_agree = STRUCT_SIZE[code] == size and STRUCT_KIND[code] == NP_KIND[kind] and si[0] == dt[0]
            if formats_agree and not C.same(bnum, F.const(size)) and not bnum.is_const() and _unresolved_amount(bnum):
                # the two formats agree; the number of bytes the struct side reads per value is not resolved to a number (an attribute
                # or a call the size model does not compute): nothing is compared with it - not decided, never a violation
                ctx.error(f"{nm}{site_label} [{key}, {bits}-bit keys]: the bytes per value read by the struct side are not resolved to a number", node,
                          {"struct": ftxt, "numpy": dtxt, "bytes per value": repr(bnum)[:300]})
                continue
            ok = formats_agree and C.same(bnum, F.const(size))
            ctx.check(ok, f"{nm}{site_label} [{key}, {bits}-bit keys]: struct code '{code}' and numpy dtype '{kind}{size}' decode the same type from the same "
                          f"bytes per value on both sides of the 3000-value cut-over", node,
                      None if ok else {"struct": ftxt, "numpy": dtxt, "bytes per value read by the struct side": repr(C.norm(bnum)),
                                       "witness": "a string of 3000 or more values is decoded by np.fromfile, a shorter one by struct.unpack: with different "
                                                  "item sizes the long string is garbage and the reader leaves the record boundary; with different kinds "
                                                  "(signed/unsigned) a word >= 2^63 decodes differently on the two routes"},
                      key=f"C11-R1|{label or q}|{key}|{bits}|{ftxt.replace(T.ENDIAN, '')}|{dtxt.replace(T.ENDIAN, '')}")
            if rest and rest[0] is not None:
                # words per value (op4): a value occupies wper words of the key width
                wper = T.numval(C.norm(rest[0]), tb)
                bi = F.const(bits // 8)         # a word of the key width
                if wper is None or not (C.norm(wper).is_const() or C.same(wper * bi, bnum)):
                    if wper is None or _unresolved_amount(C.norm(wper)):
                        ctx.error(f"{nm} [{key}, {bits}-bit keys]: the words a value occupies are not resolved to a number", node, repr(wper)[:300])
                        continue
                ok = wper is not None and bi is not None and wper.is_const() and bi.is_const() and C.same(wper * bi, bnum)
                ctx.check(ok, f"{nm} [{key}, {bits}-bit keys]: a value occupies `wper` = {wper!r} words of {bi!r} bytes", node,
                          None if ok else {"bytes per value": repr(C.norm(bnum))})
    # which binding decodes which matrix type: odd Nastran types (1 real, 3 complex) are single precision
    resolved = all(T.struct_items(T.strval(f_, tbs[32])) is not None for _path, (f_, *_r) in lvs)       # (else: reported above as an analysis error)
    if mtype is not None and resolved:
        # decided for the four Nastran matrix types: the type is given each value in turn and the selections of the format are taken
        good, detail, undecided = True, None, None
        if not _rat(mtype) or C.as_atom(mtype) is None:
            undecided = "the matrix type the formats are selected by"
        else:
            for k in (1, 2, 3, 4):
                fk = C.settle(C.renamer([(mtype, F.const(k))])(fmtv))
                if any(d[0] == "fn" and d[1] in ("phi", "odd") for d in C.walk_atoms(fk)):
                    undecided = f"the format selected for matrix type {k}"
                    break
                si = T.struct_items(T.strval(fk, tbs[32]))
                code = si[1][0][1] if si is not None and len(si[1]) == 1 else None
                if code is None:
                    undecided = f"the format selected for matrix type {k}"
                    break
                if code != ("f" if k & 1 else "d"):
                    good, detail = False, {"matrix type": k, "struct code with 32-bit keys": code, "expected": "f" if k & 1 else "d"}
        text = f"{nm}{site_label}: the single-precision formats decode exactly the odd matrix types (1 and 3), the double-precision formats the even ones"
        if good and undecided is not None:
            ctx.error(text + " [cannot be decided]", node, undecided)
        else:
            ctx.check(good, text, node, detail)
    # the switch itself
    t = C.fn_parts(C.norm(c["test"])) if _rat(c["test"]) else None
    ok = t is not None and t[0] == "ge0"
    if ok:
        # apart from what the count is made of, the test refers to plain settings only (nothing read from the file)
        mine = {d for d in C.walk_atoms(C.norm(cnt))}
        rest = [d for d in C.walk_atoms(t[1][0]) if d not in mine]
        ok = all(d[0] == "s" for d in rest)        # (a literal cut-off is as good as a tunable one)
    ctx.check(ok, f"{nm}{site_label}: the switch compares the number of values with a setting (the cut-off), nothing read from the file", node, nontrivial=False)


def _unresolved_amount(v):
    """a number of bytes / words that still refers to something the size model did not turn into a number: an attribute of the object, the
    attribute of a value (`.size`, `.itemsize`, ...), the result of a call, an element of a tuple"""
    if not _rat(v):
        return True
    for d in C.walk_atoms(v):
        if d[0] == "s" and ("." in d[1] and d[1][:1] not in "'\""):
            return True
        if d[0] == "fn" and (d[1].startswith("attr:") or d[1] == "tuple" or (d[1].startswith("call:") and d[1] not in ("call:len", "call:int"))):
            return True
        if d[0] == "fn" and d[1] == "idx" and len(d[2]) == 2 and not isinstance(d[2][0], str):
            # an element of something that is not what a decode delivered (a tuple a helper returned, a selection between tuples, a name)
            q = C.fn_parts(C._arg(d[2][0]))
            if q is None or q[0] not in ("dec", "arr"):
                return True
    return False


def _unresolved_size(v):
    """a byte count (after the format tables were applied) that still refers to an attribute of the object or of a value, or to a call that is
    not computed: a size the model did not turn into a number"""
    if not _rat(v):
        return True
    for d in C.walk_atoms(v):
        if d[0] == "s" and d[1].startswith("self.") and d[1] not in (C.sym_name(T.WORD["op2"]), C.sym_name(T.WORD["op4"])):
            return True
        if d[0] == "fn" and (d[1].startswith("attr:") or (d[1].startswith("call:") and d[1] not in _MODELLED_CALLS)):
            return True
    return False


def _divisor(count):
    """count = words // d  ->  d: the words one value occupies, as the reader applies it to what the header announces"""
    p = C.fn_parts(count) if _rat(count) else None
    if p is not None and p[0] == "floordiv" and len(p[1]) == 2 and _rat(p[1][1]):
        return p[1][1]
    return None


def _reported_type(w):
    """the matrix type a loader reports: last element of the (name, matrix, form, type) it returns for a matrix it read"""
    full = [r for r in w.returns if isinstance(r[0], tuple) and len(r[0]) == 4 and not all(_rat(x) and C.sym_name(x) == "None" for x in r[0])]
    return full[-1][0][3] if full else None


def r1_cutover_pairs(ctx):
    tbs = T.tables(ctx)
    # ---- op4: the binary readers the loader selects between, evaluated on the values `_loadop4_binary` hands them
    n4 = 0
    for rd in _readers(ctx, "_loadop4_binary"):
        rf, w = rd["fn"], rd["w"]
        cols = C.loops_of_call(w, rf)
        sites = [c for c in w.cutovers if any(_is_sub_frame(c["frame"], lp.frame) for lp in cols)]
        if len(sites) != 1:
            ctx.error(f"{rd['name']}: cut-over site", rf, len(sites))
            continue
        n4 += 1
        # words per value: the divisor that turns the words the header announces into the number of values decoded
        wv = _divisor(sites[0]["count_ff"])
        if wv is None:
            ctx.error(f"{rd['name']}: the number of values decoded is not (words announced) // (words per value)", sites[0]["node"], repr(sites[0]["count_ff"]))
        mtype = _reported_type(w)
        _check_site(ctx, "OP4." + rd["name"], sites[0], tbs["op4"], extra=[wv], mtype=mtype if _rat(mtype) else F.sym("?"), label=f"op4 binary {rd['layout']}")
    # ---- op2
    n2 = 0
    for name in ("rdop2matrix", "rdop2record", "rdop2dynamics"):
        if not _has_func(ctx, OP2, "OP2." + name):
            continue
        w = _w2(ctx, name)
        if w is None:
            continue
        for i, c in enumerate(w.cutovers):
            n2 += 1
            mtype = None
            if name == "rdop2matrix" and len(w.fn.args.args) > 1:
                mtype = F.fn("idx", F.sym(w.fn.args.args[1].arg), F.const(4))      # the type field of the trailer
            _check_site(ctx, "OP2." + name, c, tbs["op2"], site_label=f" (site {i + 1})" if len(w.cutovers) > 1 else "", mtype=mtype)
    _bound(ctx, n4 == 3 and n2 >= 3, f"cut-over rule bound to {n4} op4 sites (one per binary reader) and {n2} op2 sites (matrix, records, DYNAMICS)", OP4 + ":1")


# ------------------------------------------------------------------------------------------------------------------ R2
def _bytes_of(data):
    """the number of bytes of the value handed to a struct decode: what one read (or a slice of one read) delivered"""
    p = C.fn_parts(data) if _rat(data) else None
    if p is not None and p[0] == "rd" and len(p[1]) == 3 and _rat(p[1][2]):
        return p[1][2]
    return None


def _opaque_amount(v):
    """a byte count that involves something the evaluator does not compute (an attribute of an object, the result of a call)"""
    return not _rat(v) or any(d[0] == "fn" and (d[1].startswith("attr:") or (d[1].startswith("call:") and d[1] not in ("call:len", "call:int")))
                              for d in C.walk_atoms(v))


def r2_declared_sizes(ctx):
    tbs = T.tables(ctx)
    fn4, fn2 = tbs["fn"]["op4"], tbs["fn"]["op2"]
    # ---- every struct decode of bytes read from the file decodes exactly the size of its format (both key widths)
    seen = set()
    nsites = nevents = 0
    jobs = [("op2", _w2, n) for n in ("_getkey", "rdop2eot", "rdop2nt", "rdop2matrix", "skipop2matrix", "rdop2record", "skipop2record",
                                      "rdop2tabheaders", "rdop2dynamics")]
    jobs += [("op4", _w4, n) for n in ("_skipop4_binary",)]
    walks = []
    for what, wf, n in jobs:
        w = wf(ctx, n)
        if w is not None:
            walks.append((what, n, w))
    for rd in _readers(ctx, "_loadop4_binary"):
        walks.append(("op4", "_loadop4_binary/" + rd["name"], rd["w"]))
    for what, n, w in walks:
        for e in w.events:
            if e[0] != "unpack":
                continue
            nbytes = _bytes_of(e[2])
            if nbytes is None:
                continue
            nevents += 1
            k = (n.split("/")[0], repr(e[2]), repr(e[1]))        # one obligation per decode on a walked path, wherever its statement lives
            if k in seen:
                continue
            seen.add(k)
            fmtv, cnt = e[1], None
            p = C.fn_parts(fmtv) if _rat(fmtv) else None
            if p is not None and p[0] in ("fmt", "mod") and len(p[1]) == 2:
                fmtv, cnt = p[1]
            try:
                lvs = C.leaves([fmtv, nbytes] + ([cnt] if cnt is not None else []))
            except Unsupported as ex:
                ctx.error(f"{n}: struct format selections", e[3], str(ex))
                continue
            ok, bad, unresolved = True, None, None
            for path, vals in lvs:
                for bits in (32, 64):
                    tb = tbs[what][bits]
                    txt = T.strval(vals[0], tb)
                    size = T.struct_size(txt, vals[2] if cnt is not None else None)
                    nb = T.numval(C.norm(vals[1]), tb)
                    if size is None or nb is None:
                        unresolved = {"format": txt or repr(vals[0]), "bytes": repr(nb)}
                        continue
                    size = T.numval(C.norm(size), tb)
                    if not C.same(size, nb) and (_opaque_amount(nb) or _unresolved_amount(C.norm(nb)) or _unresolved_amount(C.norm(size))):
                        # (either side still refers to something the size model did not turn into a number: not decided)
                        unresolved = {"format": txt, "bytes": repr(nb)}
                    elif not C.same(size, nb):
                        ok, bad = False, {"format": txt.replace(T.ENDIAN, ""), "size of the format": repr(size), "bytes read": repr(nb), "keys": f"{bits}-bit",
                                          "binding": _leaf_label(path)}
            if unresolved is not None and ok:
                ctx.error(f"{n}: struct format of a decode cannot be resolved", e[3], unresolved)
                continue
            # the decoded tuple is indexed / unpacked within the number of items of the format
            if ok and cnt is None:
                decv = F.fn("dec", e[2])
                for path, vals in lvs:
                    for bits in (32, 64):
                        it = T.struct_items(T.strval(vals[0], tbs[what][bits]))
                        nitems = sum(c for c, _k in it[1]) if it is not None and all(c != "%d" for c, _k in it[1]) else None
                        if nitems is None:
                            continue
                        # (the same decode is reached on every walk of the family - the loader with each of its readers: all its uses count)
                        for _what2, n2, w2 in walks:
                            if n2.split("/")[0] != n.split("/")[0]:
                                continue
                            for u in w2.events:
                                if u[0] == "decidx" and u[1].equals(decv) and not (-nitems <= u[2] < nitems):
                                    ok, bad = False, {"format": T.strval(vals[0], tbs[what][bits]).replace(T.ENDIAN, ""), "items": nitems, "index used": u[2]}
                                if u[0] == "decunpack" and u[1].equals(decv) and u[2] != nitems:
                                    ok, bad = False, {"format": T.strval(vals[0], tbs[what][bits]).replace(T.ENDIAN, ""), "items": nitems, "unpacked into": u[2]}
            nsites += 1
            ctx.check(ok, f"{n.split('/')[-1]}: the bytes read for a struct decode equal the size of its format, with 32- and 64-bit keys, and the "
                          "decoded items are used within their number", e[3], bad)
    _bound(ctx, nsites >= 40, f"decode-size rule bound to {nsites} struct decodes on the walked paths", fn2)
    # ---- declared sizes: an attribute that holds the number of bytes handed to a precompiled struct (found at the decodes, whatever the
    # two attributes are called) equals the size of that struct, which decodes whole words of the key width as integers
    pairs = []
    for what, n, w in walks:
        if what != "op4":
            continue
        for e in w.events:
            if e[0] != "unpack":
                continue
            pf, nb = C.fn_parts(e[1]) if _rat(e[1]) else None, _bytes_of(e[2])
            if pf is None or pf[0] != "structof" or nb is None or nb.is_const() or not (C.sym_name(pf[1][0]) or "").startswith("self."):
                continue
            # (the byte count: an attribute, a property computed from the word size, an expression - judged by its value)
            k = (C.sym_name(pf[1][0]), repr(C.norm(nb)))
            if k not in [(a_, b_) for a_, b_, _v in pairs]:
                pairs.append((k[0], k[1], nb))
    _bound(ctx, len(pairs) >= 4, f"declared-size rule bound to {len(pairs)} (struct, byte count) pairs of the op4 reader", fn4)
    dense_sites = []
    for rd in _readers(ctx, "_loadop4_binary"):
        if rd["layout"] == "dense":
            cols = C.loops_of_call(rd["w"], rd["fn"])
            dense_sites = [c for c in rd["w"].cutovers if any(_is_sub_frame(c["frame"], lp.frame) for lp in cols)]
    for bits, label, word in ((64, "64-bit", 8), (32, "32-bit", 4)):
        tb = tbs["op4"][bits]
        for sname, btxt, bval in sorted(pairs, key=lambda t: t[:2]):
            txt = T.strval(tb.get(sname), tb)
            b = T.numval(C.norm(bval), tb)
            si = T.struct_items(txt)
            bname = C.sym_name(bval)[5:] if (C.sym_name(bval) or "").startswith("self.") else btxt
            if si is None or b is None or not b.is_const() or any(c == "%d" for c, _k in si[1]):
                ctx.error(f"op4 {label}: {sname[5:]} / {bname}", fn4, {"format": txt, "bytes": repr(b)})
                continue
            cnt = sum(c for c, _k in si[1])
            size = sum(c * STRUCT_SIZE[k] for c, k in si[1])
            ok = size == b.const_value() and all(STRUCT_SIZE[k] == word and STRUCT_KIND[k] == "int" for _c, k in si[1])
            ctx.check(ok, f"op4 {label}: {bname} = {b!r} equals the size of its struct format {sname[5:]} ({cnt} x {word} bytes, integers)", fn4,
                      None if ok else {"format": txt.replace(T.ENDIAN, ""), "bytes": repr(b)})
        # words per double: the divisor the dense reader applies to the announced words for the double-precision types (whatever holds it:
        # an attribute set at open time, a property, a literal)
        wpd = None
        if len(dense_sites) == 1:
            dv = _divisor(dense_sites[0]["count_ff"])
            if dv is not None:
                try:
                    leaves_ = C.leaves([dv])
                except Unsupported:
                    leaves_ = []
                dbl = [v[0] for path, v in leaves_ if len(path) == 1 and not path[0][1] and (C.fn_parts(path[0][0]) or ("",))[0] == "odd"]
                if len(dbl) == 1:
                    wpd = T.numval(C.norm(dbl[0]), tb)
        if wpd is None or not wpd.is_const():
            ctx.error(f"op4 {label}: words per double-precision value cannot be resolved", fn4, {"words per double": repr(wpd)})
        else:
            ok = wpd.const_value() * word == 8
            ctx.check(ok, f"op4 {label}: words per double = 8 / word size", fn4, {"wordsperdouble": repr(wpd), "word": word})
    # ---- the two precisions of the op4 reals, as the dense reader decodes them (whatever the attributes that hold the formats are called):
    # a single-precision value is one word of the key width, a double 8 bytes; struct code and numpy dtype are reals of that size and carry
    # the detected byte order
    dense = [rd for rd in _readers(ctx, "_loadop4_binary") if rd["layout"] == "dense"]
    site = None
    if len(dense) == 1:
        cols = C.loops_of_call(dense[0]["w"], dense[0]["fn"])
        sites = [c for c in dense[0]["w"].cutovers if any(_is_sub_frame(c["frame"], lp.frame) for lp in cols)]
        site = sites[0] if len(sites) == 1 else None
    fp_ = C.fn_parts(site["fmt"]) if site is not None and _rat(site["fmt"]) else None
    if fp_ is None or fp_[0] not in ("fmt", "mod") or C.norm(site["count_ff"]).is_zero():
        ctx.error("op4: formats of the reals at the cut-over of the dense reader", fn4)
    else:
        lvs = C.leaves([fp_[1][0], site["dtype"], site["nbytes"] / site["count_ff"]])
        single = [v for path, v in lvs if len(path) == 1 and path[0][1] and (C.fn_parts(path[0][0]) or ("",))[0] == "odd"]
        double = [v for path, v in lvs if len(path) == 1 and not path[0][1] and (C.fn_parts(path[0][0]) or ("",))[0] == "odd"]
        if len(single) != 1 or len(double) != 1:
            ctx.error("op4: the single / double precision formats are not selected by the parity of the matrix type", fn4, len(lvs))
        else:
            texts = {}
            for bits, label, word in ((64, "64-bit", 8), (32, "32-bit", 4)):
                tb = tbs["op4"][bits]
                sr, srf, bsr = T.strval(single[0][0], tb), T.strval(single[0][1], tb), T.numval(C.norm(single[0][2]), tb)
                si, dt = T.struct_items(sr), T.dtype_of(srf)
                if si is None or dt is None or bsr is None or not bsr.is_const():
                    ctx.error(f"op4 {label}: single-precision struct format / numpy dtype / byte count cannot be resolved", fn4, {"struct": sr, "numpy": srf, "bytes": repr(bsr)})
                else:
                    ok = len(si[1]) == 1 and STRUCT_SIZE[si[1][0][1]] == dt[2] == bsr.const_value() == word and STRUCT_KIND[si[1][0][1]] == NP_KIND[dt[1]] == "float"
                    ctx.check(ok, f"op4 {label}: 'single-precision word' struct code, numpy dtype and byte count agree", fn4, {"struct": sr, "numpy": srf, "bytes": repr(bsr)})
                texts[bits] = (sr, srf, T.strval(double[0][0], tb), T.strval(double[0][1], tb))
            dr, drf = texts[32][2], texts[32][3]
            si, dt = T.struct_items(dr), T.dtype_of(drf)
            if si is None or dt is None:
                ctx.error("op4: double-precision struct format / numpy dtype cannot be resolved", fn4, {"struct": dr, "numpy": drf})
            else:
                ok = len(si[1]) == 1 and si[1][0] == ("%d", "d") and dt[1:] == ("f", 8)
                ctx.check(ok, "op4: double struct code and numpy dtype agree (d / f8)", fn4, {"struct": dr, "numpy": drf})
            for i, nm in enumerate(("single-precision struct format", "single-precision numpy dtype", "double-precision struct format", "double-precision numpy dtype")):
                ok = all((texts[b][i] or "").startswith(T.ENDIAN) for b in (32, 64))
                ctx.check(ok, f"op4: the {nm} carries the detected byte order", fn4, nontrivial=False)
    # ---- op2: the formats that have the size of a key, found where they are used (whatever the attributes that hold them are called):
    # integers = the signed binding of the record decode, "single precision" reals = the odd-type binding of the matrix decode, the key
    # struct = what _getkey decodes with
    def site_leaves(name):
        w = _w2(ctx, name) if _has_func(ctx, OP2, "OP2." + name) else None
        if w is None or not w.cutovers:
            return None
        c = w.cutovers[0]
        fp = C.fn_parts(c["fmt"]) if _rat(c["fmt"]) else None
        if fp is None or fp[0] not in ("fmt", "mod") or C.norm(c["count_ff"]).is_zero():
            return None
        try:
            return C.leaves([fp[1][0], c["dtype"], c["nbytes"] / c["count_ff"]])
        except Unsupported:
            return None
    rec_leaves, mat_leaves = site_leaves("rdop2record"), site_leaves("rdop2matrix")
    gk = _w2(ctx, "_getkey")
    keyfmt = [e[1] for e in gk.events if e[0] == "unpack" and _bytes_of(e[2]) is not None] if gk is not None else []
    for bits, label, isz in ((32, "32-bit", 4), (64, "64-bit", 8)):
        tb = tbs["op2"][bits]

        def resolved(lvs, want_kind, pick):
            out = []
            for path, (f_, d_, b_) in lvs or []:
                ftxt, dtxt, bnum = T.strval(f_, tb), T.strval(d_, tb), T.numval(C.norm(b_), tb)
                si_, dt_ = T.struct_items(ftxt), T.dtype_of(dtxt)
                if si_ is None or dt_ is None or len(si_[1]) != 1 or bnum is None or not bnum.is_const():
                    continue
                if STRUCT_KIND[si_[1][0][1]] == want_kind and pick(path):
                    out.append((si_, dt_, bnum, ftxt, dtxt))
            return out
        ints = resolved(rec_leaves, "int", lambda path: True)
        if len(ints) != 1:
            ctx.error(f"op2 {label}: the integer formats of a record (numpy dtype / struct code / bytes per value) cannot be resolved", fn2, len(ints))
        else:
            si, di, ib, ftxt, dtxt = ints[0]
            ok = di[2] == STRUCT_SIZE[si[1][0][1]] == ib.const_value() == isz and NP_KIND[di[1]] == "int" and di[0] == si[0] == T.ENDIAN
            ctx.check(ok, f"op2 {label}: integer numpy dtype, struct code and bytes per integer agree and have the size of a key", fn2,
                      {"numpy": dtxt, "struct": ftxt, "bytes": repr(ib)})
        reals = resolved(mat_leaves, "float", lambda path: len(path) == 1 and path[0][1] and (C.fn_parts(path[0][0]) or ("",))[0] == "odd")
        if len(reals) != 1:
            ctx.error(f"op2 {label}: the single-precision formats of a matrix (numpy dtype / struct code / bytes per value) cannot be resolved", fn2, len(reals))
        else:
            sr_, dr_, fb, ftxt, dtxt = reals[0]
            ok = dr_[2] == STRUCT_SIZE[sr_[1][0][1]] == fb.const_value() == isz and NP_KIND[dr_[1]] == "float" and dr_[0] == sr_[0] == T.ENDIAN
            ctx.check(ok, f"op2 {label}: real numpy dtype, struct code and bytes per real agree and have the size of a key", fn2,
                      {"numpy": dtxt, "struct": ftxt, "bytes": repr(fb)})
        sk = T.struct_items(T.strval(keyfmt[0], tb)) if len(keyfmt) == 1 else None
        if sk is None:
            ctx.error(f"op2 {label}: key struct cannot be resolved", fn2, repr(keyfmt[:1]))
        else:
            ok = len(sk[1]) == 1 and sk[1][0][0] == 1 and STRUCT_SIZE[sk[1][0][1]] == isz and STRUCT_KIND[sk[1][0][1]] == "int"
            ctx.check(ok, f"op2 {label}: key struct is {isz} bytes", fn2, T.strval(keyfmt[0], tb))


# ------------------------------------------------------------------------------------------------------------------ R3
def _string_loops(w, reader_fn):
    """(column loop, string loop) of a sparse reader inside a walk: the outermost loop whose node lies in the reader, and the loop in it"""
    outer = C.loops_of_call(w, reader_fn)
    if len(outer) != 1:
        return None, None
    inner = C.loops_in(outer[0].items, deep=False)
    return outer[0], (inner[0] if len(inner) == 1 else None)


def _stores_in(w, lp):
    """the calls, inside one loop, that are handed the matrix under construction"""
    _ini, stores, _fin = _matrix_calls(w)
    return [e for e in stores if e[7].equals(lp.frame)]


def _header_field(v, anywhere=False):
    """a decoded header field -> (kind, field number, source atom): binary word k of the read at the start of the frame, or the k-th
    8-column field of the line read at the start of the frame (the whole line = field 0)"""
    p = C.fn_parts(v) if _rat(v) else None
    if p is None:
        return None
    if p[0] == "idx" and _rat(p[1][0]) and _rat(p[1][1]) and p[1][1].is_const():
        q = C.fn_parts(p[1][0])
        if q is not None and q[0] == "dec":
            r = C.fn_parts(q[1][0])
            if r is not None and r[0] == "rd" and (r[1][1].is_zero() or anywhere):
                return "word", int(p[1][1].const_value()), q[1][0]
    if p[0] == "call:int" and len(p[1]) == 1 and _rat(p[1][0]):
        q = C.fn_parts(p[1][0])
        if q is not None and q[0] == "ln" and (q[1][1].is_zero() or anywhere):
            return "line", 0, p[1][0]
        if q is not None and q[0] == "idx":
            base, sl = C.fn_parts(q[1][0]), C.fn_parts(q[1][1]) if _rat(q[1][1]) else None
            if base is not None and base[0] == "ln" and (base[1][1].is_zero() or anywhere) and sl is not None and sl[0] in ("call:slice", "slice"):
                a, b = sl[1][0], sl[1][1]
                if _rat(a) and _rat(b) and a.is_const() and b.is_const() and b.const_value() - a.const_value() == 8 and a.const_value() % 8 == 0:
                    return "field", int(a.const_value() // 8), q[1][0]
    return None


def _whole_head(ctx, src):
    """the read a decoded word comes from is one read of the three words of a column head (12 / 24 bytes)"""
    r = C.fn_parts(src) if _rat(src) else None
    if r is None or r[0] != "rd" or len(r[1]) != 3 or not _rat(r[1][2]):
        return False
    tbs = T.tables(ctx)["op4"]
    return all(C.same(T.numval(C.norm(r[1][2]), tbs[b]), F.const(3 * (b // 8))) for b in (32, 64))


def _header_piece(v):
    """a decoded piece of the line / read that starts the frame which is *not* one of its fields: int(line[a:b]) off the 8-column grid"""
    p = C.fn_parts(v) if _rat(v) else None
    if p is None or p[0] != "call:int" or len(p[1]) != 1 or not _rat(p[1][0]):
        return False
    q = C.fn_parts(p[1][0])
    if q is None or q[0] != "idx":
        return False
    base, sl = C.fn_parts(q[1][0]), C._slice_parts(q[1][1]) if _rat(q[1][1]) else None
    if base is None or base[0] != "ln" or sl is None:
        return False
    a, b = sl[0], sl[1]
    return a is not None and b is not None and a.is_const() and b.is_const() and _header_field(v, anywhere=True) is None


def _words_in(values):
    """the arguments of hi16(.) / lo16(.) occurring in some formulas"""
    out = []
    for v in values:
        if not _rat(v):
            continue
        for d in C.walk_atoms(v):
            if d[0] == "fn" and d[1] in ("hi16", "lo16"):
                a = C._arg(d[2][0])
                if not any(a.equals(x) for x in out):
                    out.append(a)
    return out


def _lines_divisor(tot, L):
    """lines of one block = 2 + (L - 1) // p  (header line + ceil(L / p) data lines)  ->  p"""
    if tot is None or not _rat(L):
        return None
    p = C.fn_parts(tot - 2)
    if p is not None and p[0] == "floordiv" and len(p[1]) == 2 and _rat(p[1][0]) and _rat(p[1][1]) and C.same(p[1][0], L - 1, whole_values=False):
        return p[1][1]
    return None


_MODELLED_CALLS = frozenset({"call:int", "call:len", "call:slice", "call:.decode"})


def _opaque_value(*values):
    """a value the rules cannot judge: missing, or built with something the evaluator does not compute (the result of a call it does not
    model, an attribute of an object, true division, a text built from values)"""
    for v in values:
        if not _rat(v):
            return True
        for d in C.walk_atoms(v):
            if d[0] == "fn" and ((d[1].startswith("call:") and d[1] not in _MODELLED_CALLS) or d[1].startswith("attr:")
                                 or d[1] in ("truediv", "fstr", "comp", "each")):
                return True
    return False


def _verdict(ctx, ok, text, where, detail, *values, key=None, pairs=None):
    """an obligation on values: when it does not hold and one of the values is not something the evaluator computes - or, for an equality
    (`pairs` [(got, expected, whole values)]), no numbers are found on which the two sides differ - the rule cannot decide (analysis error);
    otherwise it is a verdict (with the witness)"""
    if not ok and _opaque_value(*values):
        ctx.error(text + " [cannot be decided: a value involved is not computed by the evaluator]", where, detail)
        return False
    if not ok and pairs:
        wit = None
        for a, b, whole in pairs:
            wit = wit or C.refute(a, b, whole)
        if wit is None:
            ctx.error(text + " [cannot be decided: the two sides are not the same formula, and no numbers were found on which they differ]", where, detail)
            return False
        detail = {"values": detail, "differ for instance with": wit}
    ctx.check(ok, text, where, detail, key=key)
    return ok


def r3_sibling_decoders(ctx):
    """the string-header arithmetic is the same function of the header words in the ASCII reader, the binary reader and the skipper, and the
    data read for a string is what its header announces"""
    res = []
    dense = []
    for loader, binary in (("_loadop4_ascii", False), ("_loadop4_binary", True)):
        for rd in _readers(ctx, loader):
            if rd["layout"] == "dense":
                dense.append((loader, binary, rd))
                continue
            reader, rf, w, kind = rd["name"], rd["fn"], rd["w"], rd["layout"]
            col, lp = _string_loops(w, rf)
            if lp is None:
                ctx.error(f"{reader}: {kind} string loop", rf)
                continue
            P, dec, positive = _tested_counter(lp)
            puts = _stores_in(w, lp)
            if P is None and _rat(lp.test) and not _lv_in(lp.test, lp.frame) and not any(
                    d[0] == "fn" and d[1] in ("rd", "ln") and C._arg(d[2][0]).equals(lp.frame) for d in C.walk_atoms(lp.test)):
                # a test nothing inside the loop can change: the loop reads no string at all or never stops
                ctx.check(False, f"{reader}: strings are read exactly while words of the column remain (words left > 0)", lp.node,
                          {"loop test": repr(C.norm(lp.test, whole_values=False))[:300], "why": "nothing the loop does changes its test"})
                continue
            if P is None or len(puts) != 1:
                ctx.error(f"{reader}: words-left counter / store call of the string loop", lp.node, {"counter": repr(P), "stores": len(puts)})
                continue
            if not positive and _flag_loop(lp):
                ctx.error(f"{reader}: the string loop is steered by a flag whose meaning could not be resolved", lp.node, {"loop test": repr(lp.test)[:300]})
                continue
            ctx.check(positive, f"{reader}: strings are read exactly while words of the column remain (words left > 0)", lp.node,
                      None if positive else {"loop test": repr(C.norm(lp.test, whole_values=False))})
            r = _store_arg(ctx, w, puts[0], "row")
            site = None
            if binary:
                sites = [c for c in w.cutovers if c["fr"] is lp.fr]
                site = sites[0] if len(sites) == 1 else None
                L = site["count_ff"] if site is not None else None
            else:
                L = _store_arg(ctx, w, puts[0], "count")
            # words per value as the format defines them: ASCII 1 for the odd (single precision) matrix types and 2 otherwise; binary
            # bytes per value / word size (per precision and key width, see `expected` below)
            mtype = _reported_type(w)
            wper = C.phi(F.fn("odd", mtype), F.const(1), F.const(2)) if not binary and _rat(mtype) else None
            res.append(dict(w=w, lp=lp, P=P, dec=dec, r=r, L=L, wper=wper, wdiv=_divisor(L), kind=kind, binary=binary, put=puts[0], reader=reader,
                            site=site, label=f"op4 {'binary' if binary else 'ascii'} {kind}"))
    perlines = []
    tb4 = T.tables(ctx)["op4"]

    def values_ok(d, L, words):
        """L == (words - 1) // words-per-value: ASCII symbolically, binary for every precision and key width (words per value = bytes per
        value / word size)"""
        if not _rat(L) or not _rat(words):
            return False
        if not d["binary"]:
            return d["wper"] is not None and C.same(L, C.floordiv(words - 1, d["wper"]), whole_values=False)
        site = d["site"]
        if site is None or C.norm(site["count_ff"]).is_zero():
            return False
        try:
            for _path, (L_, w_, b_) in C.leaves([L, words, site["nbytes"] / site["count_ff"]]):
                for bits in (32, 64):
                    bpv = T.numval(C.norm(b_), tb4[bits])
                    if bpv is None or (not bpv.is_const() and _unresolved_amount(C.norm(bpv))):
                        return None         # (the bytes per value are not resolved to a number: nothing to compare with)
                    if not bpv.is_const() or (bpv.const_value() / (bits // 8)).denominator != 1:
                        return False
                    wexp = F.const(bpv.const_value() / (bits // 8))
                    got = C.refloor(T.numval(C.norm(L_, whole_values=False), tb4[bits]))
                    want = C.floordiv(C.refloor(T.numval(C.norm(w_, whole_values=False), tb4[bits])) - 1, wexp)
                    if not C.same(got, want, whole_values=False):
                        return False
        except Unsupported:
            return False
        return True
    for d in res:
        lp, dec, r, L, wper, reader = d["lp"], d["dec"], d["r"], d["L"], d["wper"], d["reader"]
        if d["kind"] == "nonbigmat":
            # the packed header word: what the string loop decodes first (the first read / the first line of its body)
            W = None
            for e in d["w"].events:
                if e[0] == "read" and C.fn_parts(e[1])[1][0].equals(lp.frame) and C.fn_parts(e[1])[1][1].is_zero():
                    W = F.fn("idx", F.fn("dec", e[1]), F.const(0))
                elif e[0] == "line" and C.fn_parts(e[1])[1][0].equals(lp.frame) and C.fn_parts(e[1])[1][1].is_zero():
                    W = F.fn("call:int", e[1])
            if W is None:
                ctx.error(f"{reader}: the packed header word of a string", lp.node)
                continue
            hi, lo = F.fn("hi16", W), F.fn("lo16", W)
            ok = values_ok(d, L, hi)
            if ok is None:
                ctx.error(f"{reader}: values per string = ((IS >> 16) - 1) // words-per-value [cannot be decided: the bytes per value are not resolved to a number]", lp.node, repr(L))
            else:
                _verdict(ctx, ok, f"{reader}: values per string = ((IS >> 16) - 1) // words-per-value", lp.node, None if ok else repr(L), L)
            ok = _rat(dec) and C.same(dec, hi)
            _verdict(ctx, ok, f"{reader}: words consumed per string = IS >> 16 (L + 1)", lp.node, None if ok else repr(dec), dec, pairs=[(dec, hi, True)])
            ok = _rat(r) and C.same(r, lo - 1)
            _verdict(ctx, ok, f"{reader}: first row = (low 16 bits of IS) - 1, for every row up to 65535", lp.node,
                     None if ok else f"{r!r} (the ASCII and binary decoders must place the same string at the same row)", r,
                     key=f"C11-R3|{d['label']}|first row", pairs=[(r, lo - 1, True)])
        else:
            # the header of a bigmat string is the pair (L_header, row): fields 0 and 1 of the read / line that starts the loop body
            f0 = _header_field(dec - 1) if _rat(dec) else None
            f1 = _header_field(r + 1) if _rat(r) else None

            def near_field(v, off):
                """v is a header field up to a constant other than the expected one, or a piece of the header cut at other columns than a
                field's, or of another sign: a definite difference"""
                if not _rat(v):
                    return False
                cands = [s_ * v + k for s_ in (1, -1) for k in range(-3, 4) if not (s_ == 1 and k == off)]
                return any(_header_field(x) is not None or _header_piece(x) for x in cands + [v + off])
            ok = f0 is not None and f0[1] == 0
            text = f"{reader}: bigmat words consumed per string = L_header + 1, L_header being the first header field"
            if ok or f0 is not None or near_field(dec, -1):
                ctx.check(ok, text, lp.node, None if ok else {"words": repr(dec)})
            else:
                ctx.error(text + " [cannot be decided: the words counted off are not a header field the evaluator recognises]", lp.node, {"words": repr(dec)})
            ok = f1 is not None and f1[1] == 1 and f0 is not None and f0[0] == f1[0] and C.same(f0[2], f1[2])
            text = f"{reader}: bigmat first row = header row - 1, the row being the second field of the same header"
            if ok or (f1 is not None and f0 is not None) or near_field(r, 1):
                ctx.check(ok, text, lp.node, None if ok else {"row": repr(r)})
            else:
                ctx.error(text + " [cannot be decided: the row is not a header field the evaluator recognises]", lp.node, {"row": repr(r)})
            if f0 is None:
                continue
            W0 = dec - 1
            ok = values_ok(d, L, W0)
            if ok is None:
                ctx.error(f"{reader}: bigmat values per string = (L_header - 1) // words-per-value [cannot be decided: the bytes per value are not resolved to a number]", lp.node, repr(L))
            else:
                _verdict(ctx, ok, f"{reader}: bigmat values per string = (L_header - 1) // words-per-value", lp.node, None if ok else repr(L), L)
        # the data read for the string is what the header announces
        if d["binary"]:
            tot = C.total(lp.items, "B")
            tbs = T.tables(ctx)["op4"]
            good, detail, undecided = tot is not None and _rat(dec), None, False
            if not good:
                ctx.error(f"{reader}: the bytes read per string cannot be added up (the string loop branches or loops inside)", lp.node, C.show(lp.items)[:300])
                continue
            if good:
                for path, (t_, d_) in C.leaves([tot, dec]):
                    for bits in (32, 64):
                        a, b = T.numval(C.norm(t_), tbs[bits]), T.numval(C.norm(d_ * (bits // 8)), tbs[bits])
                        if a is None or b is None or not C.same(a, b):
                            good, detail = False, {"bytes read per string": repr(a), "words counted x word size": repr(b), "keys": f"{bits}-bit", "binding": _leaf_label(path)}
                            if a is None or b is None or _unresolved_size(a) or _unresolved_size(b):
                                undecided = True
            text = f"{reader}: the bytes read per string (header + data) equal the words counted off for it x the word size, for both precisions and key widths"
            if not good and undecided:
                ctx.error(text + " [cannot be decided: a byte count is not resolved to a number]", lp.node, detail)
            else:
                ctx.check(good, text, lp.node, detail)
        else:
            tot = C.total(lp.items, "L")
            pl = _lines_divisor(tot, L)
            ok = pl is not None
            if not ok and tot is None:
                ctx.error(f"{reader}: the lines read per string cannot be added up (the string loop branches or loops inside)", lp.node, C.show(lp.items)[:300])
                continue
            _verdict(ctx, ok, f"{reader}: a string is one header line plus ceil(L / perline) data lines for the L values it stores", lp.node,
                     None if ok else {"lines": repr(tot), "values": repr(L)}, tot, L)
            if pl is not None:
                perlines.append(pl)
    # dense columns: the column header carries the (1-based) row of the first value
    for loader, binary, rd in dense:
        reader, rf, w = rd["name"], rd["fn"], rd["w"]
        cols_ = C.loops_of_call(w, rf)
        puts = _stores_in(w, cols_[0]) if len(cols_) == 1 else []
        if len(puts) != 1:
            ctx.error(f"{reader}: store call of the column loop", rf)
            continue
        col = cols_[0]
        r = _store_arg(ctx, w, puts[0], "row")
        ok, detail = _rat(r), None
        if ok:
            # r = (a loop-carried row field) - 1: on entry the field of the head the loader read, afterwards that of the head just read
            ps = _lv_in(r, col.frame)
            ok = len(ps) == 1 and C.same(r, ps[0] - 1)
            if ok:
                P = ps[0]
                upd = [v for q, v in col.carry if q.equals(P)]
                pp = C.fn_parts(P)
                ent = pp[1][1] if pp is not None and pp[0] == "lv" and len(pp[1]) >= 2 and _rat(pp[1][1]) else None
                h1 = _header_field(upd[0], anywhere=True) if len(upd) == 1 and _rat(upd[0]) else None
                h0 = _header_field(ent, anywhere=True) if ent is not None else None
                ok = h1 is not None and h0 is not None and h1[1] == 1 and h0[1] == 1 and h1[0] == h0[0] and h1[0] in ("word", "field")
                if not ok and any(h is not None and h[0] == "word" and not _whole_head(ctx, h[2]) for h in (h0, h1)):
                    # the head of a column read word by word / cut out of a larger read: which word of the head a value is cannot be told from
                    # its place in the decode
                    ctx.error(f"{reader}: the first row of a dense column = (row field of its column header) - 1 [cannot be decided: the column head is not "
                              "decoded as one read of three words]", puts[0][5], {"first row": repr(r)})
                    continue
            if not ok:
                detail = {"first row": repr(r)}
        _verdict(ctx, ok, f"{reader}: the first row of a dense column = (row field of its column header) - 1", puts[0][5], detail, r)
        if not binary:
            L = _store_arg(ctx, w, puts[0], "count")
            pl = _lines_divisor(C.total(col.items, "L"), L)       # the block and the next column header
            if pl is not None:
                perlines.append(pl)
    # words per value of the ASCII loader: 1 for the odd (single precision) matrix types, 2 otherwise
    arow = [d for d in res if not d["binary"]]
    if arow:
        wl = arow[0]["w"]
        ok = all(d["wper"] is not None and d["wdiv"] is not None and C.same(d["wdiv"], d["wper"]) for d in arow)
        text = "_loadop4_ascii: a value takes 1 word for the odd matrix types (single precision) and 2 words otherwise, the type being the one reported for the matrix"
        if not ok and any(d["wper"] is None or d["wdiv"] is None for d in arow):
            ctx.error(text + " [cannot be decided: the number of values of a string is not (words announced) // (words per value)]", wl.fn,
                      [repr(d["L"])[:200] for d in arow if d["wdiv"] is None])
        else:
            _verdict(ctx, ok, text, wl.fn, None if ok else repr(arow[0]["wdiv"]), *[d["wdiv"] for d in arow])
    # words per value: the ASCII skipper and the ASCII loader derive it from the matrix type identically (the skipper walked in the case
    # that takes its nonbigmat path, with its parameters standing for what the loader passes)
    cs = _ascii_cases(ctx)
    nb = [d for d in arow if d["kind"] == "nonbigmat"]
    if cs["ok"] and nb:
        got = False
        want = cs["ren_l"](nb[0]["wper"]) if nb[0]["wper"] is not None else F.sym("?")
        for _asg, _wl, ws in cs["cases"]:
            for lp in C.loops_in(ws.top.items):
                P, dec = _counter(lp)
                if P is None or not _rat(dec) or not _words_in([dec]):
                    continue
                W = _words_in([dec])[0]
                tot = C.total(lp.items, "L")
                if tot is None:
                    continue
                tot = cs["ren_s"](tot)
                pl = _lines_divisor(tot, C.floordiv(F.fn("hi16", cs["ren_s"](W)) - 1, want))
                got = got or pl is not None
        ctx.check(got, "ASCII skipper and loader derive words-per-value from the matrix type identically", cs["skf"],
                  None if got else {"loader": repr(want)})
    # one values-per-line for every ASCII reader
    ok = len(perlines) >= 3 and all(C.same(perlines[0], x, whole_values=False) for x in perlines[1:])
    if len(perlines) >= 3:          # (a reader whose lines per block could not be read off has been reported above)
        ctx.check(ok, "the three ASCII readers split their blocks by the same values-per-line", _func(ctx, OP4, "OP4._loadop4_ascii"),
                  None if ok else [repr(x)[:120] for x in perlines])
    ctx.__dict__["_c11_perline"] = perlines[0] if perlines else None
    # sentinel: every reader evaluated
    _bound(ctx, len(res) == 4, f"sibling rule bound to {len(res)} string readers", OP4 + ":1")


# ------------------------------------------------------------------------------------------------------------------ R4
def _decoders(items, binary_only=False):
    """names of the functions applied directly to bytes / lines read from the file, anywhere in a consumption tree"""
    out = set()
    kinds = ("rd",) if binary_only else ("rd", "ln", "lns")

    def scan(v):
        if not _rat(v):
            return
        for d in C.walk_atoms(v):
            if d[0] == "fn" and (d[1].startswith("call:") or d[1] in ("dec", "arr")):
                for k in d[2]:
                    if isinstance(k, str):
                        continue
                    a = C.fn_parts(C._arg(k))
                    if a is not None and a[0] in kinds:
                        out.add(d[1])
                    elif a is not None and a[0] == "idx" and _rat(a[1][0]) and (C.fn_parts(a[1][0]) or ("",))[0] in kinds:
                        out.add(d[1])

    def walk(its):
        for it in its:
            if it[0] in ("B", "L", "abs"):
                scan(it[1])
            elif it[0] == "if":
                scan(it[1])
                walk(it[2])
                walk(it[3])
            elif it[0] == "loop":
                scan(it[1].test)
                walk(it[1].items)
                for _p, v in it[1].carry:
                    scan(v)
    walk(items)
    return out


_SIZES = set()          # names of the attributes that hold a byte / word count of the detected format (filled from the format tables)


def _position_like(v):
    """an absolute seek target that may be a remembered position: anything that involves more than words decoded from the file, constants and
    the sizes of the detected format (a `tell()`, a parameter, an attribute that is not a size)"""
    if not _rat(v):
        return True
    for d in C.walk_atoms(C.norm(v, whole_values=False)):
        if d[0] == "fn" and d[1] == "tell":
            return True
        if d[0] == "fn" and (d[1].startswith("attr:") or (d[1].startswith("call:") and d[1] not in ("call:int", "call:len"))):
            return True
        if d[0] == "s" and d[1] not in _SIZES and d[1] not in ("T", "S", "LOOP", "None", "True", "False") and not d[1].startswith("<loop") \
                and d[1][:1] not in "'\"" and not d[1].startswith(("b'", 'b"', "unbound:")):
            return True
    return False


def _flag_loop(lp):
    """a loop whose test is (the negation of) a bare loop-carried truth value: a flag the evaluator could not write on the values at the top of
    the loop - what the loop tests is then not known to the rules"""
    t = lp.test
    if not _rat(t):
        return False
    p = C.fn_parts(t)
    if p is not None and p[0] == "not" and len(p[1]) == 1 and not isinstance(p[1][0], str):
        t = p[1][0]
        p = C.fn_parts(t)
    return p is not None and p[0] == "lv" and C.is_truth_value(t)


def _opaque_amount_in(v):
    """an amount / test of a consumption tree built with something the evaluator does not compute (a call it does not model applied to
    plain numbers, true division)"""
    if not _rat(v):
        return False
    for d in C.walk_atoms(v):
        if d[0] == "fn" and d[1] in ("truediv", "call:bool", "fstr") or d[0] == "fn" and d[1].startswith(("call:math.", "call:np.", "call:numpy.", "call:round", "call:float",
                                                                                                        "call:min", "call:max", "call:sum")):
            return True
    return False


def _unjudgeable(items, amounts=False):
    """why a consumption tree cannot be compared / measured: a loop with several exits that has no normal form, an absolute seek
    (`amounts`: only what is consumed is judged, not when the loops stop)"""
    for it in items:
        if it[0] in ("B", "L", "abs") and _opaque_amount_in(it[1]):
            return "an amount computed by a function the evaluator does not model"
        if it[0] == "loop" and _flag_loop(it[1]) and not amounts:
            return "a loop steered by a flag whose meaning could not be resolved"
        if it[0] == "abs" and _position_like(it[1]):
            # (a target made of nothing but words decoded from the file and constants is a position counted from the start of the file:
            # that can be judged - it is not where a reader that works record by record has to go)
            return "an absolute seek"
        if it[0] == "if":
            r = _unjudgeable(it[2], amounts) or _unjudgeable(it[3], amounts)
            if r:
                return r
        if it[0] == "loop":
            lp = it[1]
            if lp.kind == "while" and not lp.forced and _rat(lp.test) and C.norm(lp.test).is_const():
                return "a `while True` loop with several exits"
            r = _unjudgeable(lp.items, amounts)
            if r:
                return r
    return None


def _tree_check(ctx, ok, text, where, detail, *trees, bound=True, pair=None, amounts=False):
    """an obligation on the shape / amounts of consumption trees: when it does not hold and a tree has no normal form - or the things it
    speaks about could not be found (`bound` false) - the rule cannot judge (analysis error); otherwise it is a verdict"""
    if not ok and not bound:
        ctx.error(text + " [cannot be judged: the loops / amounts it speaks about could not be identified]", where, detail)
        return False
    if not ok and pair is not None:
        wit = C.refute(*pair)
        if wit is None:
            ctx.error(text + " [cannot be decided: two amounts are not the same formula, and no numbers were found on which they differ]", where, detail)
            return False
        detail = {"detail": detail, "differ for instance with": wit}
    if not ok:
        for t in trees:
            why = _unjudgeable(t, amounts) if t is not None else None
            if why:
                ctx.error(text + f" [cannot be judged: {why}]", where, detail)
                return False
    ctx.check(ok, text, where, detail)
    return ok


def _same_tree(ctx, a, b, text, where, whole_values=True, detail=None):
    """obligation `the two consumption trees are equal`; when they differ *and* decode the file through different functions (one of them
    unknown to the evaluator) the difference cannot be judged: analysis error, not violation"""
    why = []
    ok = C.same_items(a, b, whole_values=whole_values, why=why)
    odd_ones = sorted(n for n in _decoders(a) ^ _decoders(b) if n not in MODELLED_DECODERS and n != "call:int" and not n.startswith("call:."))
    wit = C.refute(*C.LAST_DIFFERENCE[0]) if (not ok and C.LAST_DIFFERENCE) else None
    if not ok and wit is not None:
        # two amounts / tests at the same place of the two trees, made of the same things, with numbers on which they differ: a verdict
        d = {"first difference": why[:1], "differ for instance with": wit}
        d.update(detail() if callable(detail) else (detail or {}))
        ctx.check(False, text, where, d)
        return False
    if not ok and odd_ones:
        ctx.error(text + " [one side decodes what it reads through a function the other does not use and the evaluator does not model: " +
                  ", ".join(odd_ones) + "]", where, {"first difference": why[:1]})
        return False
    if not ok and (_unjudgeable(a) or _unjudgeable(b)):
        ctx.error(text + f" [cannot be judged: {_unjudgeable(a) or _unjudgeable(b)}]", where, {"first difference": why[:1]})
        return False
    d = None
    if not ok:
        d = {"first difference": why[:1]}
        if C.LAST_DIFFERENCE:
            # two amounts / tests that are not the same formula: a violation only with numbers on which they differ (none were found)
            ctx.error(text + " [cannot be decided: two amounts are not the same formula, and no numbers were found on which they differ]", where, d)
            return False
        d.update(detail() if callable(detail) else (detail or {}))
    ctx.check(ok, text, where, d)
    return ok


def _strip_exit(items):
    items = list(items)
    while items and items[-1][0] == "exit":
        items.pop()
    return items


def _after_loops(items, cont=()):
    """[(loop, items that follow it up to the end of the path)] for every loop of an item list, branches followed"""
    out = []
    items = list(items)
    for i, it in enumerate(items):
        rest = items[i + 1:] + list(cont)
        if it[0] == "loop":
            out.append((it[1], rest))
            out.extend(_after_loops(it[1].items, ()))
        elif it[0] == "if":
            for arm in (it[2], it[3]):
                ends = any(x[0] == "exit" for x in arm)
                out.extend(_after_loops(arm, () if ends else rest))
    return out


def _path_totals(items, unit):
    """the amount consumed on every path through the branches of an item list (no loops): [(path conditions, total)] or None"""
    out = [((), F.const(0))]
    for it in C.tidy(items):
        if it[0] == unit:
            if is_unknown(it[1]):
                return None
            out = [(g, t + it[1]) for g, t in out]
        elif it[0] == "if":
            a, b = _path_totals(it[2], unit), _path_totals(it[3], unit)
            if a is None or b is None:
                return None
            out = [(g + ((it[1], True),) + ga, t + ta) for g, t in out for ga, ta in a] + [(g + ((it[1], False),) + gb, t + tb) for g, t in out for gb, tb in b]
            if len(out) > 32:
                return None
        elif it[0] in ("loop", "abs"):
            return None
        elif it[0] == "exit":
            break
    return out


def _stray_seeks(items):
    """the absolute seeks, anywhere in an item list, whose target is made of nothing but words of the records and sizes (not a remembered position)"""
    out = []
    for it in C.tidy(items):
        if it[0] == "abs" and not _position_like(it[1]):
            out.append(it)
        elif it[0] == "if":
            out += _stray_seeks(it[2]) + _stray_seeks(it[3])
        elif it[0] == "loop":
            out += _stray_seeks(it[1].items)
    return out


def _has_exit(items):
    for it in items:
        if it[0] == "exit":
            return True
        if it[0] == "if" and (_has_exit(it[2]) or _has_exit(it[3])):
            return True
        if it[0] == "loop" and any(x[0] == "exit" and x[1] in ("return", "raise") for x in _flat(it[1].items)):
            return True
    return False


def _flat(items):
    for it in items:
        yield it
        if it[0] == "if":
            yield from _flat(it[2])
            yield from _flat(it[3])
        elif it[0] == "loop":
            yield from _flat(it[1].items)


def _stuck_loops(items):
    """the `while` loops that consume from the file, have no way out but their test, and whose test nothing they do can change (it mentions
    no local the loop assigns and nothing the loop reads): once entered they never end"""
    out = []
    for it in _flat(items):
        if it[0] != "loop":
            continue
        lp = it[1]
        if lp.kind != "while" or not _rat(lp.test) or C.norm(lp.test).is_const() or _has_exit(lp.items) or not C.tidy([x for x in _flat(lp.items) if x[0] in ("B", "L", "abs")]):
            continue
        changes = any(d[0] == "fn" and (d[1] in ("lv", "rd", "ln", "lns", "after", "tell", "fin", "item") and d[2] and not isinstance(d[2][0], str)
                                          and _is_sub_frame(C._arg(d[2][0]), lp.frame)) for d in C.walk_atoms(lp.test))
        # (a call in the test may give another answer each time - unless it is a text method of a value the loop does not change)
        calls = any(d[0] == "fn" and d[1].startswith(("call:", "attr:")) and d[1] not in ("call:int", "call:len")
                    and not (d[1].startswith("call:.") and d[1][6:] in K.STR_METHODS) for d in C.walk_atoms(lp.test))
        if not changes and not calls:
            out.append(lp)
    return out


def _float_amounts(items):
    """the amounts of a consumption tree computed by true division: floats, which read / seek / fromfile / islice / range reject"""
    out = []
    for it in items:
        if it[0] in ("B", "L", "abs") and _rat(it[1]) and any(d[0] == "fn" and d[1] == "truediv" for d in C.walk_atoms(it[1])):
            out.append(it[1])
        elif it[0] == "if":
            out += _float_amounts(it[2]) + _float_amounts(it[3])
        elif it[0] == "loop":
            out += _float_amounts(it[1].items)
    return out


def _until_exit(items):
    out = []
    for it in items:
        if it[0] == "exit":
            break
        out.append(it)
    return out


def r4_read_equals_skip(ctx):
    """a reader and its skipper advance the file by the same bytes / lines, loop on the same decoded words and stop at the same place"""
    # ---- keys
    gk = _w2(ctx, "_getkey")
    if gk is not None:
        tot = C.total(_strip_exit(gk.top.items), "B")
        ok = tot is not None and C.same(tot, KEY)
        _tree_check(ctx, ok, "_getkey: a key is 4 + ibytes + 4 bytes", gk.fn, None if ok else C.show(gk.top.items), gk.top.items)
    # between the records of a data block header only whole keys are skipped: whatever rdop2nt consumes beyond its three records
    # [4][payload][4] (name, trailer, name) is a whole number of the triplets _getkey reads, in both key widths
    nt = _w2(ctx, "rdop2nt")
    if nt is not None and gk is not None:
        tail = [it for it in C.tidy(nt.top.items)]
        # the path that reads a data block: the arm of the end-of-file test that consumes
        path = []
        for it in tail:
            if it[0] == "if":
                arms = [a for a in (it[2], it[3]) if C.total(_until_exit(a), "B") is not None and not C.norm(C.total(_until_exit(a), "B")).is_zero()]
                path += list(arms[0]) if len(arms) == 1 else [it]
            else:
                path.append(it)
        tot = C.total(_until_exit(path), "B")
        ok, detail = tot is not None, None
        if ok:
            rest = C.norm(tot, whole_values=False)
            # payloads: the decoded lengths / counts the records announce
            var = F.const(0)
            for m, c in rest.n.t.items():
                if m and not (len(m) == 1 and C.sym_name(F.Rat(F.Poly.atom(m[0][0]))) == "self._ibytes"):
                    var = var + F.Rat(F.Poly({m: c}))
            fixed = rest - var
            # fixed = 8 * records + k * (8 + ibytes)
            ib_mono = ((F._intern(("s", "self._ibytes")), 1),)
            k = None
            if fixed.d.is_const():
                coef = {m: c / fixed.d.const_value() for m, c in fixed.n.t.items()}
                kk, c0 = coef.get(ib_mono, 0), coef.get((), 0)
                if set(coef) <= {(), ib_mono} and kk.denominator == 1 and c0.denominator == 1 and (c0 - 8 * kk) % 8 == 0 and c0 - 8 * kk >= 0:
                    k = (int(kk), int((c0 - 8 * kk) // 8))
            ok = k is not None and k[0] >= 1 and k[1] == 3
            detail = None if ok else {"bytes": repr(rest), "fixed part": repr(fixed), "keys, records": k}
        _tree_check(ctx, ok, "rdop2nt: apart from its three records ([4][payload][4]: name, trailer, name) it consumes a whole number of key triplets "
                    "of 8 + ibytes bytes, as _getkey reads them", nt.fn, detail, nt.top.items, bound=tot is not None)
    # ---- matrix
    rm, sm = _w2(ctx, "rdop2matrix"), _w2(ctx, "skipop2matrix")
    if rm is not None and sm is not None:
        _same_tree(ctx, _strip_exit(rm.top.items), _strip_exit(sm.top.items),
                   "rdop2matrix and skipop2matrix consume the same bytes record by record, loop on the same keys (column key, record keys, two "
                   "trailing keys, end-of-table) and stop at the same place [whole values: reclen = ibytes + n * bytes_per]", sm.fn,
                   detail=lambda: {"read": C.show(rm.top.items)[:400], "skip": C.show(sm.top.items)[:400]})
        lps = C.loops_in(rm.top.items)
        rec = [lp for lp in lps if not C.loops_in(lp.items)]
        ok = bound = len(rec) == 1 and C.total(rec[0].items, "B") is not None
        word = F.fn("idx", F.fn("dec", F.fn("rd", rec[0].frame, F.const(0), F.const(4))), F.const(0)) if ok else None
        ok = ok and C.same(C.total(rec[0].items, "B"), 4 + word + 4 + KEY)
        _tree_check(ctx, ok, "rdop2matrix: per record reads 4 + ibytes + n*bytes_per + 4 bytes with n = (reclen - ibytes)//bytes_per (= 4 + reclen + 4 for "
                    "whole values), on both sides of the cut-over", rec[0].node if rec else rm.fn, None if ok else C.show(rm.top.items)[:400], rm.top.items, bound=bound, amounts=True)
    if sm is not None:
        rec = [lp for lp in C.loops_in(sm.top.items) if not C.loops_in(lp.items)]
        ok = bound = len(rec) == 1 and C.total(rec[0].items, "B") is not None
        word = F.fn("idx", F.fn("dec", F.fn("rd", rec[0].frame, F.const(0), F.const(4))), F.const(0)) if ok else None
        ok = ok and C.same(C.total(rec[0].items, "B"), 4 + word + 4 + KEY, whole_values=False)
        _tree_check(ctx, ok, "skipop2matrix: per record skips 4 + reclen + 4 bytes", rec[0].node if rec else sm.fn, None if ok else C.show(sm.top.items)[:400], sm.top.items,
                    bound=bound, amounts=True)
    # ---- records
    rr, sr = _w2(ctx, "rdop2record"), _w2(ctx, "skipop2record")
    sk_loop = None
    if sr is not None:
        al = _after_loops(sr.top.items)
        ok = bound = len(al) == 1
        if ok:
            sk_loop, tail = al[0]
            word = F.fn("idx", F.fn("dec", F.fn("rd", sk_loop.frame, F.const(0), F.const(4))), F.const(0))
            bound = C.total(sk_loop.items, "B") is not None and C.total(_until_exit(tail), "B") is not None
            ok = bound and C.same(C.total(sk_loop.items, "B"), 4 + word + 4 + KEY, whole_values=False) and C.same(C.total(_until_exit(tail), "B"), 2 * KEY)
        _tree_check(ctx, ok, "skipop2record: per record 4 + (reclen + 4) bytes, then the two trailing keys", sr.fn, None if ok else C.show(sr.top.items)[:400], sr.top.items,
                    bound=bound, amounts=True)
    if rr is not None:
        al = _after_loops(rr.top.items)
        _bound(ctx, len(al) >= 2, f"rdop2record: {len(al)} record loops (raw bytes; decoded values)", rr.fn)
        ntail, tails_bound = 0, True
        for lp, tail in al:
            why = []
            if sr is not None:          # (a skipper that could not be walked has been reported as an analysis error)
                ok = sk_loop is not None
                if ok:
                    ren = C.renamer([(lp.frame, F.sym("LOOP"))])
                    ren2 = C.renamer([(sk_loop.frame, F.sym("LOOP"))])
                    del C.LAST_DIFFERENCE[:]
                    ok = C.same_loops(C.map_loop(lp, ren), C.map_loop(sk_loop, ren2), why=why)
                _tree_check(ctx, ok, "rdop2record loop: per record 4 + reclen + 4 bytes and the next key, exactly what skipop2record skips (payload read "
                            "as n = reclen // bytes_per values of bytes_per bytes, on both sides of the cut-over)", lp.node,
                            None if ok else {"first difference": why[:1], "loop": C.show(lp.items)[:300]}, rr.top.items, sr.top.items, bound=sk_loop is not None,
                            pair=C.LAST_DIFFERENCE[0] if (not ok and C.LAST_DIFFERENCE) else None)
            t = C.total(_until_exit(tail), "B")
            ntail += t is not None and C.same(t, 2 * KEY)
            tails_bound = tails_bound and t is not None
        _tree_check(ctx, ntail == len(al) and ntail > 0, "rdop2record: two trailing keys are skipped on every exit that follows a record loop", rr.fn, None, rr.top.items,
                    bound=tails_bound and bool(al), amounts=True)
    # ---- table headers and DYNAMICS: a record of `key` words
    for name, label in (("rdop2tabheaders", "rdop2tabheaders: per record 4 + 3*ibytes + (key - 3)*ibytes + 4 bytes (= 4 + key*ibytes + 4; reclen = key * ibytes)"),
                        ("rdop2dynamics", "rdop2dynamics: per record 4 + 3*ibytes + (key - 3)*ibytes + 4 bytes whichever of the three routes (struct, fromfile, seek) "
                                          "takes the payload")):
        w = _w2(ctx, name)
        if w is None:
            continue
        rec = [(lp, tail) for lp, tail in _after_loops(w.top.items) if not C.loops_in(lp.items) and C.tidy(lp.items)]
        ok = bound = len(rec) == 1
        detail = None
        if ok:
            lp, tail = rec[0]
            P, strict = _counter_loose(lp)
            tots = _path_totals(lp.items, "B")           # (one total per route through the record: they must all be the record)
            stray = _stray_seeks(lp.items)     # a seek to an absolute offset made of record words: not a record reader's move
            bound = P is not None and (tots is not None or bool(stray))
            # the payload: `key` words of the key width, or - the same for a table record - what the record marker announces
            word = F.fn("idx", F.fn("dec", F.fn("rd", lp.frame, F.const(0), F.const(4))), F.const(0))
            ok = bound and strict and tots is not None and all(C.same(tot, 4 + P * KEYB + 4 + KEY) or C.same(tot, 4 + word + 4 + KEY) for _g, tot in tots)
            if P is None and _rat(lp.test) and not _lv_in(lp.test, lp.frame) and not any(
                    d[0] == "fn" and d[1] in ("rd", "ln") and C._arg(d[2][0]).equals(lp.frame) for d in C.walk_atoms(lp.test)):
                bound = True          # nothing the loop does changes its test: it reads no record or never stops - a verdict
            if not ok:
                detail = C.show(lp.items)[:400]
            if ok:
                # what follows the record loop inside the table loop: two keys, then the end-of-table key
                t2 = C.tidy(_until_exit(tail))
                ok = len(t2) >= 1 and t2[0][0] == "B" and len(t2) >= 2 and t2[1][0] == "if" and C.same(t2[0][1], 2 * KEY + 4)
                if not ok:
                    detail = C.show(tail)[:300]
        _tree_check(ctx, ok, label + "; two trailing keys and the end-of-table key follow", w.fn, detail, w.top.items, bound=bound, amounts=True)
    # ---- op4 binary: record = [4][3 words][payload][4]
    tbs = T.tables(ctx)["op4"]
    sb = _w4(ctx, "_skipop4_binary")
    if sb is not None:
        lps = C.loops_in(sb.top.items)
        ok = bound = len(lps) == 1 and C.total(lps[0].items, "B") is not None
        if not bound and len(lps) == 1 and any(it[0] == "abs" and not _position_like(it[1]) for it in C.tidy(lps[0].items)):
            bound = True          # (a seek to an absolute offset made of the words of the record: not a move by the record length - a verdict)
        if ok:
            lp = lps[0]
            word = F.fn("idx", F.fn("dec", F.fn("rd", lp.frame, F.const(0), F.const(4))), F.const(0))
            ok = C.same(C.total(lp.items, "B"), 4 + word + 4, whole_values=False)
            # stops after the sentinel column: the loop runs while the column number just read is <= cols
            t = C.fn_parts(C.norm(lp.test))
            ps = _lv_in(lp.test, lp.frame)
            upd = [v for p, v in lp.carry if len(ps) == 1 and p.equals(ps[0])]
            hf = _header_field(upd[0], anywhere=True) if len(upd) == 1 and _rat(upd[0]) else None
            cols = F.sym(sb.fn.args.args[1].arg) if len(sb.fn.args.args) > 1 else None
            bound = len(ps) == 1 and cols is not None and (hf is not None or (len(upd) == 1 and not _opaque_value(upd[0])))
            ok = ok and t is not None and t[0] == "ge0" and len(ps) == 1 and cols is not None and C.same(t[1][0], cols - ps[0]) \
                and hf is not None and hf[0] == "word" and hf[1] == 0
            # the column number is the first word after the record length
            if ok:
                r = C.fn_parts(hf[2])
                ok = r is not None and C.same(r[1][1], F.const(4))
            # the first record is read for every matrix with a column: the test holds on entry whenever cols >= 1
            if ok:
                et = C.fn_parts(C.norm(lp.entry_test()))
                ok = et is not None and et[0] == "ge0" and (et[1][0] - cols).is_const() and (et[1][0] - cols).const_value() >= -1
        _tree_check(ctx, ok, "_skipop4_binary: per column record 4 + reclen + 4 bytes; the column number is the first header word; stops after the "
                    "sentinel column cols + 1", sb.fn, None if ok else C.show(sb.top.items)[:300], sb.top.items, bound=bound)
    dense_w = None
    for rd in _readers(ctx, "_loadop4_binary"):
        reader, rf, w = rd["name"], rd["fn"], rd["w"]
        outer = C.loops_of_call(w, rf)
        if len(outer) != 1:
            ctx.error(f"{reader}: column loop", rf)
            continue
        col = outer[0]
        # entry: what the loader read before the first column = the head of a record [4][3 words]
        head = {b: F.const(4 + 3 * (b // 8)) for b in (32, 64)}        # [4][3 words of the key width]
        # per column: payload + end marker + head of the next record
        body = C.tidy(col.items)
        if rd["layout"] == "dense":
            dense_w = rd
            tot = C.total(body, "B")
            # the number of words of the column: third word of the 3-word head that precedes it
            nwp = [p for p, v in col.carry if _rat(v) and (_header_field(v, True) or (None, None))[:2] == ("word", 2)]
            good, detail, unresolved = tot is not None and len(nwp) == 1, None, False
            if good:
                for path, (t_,) in C.leaves([tot]):
                    for bits in (32, 64):
                        a = T.numval(C.norm(t_), tbs[bits])
                        b = T.numval(C.norm(nwp[0] * (bits // 8) + 4 + head[bits]), tbs[bits])
                        if a is None or b is None or not C.same(a, b):
                            good, detail = False, {"bytes read per column": repr(a), "nwords x word size + end marker + next head": repr(b), "keys": f"{bits}-bit",
                                                   "binding": _leaf_label(path)}
                            if a is None or b is None or _unresolved_size(a) or _unresolved_size(b):
                                unresolved = True
            if not good and (tot is None or len(nwp) != 1):
                ctx.error(f"{reader}: the bytes read per column / the number of words of a column could not be identified", col.node, C.show(body)[:300])
            elif not good and unresolved:
                ctx.error(f"{reader}: per column the payload is nwords words of the key width [cannot be decided: a byte count is not resolved to a number]",
                          col.node, detail)
            else:
                ctx.check(good, f"{reader}: per column the payload is nwords words of the key width (both precisions, both key widths), followed by the "
                                "end marker and the 4 + 3-word head of the next record", col.node, detail)
        else:
            inner = C.loops_in(col.items, deep=False)
            rest = [it for it in body if it[0] != "loop"]
            tot = C.total(rest, "B")
            ok = len(inner) == 1 and tot is not None and all(C.same(T.numval(C.norm(tot), tbs[b]), 4 + head[b]) for b in (32, 64))
            if not ok and (len(inner) != 1 or tot is None):
                ctx.error(f"{reader}: the string loop of a column / the bytes read after it could not be identified", col.node, C.show(body)[:300])
            else:
                ctx.check(ok, f"{reader}: per column the strings are followed by the end marker and the 4 + 3-word head of the next record", col.node,
                          None if ok else C.show(body)[:300])
        # loop condition: same stop as the skipper (column number - 1 < cols  <=>  column number <= cols), column number = header word 0,
        # cols = the number of columns a listing reports (and the skipper is given)
        t = C.fn_parts(C.norm(col.test))
        ps = _lv_in(col.test, col.frame)
        upd = [v for p, v in col.carry if len(ps) == 1 and p.equals(ps[0])]
        hf = _header_field(upd[0] + 1, anywhere=True) if len(upd) == 1 and _rat(upd[0]) else None
        lst = _listing(w)
        colsv = lst[0][1][1] if lst is not None and isinstance(lst[0][1], tuple) and len(lst[0][1]) == 2 else None
        ok = t is not None and t[0] == "ge0" and len(ps) == 1 and _rat(colsv) and C.same(t[1][0], colsv - (ps[0] + 1)) and hf is not None \
            and hf[0] == "word" and hf[1] == 0
        if not ok and _flag_loop(col):
            ctx.error(f"{reader}: the column loop is steered by a flag whose meaning could not be resolved", col.node, {"test": repr(col.test)[:300]})
        elif not ok and (len(ps) != 1 or not _rat(colsv) or (hf is None and (len(upd) != 1 or _opaque_value(upd[0])))):
            ctx.error(f"{reader}: the column counter of the column loop / the number of columns of the header could not be identified", col.node,
                      {"test": repr(C.norm(col.test))[:300]})
        else:
            ctx.check(ok, f"{reader}: reads columns while (column number of the head just read) <= cols, the condition the skipper stops on", col.node,
                      None if ok else {"test": repr(C.norm(col.test))})
    if dense_w is not None:
        # after the reader: the rest of the sentinel record.  The reader returns the record length it read last.
        w, rf = dense_w["w"], dense_w["fn"]
        col = C.loops_of_call(w, rf)
        post = [t for lp, t in _after_loops(w.top.items) if len(col) == 1 and lp is col[0]]
        post = post[0] if len(post) == 1 else []
        tail = C.tidy(_until_exit(post))
        ok = bound = len(col) == 1 and len(tail) == 1 and tail[0][0] == "B"
        if ok:
            # the record length in force after the loop: entry value (first record) or the one read in the last iteration
            ps = [(p, v) for p, v in col[0].carry if _rat(v) and _header_field(v, True) is not None and _header_field(v, True)[0] == "word"
                  and C.fn_parts(_header_field(v, True)[2])[1][2].equals(F.const(4))]
            bound = len(ps) == 1
            ok = bound and all(C.same(T.numval(C.norm(tail[0][1]), tbs[b]), F.fn("fin", ps[0][0]) - 3 * (b // 8) + 4) for b in (32, 64))
        _tree_check(ctx, ok, "_loadop4_binary: after the sentinel head (4 + 3 words) the rest of the record and its end marker are consumed "
                    "(reclen - 3 words + 4)", w.fn, None if ok else C.show(post)[:300], post, bound=bound)
        # the skipper is told the number of columns a listing reports
        lst = _listing(w)
        a = _skip_args(w, _func(ctx, OP4, "OP4._skipop4_binary"), "self._skipop4_binary")
        ok = lst is not None and a is not None and len(a) == 1 and isinstance(lst[0][1], tuple) and C.same(list(a.values())[0], lst[0][1][1])
        if not ok and (lst is None or a is None or not isinstance(lst[0][1], tuple)):
            ctx.error("_loadop4_binary: the call of the skipper / the size a listing reports could not be identified", w.fn)
        else:
            ctx.check(ok, "_loadop4_binary: the skipper is given the number of columns of the matrix header (the one a listing reports)", w.fn)
    # ---- op4 ascii: the loader with the reader it selects vs the skipper, case by case of the layout tests
    r4_ascii_cases(ctx)


def _listing(w):
    """the return of a loader that lists a matrix: (name, (rows, cols), form, type), reached exactly when `listonly`"""
    params = {a.arg for a in w.fn.args.args}
    if "listonly" not in params:
        return None
    lonly = F.sym("listonly")
    want = C.atom(lonly)
    rets = [r for r in w.returns if isinstance(r[0], tuple) and len(r[0]) == 4 and not all(_rat(x) and C.sym_name(x) == "None" for x in r[0])]
    lst = [r for r in rets if _guard_equiv(_loop_guard(r[1]), want) is True]
    return lst[0] if len(lst) == 1 else None


def _test_values(items, out=None):
    """the tests of the branches and loops of a consumption tree"""
    out = [] if out is None else out
    for it in items:
        if it[0] == "if":
            out.append(it[1])
            _test_values(it[2], out)
            _test_values(it[3], out)
        elif it[0] == "loop":
            out.append(it[1].entry_test())
            _test_values(it[1].items, out)
    return out


def _free_of_loops(v):
    return not any(d[0] == "fn" and d[1] in ("lv", "fin", "item") for d in C.walk_atoms(v))


def _ascii_cases(ctx):
    """the ASCII loader and the ASCII skipper walked once per truth assignment of the layout tests (row field of the first column header,
    sign and size of the announced row count, matrix without a column): -> {atoms, cases: [(assignment, loader walk, skipper walk)], ...}"""
    if "_c11_ascii_cases" in ctx.__dict__:
        return ctx._c11_ascii_cases
    res = ctx._c11_ascii_cases = {"cases": [], "ok": False}
    skf = _func(ctx, OP4, "OP4._skipop4_ascii")
    la0 = _w4(ctx, "_loadop4_ascii", tag="discover", no_inline=SKIPPERS)
    sk0 = _w4(ctx, "_skipop4_ascii", tag="S", top_name="S")
    if la0 is None or sk0 is None:
        return res
    a = _skip_args(la0, skf)
    line0 = [e[1] for e in la0.events if e[0] == "line" and C.fn_parts(e[1])[1][0].equals(la0.top.id)]
    ents = _entered_readers(la0)
    if a is None or not line0 or not ents or any(not _rat(v) for v in a.values()):
        ctx.error("_loadop4_ascii: values passed to the skipper / column-header line / readers entered", la0.fn,
                  {"skip call": a is not None, "lines": len(line0), "readers": len(ents)})
        return res
    LINE0 = F.sym("LINE0")
    ren_l = C.renamer([(line0[0], LINE0)])
    # the skipper's parameters stand for what the loader passes; its first line is the loader's column-header line
    to_arg = C.renamer([(F.sym(k), ren_l(v)) for k, v in a.items()] + [(F.fn("ln", sk0.top.id, F.const(0)), LINE0)])
    ren_s = to_arg
    # layout atoms: what the selection of the reader and the skipper's own branches test, outside the loops
    conds = [ren_l(c) for _fn, path in ents for c, _t in path]
    conds += [ren_s(c) for c in _test_values(sk0.top.items)]
    atoms = {}
    for c in conds:
        if not _rat(c):
            continue
        try:
            for k, v in C.bool_atoms(C.bool_form(c)).items():
                if _free_of_loops(v):
                    atoms[k] = v
        except Unsupported:
            pass
    if not (1 <= len(atoms) <= 6):
        ctx.error("_loadop4_ascii / _skipop4_ascii: layout tests", skf, sorted(atoms))
        return res

    def oracle(asg, ren):
        def force(cv):
            try:
                f = C.bool_form(ren(cv))
                if not set(C.bool_atoms(f)) <= set(asg):
                    return None
                return C.bool_eval(f, asg)
            except Unsupported:
                return None
        return force
    for i, asg in enumerate(C.assignments(atoms.keys())):
        wl = _w4(ctx, "_loadop4_ascii", tag=f"case{i}", no_inline=SKIPPERS, force=oracle(asg, ren_l))
        ws = _w4(ctx, "_skipop4_ascii", tag=f"case{i}", force=oracle(asg, ren_s), top_name="S")
        if wl is None or ws is None:
            return res
        res["cases"].append((asg, wl, ws))
    back = C.renamer([(ren_l(v), F.sym(k)) for k, v in a.items() if C.as_atom(ren_l(v)) is not None])
    res.update(ok=True, atoms=atoms, ren_l=ren_l, ren_s=ren_s, args=a, line0=line0[0], skf=skf, back=back)
    return res


def _read_path(w):
    """what a loader consumes once it has decided to read the matrix: everything after its scan of the matrix headers"""
    items = list(w.top.items)
    for i, it in enumerate(items):
        if it[0] == "loop":
            return _strip_exit(items[i + 1:])
    return None


def _show_case(asg, atoms, back=None):
    """readable text of one case: the loader's header values are written as the skipper's parameters"""
    def txt(v):
        t = T.show_cond(back(v) if back is not None else v)
        t = t.replace("call:int(idx(LINE0, slice(8, 16, None)))", "row field").replace("call:int(idx(LINE0, slice(0, 8, None)))", "column field")
        return t
    return ", ".join(("" if v else "not ") + "(" + txt(atoms[k]) + ")" for k, v in sorted(asg.items(), key=lambda kv: txt(atoms[kv[0]])))


def r4_ascii_cases(ctx):
    cs = _ascii_cases(ctx)
    if not cs["ok"]:
        return
    n = 0
    for asg, wl, ws in cs["cases"]:
        mine, theirs = _read_path(wl), _strip_exit(ws.top.items)
        if mine is None:
            ctx.error("_loadop4_ascii: scan of the matrix headers", wl.fn)
            continue
        mine, theirs = C.map_items(mine, cs["ren_l"]), C.map_items(theirs, cs["ren_s"])
        reader = _entered_readers(wl)
        rname = reader[0][0].name if len(reader) == 1 else "?"
        n += 1
        _same_tree(ctx, mine, theirs, f"_loadop4_ascii (reading with {rname}) and _skipop4_ascii consume the same lines - column header, per column "
                   "and per string ceil(n / perline) data lines ((L + p - 1)//p == (L - 1)//p + 1) on the same decoded header fields, same column "
                   f"test, one trailing line - in the case [{_show_case(asg, cs['atoms'], cs['back'])}]", cs["skf"], whole_values=False,
                   detail=lambda: {"read": C.show(mine)[:300], "skip": C.show(theirs)[:300]})
    _bound(ctx, n >= 8, f"ASCII read = skip decided for {n} cases of the layout tests", cs["skf"])


# ------------------------------------------------------------------------------------------------------------------ R5
def _guard_equiv(guard, want):
    try:
        return C.bool_equiv(C.guard_form(guard), want)
    except Unsupported:
        return None


def _decide_test(v):
    """truth of a test on values that are known (text, None, numbers, literal sequences of those): True / False / None"""
    def known(x):
        return K.conc(x) if _rat(x) else K.NOT

    def post(name, args):
        if any(isinstance(a, str) for a in args):
            return None
        if name == "idx" and len(args) == 2 and args[1].is_const():
            q = C.fn_parts(args[0])
            k = args[1].const_value()
            if q is not None and q[0] == "tuple" and k.denominator == 1 and -len(q[1]) <= k < len(q[1]):
                return q[1][int(k)]
        if name in ("cmp:Eq", "cmp:NotEq", "cmp:Is", "cmp:IsNot") and len(args) == 2:
            neg = name in ("cmp:NotEq", "cmp:IsNot")
            qa, qb = C.fn_parts(args[0]), C.fn_parts(args[1])
            if qa is not None and qb is not None and qa[0] == qb[0] == "tuple":
                if len(qa[1]) != len(qb[1]):
                    return F.const(1 if neg else 0)
                parts = [post("cmp:Eq", [x, y]) for x, y in zip(qa[1], qb[1])]
                if any(x is not None and x.is_const() and x.is_zero() for x in parts):
                    return F.const(1 if neg else 0)            # one pair of elements differs
                if any(x is None for x in parts):
                    return None
                if all(x.is_const() for x in parts):
                    return F.const(0 if neg else 1)
                return None
            x, y = known(args[0]), known(args[1])
            if x is not K.NOT and y is not K.NOT:
                return F.const(int((x == y) != neg))
            if (x is None and y is K.NOT and (qb is not None and qb[0] == "tuple")) or (y is None and x is K.NOT and (qa is not None and qa[0] == "tuple")):
                return F.const(1 if neg else 0)
        if name == "not" and len(args) == 1:
            x = known(args[0])
            if x is not K.NOT:
                return F.const(int(not x))
        if name in ("bool:And", "bool:Or"):
            xs = [known(a) for a in args]
            if not any(x is K.NOT for x in xs):
                return F.const(int(all(xs) if name == "bool:And" else any(xs)))
        if name == "call:bool" and len(args) == 1 and known(args[0]) is not K.NOT:
            return F.const(int(bool(known(args[0]))))
        if name == "call:len" and len(args) == 1:
            q = C.fn_parts(args[0])
            if q is not None and q[0] == "tuple":
                return F.const(len(q[1]))
            if isinstance(known(args[0]), (str, bytes, tuple)):
                return F.const(len(known(args[0])))
        return None
    if not _rat(v):
        return None
    out = C.rewrite(v, post=post)
    x = known(out)
    if x is not K.NOT:
        return bool(x)
    return C.truth_of(C.settle(out))


def _continues_on(test, res):
    """whether a loop over the results of a loader goes on after a matrix and stops at the end of the file: the test, as a function of the
    latest result `res`, on (a name, X, form, type) and on (None, None, None, None) -> True (it does) / False (it does not) / None"""
    if not _rat(test) or not _rat(res) or C.as_atom(res) is None:
        return None
    eof = F.fn("tuple", *[F.sym("None")] * 4)
    real = F.fn("tuple", F.sym(repr("name")), F.sym("X"), F.sym("FORM"), F.sym("MTYPE"))
    a = _decide_test(C.renamer([(res, real)])(test))
    b = _decide_test(C.renamer([(res, eof)])(test))
    if a is None or b is None:
        return None
    return a is True and b is False


def r5_listing_equals_read(ctx):
    normalisers = {}
    for loader, skipper in (("_loadop4_ascii", "self._skipop4_ascii"), ("_loadop4_binary", "self._skipop4_binary")):
        rds = _readers(ctx, loader)
        if not rds:
            continue
        w = rds[0]["w"]
        fn = w.fn
        params = {a.arg for a in fn.args.args}
        rets = [r for r in w.returns if isinstance(r[0], tuple) and len(r[0]) == 4]
        lonly = F.sym("listonly") if "listonly" in params else None
        plist = F.sym("patternlist") if "patternlist" in params else None
        if lonly is None or plist is None:
            ctx.error(f"{loader}: parameters listonly / patternlist", fn)
            continue
        none = F.sym("None")
        real = [r for r in rets if not all(_rat(x) and x.equals(none) for x in r[0])]
        want_l = C.atom(lonly)
        lst = [r for r in real if _guard_equiv(_loop_guard(r[1]), want_l) is True]
        full = [r for r in real if not any(r is x for x in lst)]
        ok = len(lst) == 1 and len(full) == 1
        size = lst[0][0][1] if len(lst) == 1 else None
        ok = ok and isinstance(size, tuple) and len(size) == 2
        if not ok and (len(lst) != 1 or len(full) != 1):
            # (the two kinds of result are told apart by the test on `listonly` that guards them: another layout of the returns is not understood)
            ctx.error(f"{loader}: the return of a listing and the return of a full read could not be told apart", fn,
                      {"returns guarded by listonly": len(lst), "other returns of a matrix": len(full)})
            continue
        ctx.check(ok, f"{loader}: a listing returns (name, (rows, cols), form, mtype); a full read (name, matrix, form, mtype)", fn,
                  None if ok else {"listing returns": len(lst), "full returns": len(full)})
        ok = all(C.same(lst[0][0][i], full[0][0][i]) for i in (0, 2, 3))
        _verdict(ctx, ok, f"{loader}: a full read returns (name, X, form, mtype) with the same name / form / type values as the listing", fn, None,
                 *[x for r in (lst[0], full[0]) for i, x in enumerate(r[0]) if i in (2, 3)])
        if isinstance(size, tuple) and len(size) == 2:
            for rd in rds:
                ini, _stores, fin = _matrix_calls(rd["w"])
                if ini is None or fin is None or len(ini[2]) != 2 or len(fin[2]) < 2:
                    ctx.error(f"{rd['name']}: allocation / return of the matrix through the functions the reader is handed", rd["fn"])
                    continue
                ok = all(C.same(size[i], ini[2][i]) and C.same(size[i], fin[2][i]) for i in (0, 1))
                ctx.check(ok, f"{rd['name']}: the matrix is allocated and returned with the (rows, cols) a listing reports", ini[5],
                          None if ok else {"listing": [repr(x)[:200] for x in size], "init": [repr(x)[:200] for x in ini[2]], "return": [repr(x)[:200] for x in fin[2][:2]]})
        name = lst[0][0][0] if len(lst) == 1 else None
        skips = [e for e in w.events if e[0] == "call" and e[1] == skipper]
        ok = len(skips) >= 1 and _rat(name)
        lowered = True
        if ok:
            # skip <=> listonly or (patternlist and name not in patternlist)   (the skipper may be called on several paths)
            inn = C.canon_tests(F.fn("cmp:In", name, plist))
            want = ("or", [want_l, ("and", [C.atom(plist), ("not", C.atom(inn))])])
            try:
                got = ("or", [C.guard_form(_loop_guard(e[4])) for e in skips])
                ok = C.bool_equiv(got, want)
            except Unsupported:
                ok = lowered = False
        if not lowered or not _rat(name):
            ctx.error(f"{loader}: the condition under which the skipper is called could not be lowered", fn, {"skip calls": len(skips)})
        else:
            ctx.check(ok, f"{loader}: a matrix is skipped exactly when listing or when its name is not in the requested list", fn,
                      None if ok else {"skip calls": len(skips)})
        np_ = C.fn_parts(name) if _rat(name) else None
        normalisers[loader] = np_[0] if np_ is not None and np_[0].startswith("call:self.") else None
    ok = len(normalisers) == 2 and len(set(normalisers.values())) == 1 and None not in normalisers.values()
    if len(normalisers) == 2:          # (a loader that could not be walked has been reported as an analysis error)
        text = "both loaders normalise the matrix name with the same method before filtering (same names in listings, filters and reads of ASCII and binary files)"
        if not ok and None in normalisers.values():
            # (a name normalised in place, not through a method of the class: what it is compared with is not known)
            ctx.error(text + " [cannot be decided: a loader does not normalise the name through a method of the class]", _func(ctx, OP4, "OP4._loadop4_ascii"), normalisers)
        else:
            ctx.check(ok, text, _func(ctx, OP4, "OP4._loadop4_ascii"), None if ok else normalisers)
    for q in ("dctload", "listload", "dir"):
        w = _w4(ctx, q, tag="nofile", follow=_no_file_helpers(ctx, OP4, "OP4"))
        if w is None:
            continue
        want = C.phi(F.sym("self._ascii"), F.sym("self._loadop4_ascii"), F.sym("self._loadop4_binary"))
        calls = [e for e in w.events if e[0] == "call" and e[6] is not None and _rat(e[6]) and C.same(e[6], want)]
        lps = C.loops_in(w.top.items)
        ok = 1 <= len(calls) <= 2 and len(lps) == 1
        if ok:
            lp = lps[0]
            inloop = [e for e in calls if e[7].equals(lp.frame)]
            before = [e for e in calls if e[7].equals(w.top.id)]
            ok = len(inloop) == 1 and len(before) == len(calls) - 1
            undecided = None
            if ok:
                e = inloop[0]
                # the loop goes on exactly while the latest call of the loader reports a matrix: its test - whatever it looks at: the name,
                # the whole result - is false on the end-of-file result (None, None, None, None) and true on (a name, X, form, type)
                nxt = C.renamer([(p_, v) for p_, v in lp.carry if _rat(v)])(lp.test) if _rat(lp.test) else None
                t = _continues_on(nxt, e[8])
                if before:
                    # a loop tested at its top: the first call is made before it, with the same arguments
                    b = before[0]
                    ok = len(b[2]) == len(e[2]) and all(C.same(x, y) for x, y in zip(b[2], e[2])) and set(b[3]) == set(e[3]) \
                        and all(C.same(b[3][k], e[3][k]) for k in e[3])
                    t0 = _continues_on(lp.entry_test(), b[8])
                else:
                    ok = lp.forced
                    t0 = True
                if ok and (t is None or t0 is None):
                    undecided = {"loop test": repr(C.norm(lp.test, whole_values=False))[:300]}
                ok = ok and t is True and t0 is True
            if undecided is not None:
                ctx.error(f"{q}: the test of the loop over the matrices of the file cannot be decided on an end-of-file result and on a matrix", w.fn, undecided)
                continue
            if ok and q == "dir":
                ok = all(_rat(e[3].get("listonly")) and (C.sym_name(e[3]["listonly"]) == "True" or e[3]["listonly"].equals(F.const(1))) for e in calls)
        ctx.check(ok, f"{q}: iterates the same loader (ascii or binary by the detected format) until it reports end of file", w.fn)
    # ---- op2 directory vs rdop2matrix sizes
    d = _w2(ctx, "directory", tag="nofile", follow=_no_file_helpers(ctx, OP2, "OP2"))
    mt = _w2(ctx, "rdop2matrix")
    if mt is not None:
        buf = None
        for _k, v, _st in mt.all_inits:
            if _rat(v):
                p = C.fn_parts(v)
                if p is not None and p[0] == "call:np.zeros":
                    buf = p
        tr = F.sym(mt.fn.args.args[1].arg)
        ok = buf is not None
        if not ok:
            ctx.error("rdop2matrix: allocation of the output matrix", mt.fn)
        else:
            shp = C.fn_parts(buf[1][0])
            ok = shp is not None and shp[0] == "tuple" and len(shp[1]) == 2 and C.same(shp[1][1], F.fn("idx", tr, F.const(1)))
            if ok:
                rows = {repr(C.norm(v[0])) for _p, v in C.leaves([shp[1][0]])}
                t2 = F.fn("idx", tr, F.const(2))
                ok = rows == {repr(C.norm(t2)), repr(C.norm(2 * t2))}
            ctx.check(ok, "rdop2matrix allocates (trailer[2] rows [x 2 reals for a complex type], trailer[1] columns)", mt.fn)
    if d is not None:
        sns = [e for e in d.events if e[0] == "call" and (e[1] or "").endswith("SimpleNamespace")]
        ok = bound = len(sns) == 1
        if ok:
            kw = sns[0][3]
            tr, size = kw.get("trailer"), kw.get("size")
            ok = bound = _rat(tr) and isinstance(size, tuple) and len(size) == 2
            if ok:
                want = (F.fn("idx", tr, F.const(2)), F.fn("idx", tr, F.const(1)))
                got = set()
                for _p, v in C.leaves(list(size)):
                    got.add((repr(C.norm(v[0])), repr(C.norm(v[1]))))
                ok = (repr(C.norm(want[0])), repr(C.norm(want[1]))) in got
        if not bound:
            ctx.error("directory: the record it stores per data block (a namespace with the fields `trailer` and `size`) could not be identified", d.fn, len(sns))
        else:
            ctx.check(ok, "directory reports matrix sizes from trailer[2] x trailer[1] of the trailer it stores, the fields rdop2matrix allocates from", d.fn)
    # a positioned read (rdop2mats): seek to the start the directory recorded, re-read name and trailer, decode with the trailer of that block
    rm = _w2(ctx, "rdop2mats", tag="nofile", follow=_no_file_helpers(ctx, OP2, "OP2", keep=("self.set_position", "self.rdop2nt", "self.rdop2matrix")))
    if rm is not None:
        # the steps of a positioned read, in evaluation order and by what they do: ('pos', offset, ...) an absolute positioning of the file (the
        # public `set_position(offset)`, or a seek of the file itself wherever it is written: in the function, in a helper, inlined),
        # ('nt', value of rdop2nt()), ('mat', arguments of rdop2matrix by its signature, guard, node)
        sp = _func(ctx, OP2, "OP2.set_position") if _has_func(ctx, OP2, "OP2.set_position") else None
        sp_params = [a.arg for a in sp.args.posonlyargs + sp.args.args if a.arg not in ("self", "cls")] if sp is not None else ["pos"]
        mt_params = [a.arg for a in mt.fn.args.posonlyargs + mt.fn.args.args if a.arg not in ("self", "cls")] if mt is not None else ["trailer"]
        steps = []
        for e in rm.events:
            if e[0] == "abs":
                steps.append(("pos", e[1], e[2], e[3]))
            elif e[0] in ("seek", "read", "line", "lines", "fromfile"):
                steps.append(("other", e[0], None, e[-1] if e[0] != "fromfile" else e[3]))      # (the file moved by other means in between)
            elif e[0] == "call" and e[1] == "self.set_position":
                a_ = place(e[2], e[3], sp_params)
                steps.append(("pos", a_.get(sp_params[0]) if sp_params and len(a_) == 1 else None, e[4], e[5]))
            elif e[0] == "call" and e[1] == "self.rdop2nt":
                steps.append(("nt", e[8], e[4], e[5]))
            elif e[0] == "call" and e[1] == "self.rdop2matrix":
                steps.append(("mat", place(e[2], e[3], mt_params), e[4], e[5]))
            elif e[0] == "call" and e[1] in rm.table and (e[1] or "").startswith("self."):
                steps.append(("other", e[1], e[4], e[5]))         # (a method of the class that was not entered: it may read or position the file)
        reads = [i for i, st_ in enumerate(steps) if st_[0] == "mat"]
        # verdict per read: True, False (with the reason: a rigid difference), None (the way the read is set up is not understood: exit 2)
        verdict, why, entries = (True if reads else None), None, []
        for i in reads:
            kinds = [st_[0] for st_ in steps[max(0, i - 2):i]]
            if kinds[-1:] == ["pos"]:
                verdict, why = False, {"the matrix decoder is entered right after positioning to the start of the data block": "the name and trailer records "
                                       "that lie there (the directory scan records the offset before it reads them) are decoded as the first column"}
                break
            if kinds != ["pos", "nt"] or len(steps[i][1]) != 1 or mt_params[0] not in steps[i][1]:
                verdict = None
                break
            pos, tr = steps[i - 2][1], steps[i][1][mt_params[0]]
            pp = C.fn_parts(pos) if _rat(pos) else None
            if pp is None or not pp[0].startswith("attr:") or len(pp[1]) != 1 or not _rat(pp[1][0]):
                verdict = None         # (positioned by other means than a field of the directory entry: by name, by a stored offset)
                break
            sn = pp[1][0]
            if pp[0] != "attr:start":
                verdict, why = False, {"positioned to the field": pp[0][5:], "of": repr(sn)[:200]}
                break
            entries.append((sn, steps[i][2], steps[i][3]))
            # the trailer the matrix is decoded with: the one the directory stored, or the one just re-read by rdop2nt (the same record)
            if C.same(tr, F.fn("attr:trailer", sn)) or (_rat(steps[i - 1][1]) and C.same(tr, F.fn("idx", steps[i - 1][1], F.const(1)))):
                continue
            tp = C.fn_parts(tr) if _rat(tr) else None
            rigid = tp is not None and len(tp[1]) >= 1 and _rat(tp[1][0]) and (
                (tp[0].startswith("attr:") and tp[0] != "attr:trailer" and tp[1][0].equals(sn)) or
                (tp[0] == "idx" and len(tp[1]) == 2 and _rat(steps[i - 1][1]) and tp[1][0].equals(steps[i - 1][1]) and _rat(tp[1][1]) and tp[1][1].is_const()))
            verdict, why = (False, {"decoded with": repr(tr)[:200], "entry": repr(sn)[:200]}) if rigid else (None, None)
            break
        if verdict is None:
            ctx.error("rdop2mats: how a matrix is positioned before it is read could not be identified", rm.fn, [(st_[0] if st_[0] != "other" else st_[1]) for st_ in steps])
        else:
            ctx.check(verdict, "rdop2mats: a positioned read seeks to the start recorded by the directory scan, re-reads name and trailer, and decodes with the "
                               "trailer of that data block", rm.fn, why)
            if verdict and d is not None:
                _entries_are_matrices(ctx, d, rm, entries)


# ---- typestate of the directory entries a matrix read is handed (kind established: 'matrix'; ('mixed', container); 'empty'; None = not known)
_KIND_WORLD = (0, 1)          # the documented values of the kind of a data block: 0 for a table, 1 for a matrix


def _tv(v):
    """three-valued truth of a test, with short circuit over and / or / not"""
    if not _rat(v):
        return None
    p = C.fn_parts(v)
    if p is not None and p[0] in ("bool:And", "bool:Or") and all(_rat(a) for a in p[1]):
        xs = [_tv(a) for a in p[1]]
        stop = p[0] == "bool:Or"
        if any(x is stop for x in xs):
            return stop
        return (not stop) if all(x is (not stop) for x in xs) else None
    if p is not None and p[0] == "not" and len(p[1]) == 1 and _rat(p[1][0]):
        x = _tv(p[1][0])
        return None if x is None else not x
    try:
        return _decide_test(v)
    except (Unsupported, Stuck):
        return None


def _guard_false(guard, subst):
    """the path condition (atoms with polarity) is decidedly false once `subst` is applied"""
    for c, pol in guard:
        if _rat(c):
            t = _tv(subst(c))
            if t is not None and t is not bool(pol):
                return True
    return False


def _scan_facts(d):
    """what the directory scan establishes: the field of an entry that holds the kind of the data block (the value the scan tests before it skips a
    matrix), the values of that field on the table branch, the field that holds the name, and per container the scan fills with entries whether
    every fill lies on the matrix branch ('matrix'), or fills are made on both branches (('mixed', container)), or that is not known (None)"""
    sns = [e for e in d.events if e[0] == "call" and (e[1] or "").endswith("SimpleNamespace")]
    skips = [e for e in d.events if e[0] == "call" and e[1] == "self.skipop2matrix"]
    if len(sns) != 1 or not skips or not _rat(sns[0][8]):
        return None
    base, kw, entry = sns[0][4], sns[0][3], sns[0][8]

    def beyond(guard):
        return tuple((c, pol) for c, pol in guard if _rat(c) and not any(_rat(c2) and c2.equals(c) and pol2 == pol for c2, pol2 in base))

    scan_test = beyond(skips[0][4])
    kind_field, table_values = None, ()
    for f, v in kw.items():
        if not _rat(v) or C.as_atom(v) is None:
            continue
        falses = [x for x in _KIND_WORLD if _guard_false(scan_test, C.renamer([(v, F.const(x))]))]
        if falses and len(falses) < len(_KIND_WORLD):
            if kind_field is not None:
                return None
            kind_field, table_values, kind_value = f, tuple(falses), v
    if kind_field is None:
        return None
    rd = [e for e in d.events if e[0] == "call" and e[1] == "self.rdop2nt"]
    name_field = None
    for f, v in kw.items():
        if _rat(v) and any(_rat(e[8]) and _mentions(v, e[8]) for e in rd) and f != kind_field and \
                any(dd[0] == "fn" and dd[1] == "idx" and len(dd[2]) == 2 and C._arg(dd[2][1]).is_zero() for dd in C.walk_atoms(v)):
            name_field = f
    containers = {}
    for e in d.events:
        if e[0] != "call" or not (e[1] or "").split(".")[-1] in ("append", "add", "insert", "appendleft") or not any(_rat(a) and a.equals(entry) for a in e[2]):
            continue
        node = e[5].func.value if isinstance(getattr(e[5], "func", None), ast.Attribute) else None
        while node is not None and not isinstance(node, (ast.Name, ast.Attribute)):
            if isinstance(node, ast.Subscript):
                node = node.value
            elif isinstance(node, ast.Call) and isinstance(node.func, ast.Attribute) and node.func.attr in ("setdefault", "get"):
                node = node.func.value
            else:
                node = None
        recv = dotted_name(node) if node is not None else None
        if not recv:
            continue
        extra = beyond(e[4])
        if not extra:
            k = ("mixed", recv)
        elif all(_guard_false(extra, C.renamer([(kind_value, F.const(x))])) for x in table_values):
            k = "matrix"
        elif all(_guard_false(extra, C.renamer([(kind_value, F.const(x))])) for x in _KIND_WORLD if x not in table_values):
            k = ("mixed", recv)           # (filled on the table branch only)
        else:
            k = None
        containers[recv] = k if recv not in containers or containers[recv] == k else (k if containers[recv] == "matrix" else containers[recv])
    return {"kind": kind_field, "tables": table_values, "name": name_field, "containers": containers}


def _combine(kinds, alternatives=False):
    """kind of a collection drawn from several: 'empty' is neutral; one 'mixed' among parts that are all candidates makes it mixed; among
    alternatives that could not be decided (`alternatives`) a disagreement is not known"""
    ks = [k for k in kinds if k != "empty"]
    if not ks:
        return "empty"
    if any(k is None for k in ks):
        return None
    mixed = [k for k in ks if k != "matrix"]
    if not mixed:
        return "matrix"
    if alternatives and len(mixed) != len(ks):
        return None
    return mixed[0]


def _entry_kind(rm, facts, v, tests, world, depth=0):
    """kind established for `v`, a directory entry or a collection of directory entries, as the walk of rdop2mats computed it"""
    kf, tables = "attr:" + facts["kind"], facts["tables"]

    def established(cond_guard, entry):
        return all(_guard_false(cond_guard, C.renamer([(F.fn(kf, entry), F.const(x))])) for x in tables)

    def rec(x):
        return _entry_kind(rm, facts, x, tests, world, depth + 1)

    if depth > 60:
        return None
    if isinstance(v, tuple):
        return _combine([rec(x) for x in v])
    if not _rat(v):
        return None
    nm = C.sym_name(v)
    if nm is not None:
        if nm in facts["containers"]:
            return facts["containers"][nm]
        if nm.startswith("filled:"):
            local = nm[len("filled:"):].split("@")[0]
            fills = [e for e in rm.events if e[0] == "call" and e[1] in (local + ".append", local + ".add") and len(e[2]) == 1]
            ext = [e for e in rm.events if e[0] == "call" and (e[1] or "").startswith(local + ".") and e[1].split(".")[-1] in ("extend", "insert", "update", "__setitem__")]
            if not fills or ext:
                return None
            out = []
            for e in fills:
                if _rat(e[2][0]) and established(e[4], e[2][0]):
                    out.append("matrix")
                else:
                    tests.extend(c for c, _pol in e[4])
                    out.append(rec(e[2][0]))
            return _combine(out)
        return None
    p = C.fn_parts(v)
    if p is None:
        return None
    name, args = p
    if name == "tuple":
        return _combine([rec(a) for a in args]) if args else "empty"
    if name in ("idx", "each") and args:
        return rec(args[0])
    if name == "item" and len(args) == 2 and _rat(args[0]) and _rat(args[1]):
        its = [t for t in rm.for_iters if _rat(t[0]) and t[0].equals(args[0])]
        if len(its) != 1:
            return None
        itv = its[0][1]
        q = C.fn_parts(itv) if _rat(itv) else None
        if q is not None and q[0] == "call:enumerate" and q[1]:
            return rec(q[1][0]) if args[1].equals(F.const(1)) else None
        return rec(itv) if args[1].is_zero() else None
    if name == "phi" and len(args) == 3:
        t = _tv(world(args[0])) if _rat(args[0]) else None
        if t is not None:
            return rec(args[1] if t else args[2])
        # (a list a loop fills under a test: the list when the test held at least once, the empty list otherwise)
        return _combine([rec(args[1]), rec(args[2])], alternatives=True)
    if name == "comp" and args:
        elt = args[0]
        wheres = [C.fn_parts(a)[1][0] for a in args[1:] if _rat(a) and (C.fn_parts(a) or ("",))[0] == "where"]
        if _rat(elt) and established(tuple((c, True) for c in wheres), elt):
            return "matrix"
        tests.extend(wheres)
        q = C.fn_parts(elt) if _rat(elt) else None
        if q is not None and q[0] == "tuple" and len(q[1]) == 2:
            # {key: value for ...} is walked as the comprehension of its (key, value) pairs: the candidates are the values
            ks = [k for k in (rec(q[1][0]), rec(q[1][1])) if k is not None]
            return _combine(ks) if ks else None
        return rec(elt)
    if name.startswith("call:") and name.endswith(".get"):
        recv = name[len("call:"):-len(".get")]
        if recv:
            got, rest = facts["containers"].get(recv), args[1:]
            if recv not in facts["containers"]:
                return None
        else:
            got, rest = rec(args[0]) if args else None, args[2:]
        return _combine([got] + [rec(a) for a in rest[:1]])
    if name in ("call:list", "call:tuple", "call:sorted", "call:reversed", "call:iter") and args:
        return rec(args[0])
    if name.split(".")[-1] in ("call:filter", "filter", "filterfalse") and name.startswith("call:") and len(args) == 2:
        # filter(pred, X) is a selection from X: of a collection of matrices it is one; of a mixed collection it stays mixed when the predicate
        # looks at nothing but the name of an entry (a selection by name cannot tell a table from a matrix of that name); otherwise not known
        k = rec(args[1])
        if k in ("matrix", "empty"):
            return k
        f = rm.local_funcs.get(C.sym_name(args[0]) or "") if _rat(args[0]) else None
        if k is not None and f is not None and facts["name"] and _looks_at_only(f, facts["name"]):
            return k
        if f is not None and name.endswith("filter"):
            # the predicate evaluated on a generic entry: a selection whose test settles the kind of the entry is a collection of matrices
            test, ent = _predicate_value(rm, f)
            if test is not None and established(((test, True),), ent):
                return "matrix"
        return None
    return None


def _predicate_value(rm, f):
    """(value of the one-parameter function `f` defined inside the walked function on a generic argument, that argument) or (None, None)"""
    a = f.args
    params = [x.arg for x in a.posonlyargs + a.args]
    if len(params) != 1 or a.vararg or a.kwarg or a.kwonlyargs or a.defaults:
        return None, None
    try:
        wk = C.Walker(rm.ctx, rm.rel, rm.cls, f, files=(), follow=False)
        wk.stack = [rm.fn, f]              # (free names of the predicate are locals of the function around it)
        wk.run_function()
    except Exception:   # noqa  (a predicate the evaluator cannot lower: not known)
        return None, None
    if len(wk.returns) != 1 or not _rat(wk.returns[0][0]) or wk.returns[0][1]:
        return None, None
    return wk.returns[0][0], F.sym(params[0])


def _looks_at_only(f, field):
    """the one-parameter function `f` uses its parameter only to read `.field` of it"""
    a = f.args
    params = [x.arg for x in a.posonlyargs + a.args]
    if len(params) != 1 or a.vararg or a.kwarg or a.kwonlyargs:
        return False
    body = f.body if isinstance(f.body, list) else [f.body]
    reads = {id(n.value) for st in body for n in ast.walk(st) if isinstance(n, ast.Attribute) and n.attr == field and isinstance(n.value, ast.Name)}
    uses = [n for st in body for n in ast.walk(st) if isinstance(n, ast.Name) and n.id == params[0]]
    return bool(uses) and all(id(n) in reads for n in uses)


def _entries_are_matrices(ctx, d, rm, entries):
    """every directory entry rdop2mats positions to and hands to the matrix decoder was established to be a matrix entry: it is drawn from a
    collection the scan fills on its matrix branch only, or a test on the kind the scan stored in the entry lies on the way"""
    text = ("rdop2mats: every directory entry that is positioned to and handed to the matrix decoder was established to be a matrix entry (it comes "
            "from a collection the directory scan fills for matrices only, or a test on the kind the scan stored in the entry lies on the path)")
    facts = _scan_facts(d)
    if facts is None or not entries:
        ctx.error("directory: the field of a directory entry that records the kind of the data block (the value tested before a matrix is skipped) and the "
                  "collections the scan fills could not be identified", d.fn)
        return
    params = [a.arg for a in rm.fn.args.args if a.arg not in ("self", "cls")]
    world = C.renamer([(F.sym(params[0]), F.sym("None"))]) if params else (lambda x: x)     # the witness call: rdop2mats() - read every matrix
    kf = "attr:" + facts["kind"]
    bad, unknown = None, None
    for sn, guard, node in entries:
        if all(_guard_false(guard, C.renamer([(F.fn(kf, sn), F.const(x))])) for x in facts["tables"]):
            continue
        tests = [c for c, _pol in guard]
        k = _entry_kind(rm, facts, sn, tests, world)
        if k in ("matrix", "empty"):
            continue
        other = sorted({dd[1] for c in tests if _rat(c) for dd in C.walk_atoms(c)
                        if dd[0] == "fn" and dd[1].startswith("attr:") and dd[1][5:] != facts["name"]})
        if k is None or other:
            unknown = unknown or (node, {"entry": repr(sn)[:300], "tests on fields of the entry that could not be decided": other})
        else:
            bad = bad or (node, {"candidates are drawn from": k[1], "which the directory scan fills": "on its table branch too",
                                 "test on the kind of the entry (field `%s`) on the path" % facts["kind"]: "none",
                                 "witness": "a file in which a table and a matrix carry the same data block name, read with rdop2mats(): "
                                            "`which` = -1 / 0 / 'all' selects the table and decodes it with its trailer as a matrix"})
    if bad is None and unknown is not None:
        ctx.error(text + " [cannot be decided: where the candidates of a read come from is not understood]", unknown[0], unknown[1])
    else:
        ctx.check(bad is None, text, bad[0] if bad else rm.fn, bad[1] if bad else None)


def _no_file_helpers(ctx, rel, cls, keep=()):
    """follow policy for the functions that organise reads (listing, directory, positioned reads): private helpers of the class are entered, the
    readers they call (everything public, and whatever touches the file) stay calls"""
    def follow(name, f):
        if name in keep:
            return False
        short = name.split(".")[-1]
        if not short.startswith("_") or short.startswith("__"):
            return False
        # (a private helper that itself reads the file is a reader)
        for n in ast.walk(f):
            if isinstance(n, ast.Call) and isinstance(n.func, ast.Attribute) and n.func.attr in ("read", "readline", "fromfile", "unpack"):
                return False
        return True
    return follow


def _loop_guard(guard, syms=("listonly", "patternlist")):
    """the part of a guard that speaks about the selection parameters (end-of-file tests and constant loop tests dropped)"""
    return tuple((c, pol) for c, pol in guard if _rat(c) and any(d[0] == "s" and d[1] in syms for d in C.walk_atoms(c)))



# ------------------------------------------------------------------------------------------------------------------ R6
def r6_cursor(ctx):
    """a preallocated output is filled through data[i : i + n]; the cursor must advance by that same n, the n values just decoded"""
    w = _w2(ctx, "rdop2record")
    if w is None:
        return
    fn = w.fn
    n = 0
    for lp in C.loops_in(w.top.items):
        stores = [(nm, ix, val, st) for nm, ix, val, st in w.all_cells if any(st is x for x in ast.walk(lp.node)) or (_rat(ix) and _lv_in(ix, lp.frame))]
        sites = [c for c in w.cutovers if c["frame"].equals(lp.frame)]
        for nm, ix, val, st in stores:
            p = C.fn_parts(ix) if _rat(ix) else None
            if p is None or p[0] != "slice" or not _rat(p[1][0]) or not _rat(p[1][1]):
                continue
            lo, up = p[1][0], p[1][1]
            ps = _lv_in(lo, lp.frame)
            ext = up - lo
            # (on the paths that make the store: a cursor that only moves when something is stored is judged where it is stored)
            upd = [C.assume(v, w.cell_guards.get(id(st), ())) for q, v in lp.carry if len(ps) == 1 and q.equals(ps[0])]
            n += 1
            if len(sites) != 1:
                ctx.error("rdop2record: the decode (struct / fromfile cut-over) that yields the values stored in the loop", st, len(sites))
                continue
            # the slice starts at the cursor itself (a loop-carried position) and the cursor moves on by the length of the slice
            ok = len(ps) == 1 and lo.equals(ps[0]) and len(upd) == 1 and _rat(upd[0]) and C.same(upd[0] - ps[0], ext, whole_values=False)
            cnt_ok = len(sites) == 1 and C.same(ext, sites[0]["count_ff"], whole_values=False)
            ctx.check(ok and cnt_ok, "rdop2record: the write cursor advances by the number of values just decoded and stored", st,
                      None if ok and cnt_ok else {"slice": f"[{lo!r} : {up!r}]", "cursor after the record": repr(upd[0]) if upd else None,
                                                  "values decoded": repr(sites[0]["count_ff"]) if len(sites) == 1 else None,
                                                  "consequence": "parts of a multi-part record overlap or leave gaps whenever the element size differs from the key width"})
    _bound(ctx, n >= 1, f"cursor rule bound to {n} slice stores", fn)
    ok, found = False, False
    Np = F.sym("N")
    for k, v, _st in w.all_inits:
        p = C.fn_parts(v) if _rat(v) else None
        if p is not None and p[0] in ("call:np.empty", "call:np.zeros", "call:np.ndarray") and len(p[1]) == 2 and _rat(p[1][0]) and p[1][0].equals(Np):
            kw = C.fn_parts(p[1][1])
            dt = kw[1][0] if kw is not None and kw[0] == "kw:dtype" else p[1][1]        # dtype by keyword or as the second argument
            sites = w.cutovers
            found = True
            ok = _rat(dt) and bool(sites) and all(C.same(dt, c["dtype"]) for c in sites)
    if not found:
        ctx.error("rdop2record: the allocation of the output for the N values announced by the caller could not be identified", fn)
    else:
        ctx.check(ok, "rdop2record: the preallocated output has N elements of the dtype the records are decoded with", fn)


def r6b_matrix_rows(ctx):
    """rdop2matrix: a record carries the (1-based) row number of its first value; n decoded values go to rows r-1 .. r-1+n of the current
    column, two reals per complex value"""
    w = _w2(ctx, "rdop2matrix")
    if w is None:
        return
    rec = [lp for lp in C.loops_in(w.top.items) if not C.loops_in(lp.items) and any(c["frame"].equals(lp.frame) for c in w.cutovers)]
    if len(rec) != 1:
        ctx.error("rdop2matrix: record loop", w.fn)
        return
    lp = rec[0]
    site = [c for c in w.cutovers if c["frame"].equals(lp.frame)][0]
    stores = [(nm, ix, val, st) for nm, ix, val, st in w.all_cells if any(st is x for x in ast.walk(lp.node))]
    row = F.fn("idx", F.fn("dec", F.fn("rd", lp.frame, F.const(4), KEYB)), F.const(0))     # the word after the record length
    n = 0
    outer = [lp2 for lp2 in C.loops_in(w.top.items) if any(x is lp for x in C.loops_in(lp2.items, deep=False))]
    for nm, ix, val, st in stores:
        p = C.fn_parts(ix) if _rat(ix) else None
        sl = C.fn_parts(p[1][0]) if p is not None and p[0] == "tuple" and len(p[1]) == 2 and _rat(p[1][0]) else None
        shaped = sl is not None and sl[0] == "slice" and _rat(sl[1][0]) and _rat(sl[1][1])
        ctx.check(shaped, "rdop2matrix: the values of a record go to a range of rows of one column (rows first, column second)", st,
                  None if shaped else {"index": repr(ix)})
        if not shaped:
            continue
        n += 1
        lo, up = sl[1][0], sl[1][1]
        # the column: a counter of the column loop that starts at 0 and advances by one per column
        colv = p[1][1]
        pc = C.fn_parts(colv) if _rat(colv) else None
        ok = len(outer) == 1 and pc is not None and pc[0] == "lv" and pc[1][0].equals(outer[0].frame) and _rat(pc[1][1]) and pc[1][1].is_zero()
        if ok:
            upd = [v for q, v in outer[0].carry if q.equals(colv)]
            ok = len(upd) == 1 and _rat(upd[0]) and C.same(upd[0], colv + 1)
        ctx.check(ok, "rdop2matrix: the column a record is stored in counts the columns read so far (0 for the first, one more after each "
                      "column's records)", st, None if ok else {"column index": repr(colv)})
        ok = C.same(up - lo, site["count_ff"], whole_values=False)
        ctx.check(ok, "rdop2matrix: a record's values are stored in as many rows as values were decoded", st, None if ok else {"rows": repr(up - lo)})
        # reals per value: the factor by which the allocation multiplies the trailer's row count (2 for the complex types, stored as pairs)
        alloc = None
        for _k, v, _st in w.all_inits:
            q = C.fn_parts(v) if _rat(v) else None
            if q is not None and q[0] in ("call:np.zeros", "call:np.empty") and _rat(q[1][0]):
                shp = C.fn_parts(q[1][0])
                if shp is not None and shp[0] == "tuple" and len(shp[1]) == 2:
                    alloc = shp[1][0]
        trows = F.fn("idx", F.sym(w.fn.args.args[1].arg), F.const(2)) if len(w.fn.args.args) > 1 else None
        good, detail = alloc is not None and trows is not None, None
        if good:
            for path, (lo_, al_) in C.leaves([lo, alloc]):
                if not C.same(lo_ * trows, al_ * (row - 1), whole_values=False):
                    good, detail = False, {"first row": repr(C.norm(lo_)), "rows allocated": repr(C.norm(al_)), "binding": _leaf_label(path),
                                           "expected": "(row number - 1) x reals per value"}
        ctx.check(good, "rdop2matrix: the first row of a record is its (1-based) row number - 1, times the reals per value the matrix was allocated "
                        "with (2 for the complex types)", st, detail)
    _bound(ctx, n >= 1, f"matrix placement rule bound to {n} stores", w.fn)
    # the result is viewed as complex exactly when the rows were allocated by pairs of reals
    rets = [r for r in w.returns if _rat(r[0])]
    alloc = None
    for _k, v, _st in w.all_inits:
        q = C.fn_parts(v) if _rat(v) else None
        if q is not None and q[0] in ("call:np.zeros", "call:np.empty") and _rat(q[1][0]):
            shp = C.fn_parts(q[1][0])
            if shp is not None and shp[0] == "tuple" and len(shp[1]) == 2:
                alloc = shp[1][0]
    trows = F.fn("idx", F.sym(w.fn.args.args[1].arg), F.const(2)) if len(w.fn.args.args) > 1 else None
    def is_view(v):
        return _rat(v) and any(d[0] == "fn" and d[1].endswith(".view") for d in C.walk_atoms(v))
    # where the matrix becomes complex: a rebinding of the matrix, or the returned expression itself
    views = [(w.init_guards.get(id(st), ()), st) for _nm, v, st in w.all_inits if is_view(v)]
    views += [(r[1], r[2]) for r in rets if is_view(r[0])]
    if rets and alloc is not None and trows is not None and views:
        # decided for the four Nastran matrix types (1, 2 real; 3, 4 complex): the type field of the trailer is given each value in turn
        mt = F.fn("idx", F.sym(w.fn.args.args[1].arg), F.const(4))
        good, detail, undecided = True, None, None

        def holds(guard, sub):
            ts = [(C.truth_of(C.settle(sub(c))), pol) for c, pol in guard if _rat(c)]
            if any(t is not None and t != pol for t, pol in ts):
                return False
            return None if any(t is None for t, _pol in ts) else True
        for k in (1, 2, 3, 4):
            sub = C.renamer([(mt, F.const(k))])
            al = C.settle(sub(alloc))
            hs = [holds(g, sub) for g, _st in views]
            if any(h is None for h in hs) or any(d[0] == "fn" and d[1] == "phi" for d in C.walk_atoms(al)):
                undecided = f"type {k}"
                continue
            viewed = any(hs)
            if viewed != C.same(al, 2 * trows):
                good, detail = False, {"matrix type": k, "rows allocated": repr(C.norm(al)), "viewed as complex": viewed}
        if good and undecided is not None:
            ctx.error("rdop2matrix: condition of the complex view", views[0][1], undecided)
        else:
            ctx.check(good, "rdop2matrix: the matrix is viewed as complex (pairs of reals) exactly for the types whose rows were allocated by pairs "
                            "(checked for the matrix types 1 to 4)", views[0][1], detail)
    else:
        ctx.error("rdop2matrix: allocation / complex view of the returned matrix", w.fn)


# ------------------------------------------------------------------------------------------------------------------ R7
def _strip_calls(v):
    """(method, character set) of every .strip/.lstrip/.rstrip(chars) application inside a formula"""
    out = []
    for d in C.walk_atoms(v):
        if d[0] == "fn" and d[1].startswith("call:") and d[1].split(".")[-1] in ("strip", "lstrip", "rstrip"):
            args = [C._arg(k) for k in d[2]]
            own = d[1] != "call:." + d[1].split(".")[-1]
            chars = args[0:] if own else args[1:]
            if chars:
                s = C.sym_name(chars[0]) if _rat(chars[0]) else None
                try:
                    txt = ast.literal_eval(s) if s and s[:1] in "'\"" else None
                except Exception:  # noqa
                    txt = None
                out.append((d[1].split(".")[-1], txt))
    return out


def _lines_split(tot):
    """lines of one block = 2 + a // p  ->  (a, p)"""
    if tot is None:
        return None
    p = C.fn_parts(tot - 2)
    if p is not None and p[0] == "floordiv" and len(p[1]) == 2 and _rat(p[1][0]) and _rat(p[1][1]):
        return p[1][0], p[1][1]
    return None


def r7_announced_format(ctx):
    """the values-per-line and field width announced in an ASCII matrix header reach the reader and the skipper unharmed, whatever digits they
    start with"""
    rds = [rd for rd in _readers(ctx, "_loadop4_ascii") if rd["layout"] == "dense"]
    if len(rds) != 1:
        ctx.error("_loadop4_ascii: the reader of the dense layout", _func(ctx, OP4, "OP4._loadop4_ascii"))
        return
    w, rf = rds[0]["w"], rds[0]["fn"]
    fn = w.fn
    cols_ = C.loops_of_call(w, rf)
    puts = _stores_in(w, cols_[0]) if len(cols_) == 1 else []
    if len(puts) != 1:
        ctx.error(f"{rds[0]['name']}: store call of the column loop", rf)
        return
    # values per line: what divides the number of values of a block into its lines; field width and text: what the store call is handed
    L = _store_arg(ctx, w, puts[0], "count")
    pl = _lines_divisor(C.total(cols_[0].items, "L"), L)
    nl = _store_arg(ctx, w, puts[0], "width")
    text = _store_arg(ctx, w, puts[0], "text")
    if not (_rat(pl) and _rat(nl) and _rat(text)):
        ctx.error("_loadop4_ascii: values per line / field width / text of a block as the dense reader uses them", fn,
                  {"values per line": repr(pl)[:80], "field width": repr(nl)[:80]})
        return
    # the skipper's values-per-line, with its parameters standing for what the loader passes
    cs = _ascii_cases(ctx)
    pl2 = []
    if cs["ok"]:
        for _asg, _wl, ws in cs["cases"]:
            for lp in C.loops_in(ws.top.items, deep=False):
                sp = _lines_split(C.total(lp.items, "L"))
                if sp is not None:
                    pl2.append(cs["ren_s"](sp[1]))
    ok = bool(pl2) and all(C.same(cs["ren_l"](pl), x, whole_values=False) for x in pl2)
    if not pl2:
        ctx.error("_loadop4_ascii: the values-per-line the skipper divides by could not be identified", fn)
    else:
        ctx.check(ok, "_loadop4_ascii: the skipper is given the values-per-line the reader is given", fn)
    # the used part of a data line: the bound every line of a block is cut at
    cuts = []
    for d in C.walk_atoms(text):
        if d[0] == "fn" and d[1] == "idx":
            base, ix = C._arg(d[2][0]), C._arg(d[2][1])
            sp = C._slice_parts(ix)
            pb = C.fn_parts(base)
            if sp is not None and (sp[0] is None or sp[0].is_zero()) and sp[1] is not None and sp[2] is None and pb is not None and pb[0] == "each":
                cuts.append(sp[1])
    ok = len(cuts) == 1 and C.same(cuts[0], pl * nl, whole_values=False)
    ctx.check(ok, "_loadop4_ascii: the used part of a data line is perline * field width characters", fn,
              None if ok else {"lines are cut at": [repr(c)[:200] for c in cuts]})
    for label, v in (("values per line", pl), ("field width", nl)):
        # "any announced field width": the value the reader works with is read from the matrix header line (a constant would ignore it)
        ok = any(d[0] == "fn" and d[1] == "ln" for d in C.walk_atoms(v))
        ctx.check(ok, f"_loadop4_ascii: the {label} the readers work with depends on the format the matrix header announces", fn,
                  None if ok else {label: repr(v)[:200]})
    for label, v in (("values per line", pl), ("field width", nl)):
        bad = []
        for meth, chars in _strip_calls(v):
            if chars is None:
                continue
            if meth in ("lstrip", "strip") and any(ch.isdigit() for ch in chars):
                bad.append((meth, chars, "1P,1%sE8.1" % ("0" if label == "values per line" else "")))
            if meth in ("rstrip", "strip") and any(ch.isdigit() or ch == "." for ch in chars) and label == "field width":
                bad.append((meth, chars, "1P,5E10.1"))
            if meth in ("lstrip", "strip") and any(ch in "ED" for ch in chars.upper()):
                bad.append((meth, chars, "5E16.9"))
        ok = not bad
        ctx.check(ok, f"_loadop4_ascii: the announced {label} is parsed from the header text without stripping a *set of characters* that "
                      "can eat its digits (str.lstrip / strip remove characters, not a prefix)", fn,
                  None if ok else {"call": f".{bad[0][0]}({bad[0][1]!r})", "witness": f"announced format {bad[0][2]!r}: the repeat count loses its leading digit(s)",
                                   "consequence": "perline is wrong for the reader, the lister and the skipper alike"})
    # prefix removal: `if t.startswith(P): t = t[len(P):]`
    n = 0
    good = True
    detail = None
    for d in C.walk_atoms(pl):
        if d[0] == "fn" and d[1] == "phi":
            c, x, y = (C._arg(k) for k in d[2])
            pc = C.fn_parts(c)
            lit, tested = None, None
            if pc is not None and pc[0].endswith(".startswith"):
                lit = C.sym_name(pc[1][-1]) if _rat(pc[1][-1]) else None
            elif pc is not None and pc[0] in ("cmp:Eq", "eq0"):
                # t[:k] == P  -  a prefix test written with a slice: it can only hold when k is the length of P
                sides = list(pc[1]) if pc[0] == "cmp:Eq" else None
                if sides is None and pc[1][0].d.is_const() and len(pc[1][0].n.t) == 2:
                    sides = [F.Rat(F.Poly({m: 1})) for m in pc[1][0].n.t]
                for a_, b_ in (sides, sides[::-1]) if sides and len(sides) == 2 else ():
                    qa = C.fn_parts(a_) if _rat(a_) else None
                    nb = C.sym_name(b_) if _rat(b_) else None
                    sp = C._slice_parts(qa[1][1]) if qa is not None and qa[0] == "idx" and _rat(qa[1][1]) else None
                    if sp is not None and nb and nb[:1] in "'\"" and sp[2] is None and (sp[0] is None or sp[0].is_zero()) and sp[1] is not None and sp[1].is_const():
                        lit, tested = nb, int(sp[1].const_value())
            if lit is None:
                continue
            px = C.fn_parts(x)
            if lit is None or lit[:1] not in "'\"" or px is None or px[0] != "idx":
                continue
            sl = C.fn_parts(px[1][1]) if _rat(px[1][1]) else None
            if sl is None or sl[0] != "slice" or not _rat(sl[1][0]) or not sl[1][0].is_const():
                continue
            n += 1
            if int(sl[1][0].const_value()) != len(ast.literal_eval(lit)) or not C.same(px[1][0], y) or (tested is not None and tested != len(ast.literal_eval(lit))):
                good, detail = False, {"prefix": lit, "removed characters": str(sl[1][0].const_value()), "characters tested": tested}
    if n:
        ctx.check(good, "_loadop4_ascii: an optional prefix of the announced format is removed by its own length, only when present", fn, detail)


# ------------------------------------------------------------------------------------------------------------------ R8
def _reachable(ctx, rel, cls, start):
    """the functions of the class reachable from `start` through calls self.f(...) / Cls.f(...): [(qualified name, FunctionDef, caller)]"""
    m = ctx.src.mod(rel)
    seen, out, todo = {start}, [], [start]
    while todo:
        q = todo.pop(0)
        f = m.funcs.get(q)
        if f is None:
            continue
        for n in ast.walk(f):
            if isinstance(n, ast.Call) and isinstance(n.func, ast.Attribute) and isinstance(n.func.value, ast.Name) and n.func.value.id in ("self", cls):
                q2 = f"{cls}.{n.func.attr}"
                if q2 in m.funcs and q2 not in seen:
                    seen.add(q2)
                    out.append((q2, m.funcs[q2], q))
                    todo.append(q2)
    return out


def _is_predicate(f):
    """every value the function returns is a truth value"""
    rets = [n for n in ast.walk(f) if isinstance(n, ast.Return)]
    if not rets:
        return False
    for r in rets:
        v = r.value
        if isinstance(v, ast.Constant) and isinstance(v.value, bool):
            continue
        if isinstance(v, (ast.Compare, ast.BoolOp)) or (isinstance(v, ast.UnaryOp) and isinstance(v.op, ast.Not)):
            continue
        if isinstance(v, ast.Call) and dotted_name(v.func) in ("any", "all", "bool"):
            continue
        return False
    return True


def dotted_name(n):
    from .e1_srcmodel import dotted
    return dotted(n)


def r8_name_selection(ctx):
    """reading a named subset equals filtering a full read: a requested name without a wild card selects the data blocks of exactly that name"""
    # the predicate that decides whether a data block name is requested: reached from rdop2mats, wherever it lives
    _func(ctx, OP2, "OP2.rdop2mats")
    reach = _reachable(ctx, OP2, "OP2", "OP2.rdop2mats")
    preds = [(q, f, caller) for q, f, caller in reach if _is_predicate(f) and len([a for a in f.args.args if a.arg not in ("self", "cls")]) == 2]
    if len(preds) != 1:
        ctx.error("rdop2mats: the predicate that matches a data block name against the requested names (a helper of two arguments that "
                  "returns a truth value)", _func(ctx, OP2, "OP2.rdop2mats"), [q for q, _f, _c in preds])
        return
    q, fn, caller = preds[0]
    _func(ctx, OP2, q)
    w = _walk(ctx, OP2, "OP2", q, tag="alone", follow=False)
    if w is None:
        return
    params = [a.arg for a in fn.args.args if a.arg not in ("self", "cls")]
    # which argument is the name of a data block: the one the caller draws from the names of the directory, one at a time
    cw = _walk(ctx, OP2, "OP2", caller, tag="alone", follow=False)
    which = 0
    if cw is not None:
        calls = [e for e in cw.events if e[0] == "call" and (e[1] or "").split(".")[-1] == fn.name]
        ctx.check(len(calls) >= 1, f"{caller.split('.')[-1]}: the requested names are applied through {fn.name} to the names of the directory", cw.fn, nontrivial=False)
        for e in calls:
            for i, v in enumerate(e[2][:2]):
                if _rat(v) and (C.fn_parts(v) or ("",))[0] == "each":
                    which = i
    name = F.sym(params[which])
    params = [params[which], params[1 - which]]
    if not w.returns:
        ctx.error(f"{fn.name}: returned value", fn)
        return

    def mentions(v, what):
        return any(d == C.as_atom(what) for d in C.walk_atoms(v))

    def classify(v):
        """kind of a guard atom: 'eq' (name == pattern-derived), 'wild' (a test on the wild card), 'prefix' (name.startswith(...)), 'other'"""
        p = C.fn_parts(v)
        if p is None:
            return "other"
        if p[0] == "eq0":
            # an equality between the whole name (possibly case-normalised) and something that does not contain the name
            d = p[1][0]
            terms = [F.Rat(F.Poly({m: c})) for m, c in d.n.t.items()] if d.d.is_const() else []
            if len(terms) == 2:
                sides = [t if C.as_atom(t) is not None else -t for t in terms]
                for a, b in (sides, sides[::-1]):
                    pa = C.fn_parts(a)
                    whole_name = a.equals(name) or (pa is not None and pa[0].split(".")[-1] in ("upper", "lower", "casefold")
                                                    and (pa[0] == f"call:{params[0]}." + pa[0].split(".")[-1] or (pa[1] and _rat(pa[1][0]) and pa[1][0].equals(name))))
                    if whole_name and C.as_atom(b) is not None and not mentions(b, name):
                        return "eq"
            if any(dd[0] == "s" and dd[1] in ("'*'", '"*"') for dd in C.walk_atoms(d)):
                return "wild"
            return "other"
        if p[0].endswith(".startswith") and (p[0] == f"call:{params[0]}.startswith" or (p[0] == "call:.startswith" and _rat(p[1][0]) and p[1][0].equals(name))):
            return "prefix"
        if p[0].endswith(".endswith") or p[0] == "cmp:In":
            if any(dd[0] == "s" and dd[1] in ("'*'", '"*"') for dd in C.walk_atoms(v)):
                return "wild"
        return "other"

    # selection predicate: OR over the returns of (guard and truth of the returned value); `any(<test> for ...)` is the truth of <test>
    def truth(v):
        if not _rat(v):
            raise Unsupported("returned value cannot be lowered")
        if C.sym_name(v) == "True" or v.equals(F.const(1)):
            return ("const", True)
        if C.sym_name(v) in ("False", "None") or v.is_zero():
            return ("const", False)
        p = C.fn_parts(v)
        if p is not None and p[0] == "call:any" and len(p[1]) == 1 and _rat(p[1][0]):
            q = C.fn_parts(p[1][0])
            if q is not None and q[0] == "comp" and _rat(q[1][0]):
                return C.bool_form(q[1][0])
        return C.bool_form(v)

    proved, undecided = None, None
    try:
        parts = []
        for r in w.returns:
            g = C.guard_form(tuple((c, pol) for c, pol in r[1] if _rat(c) and (C.fn_parts(c) or ("",))[0] != "count"))
            parts.append(("and", [g, truth(r[0])]))
        pred = ("or", parts)
        atoms = C.bool_atoms(pred)
        kinds = {k: classify(v) for k, v in atoms.items()}
        for asg in C.assignments(atoms.keys()):
            if any(asg[k] for k, kd in kinds.items() if kd in ("eq", "wild")) or not C.bool_eval(pred, asg):
                continue
            if any(asg[k] for k, kd in kinds.items() if kd == "other"):
                undecided = [repr(atoms[k]) for k, kd in kinds.items() if kd == "other"]
                continue
            proved = {"a name is selected with": {repr(atoms[k]): asg[k] for k in atoms},
                      "witness": "rdop2mats(['kaa']) on a file holding KAA and KAAX returns both; filtering the full read by the name gives KAA only"}
            break
    except Unsupported as e:
        undecided = str(e)
    if proved is None and undecided is not None:
        ctx.error("name filter of rdop2mats: the condition under which a data block name is selected cannot be lowered", fn, undecided)
    else:
        ctx.check(proved is None, "name filter of rdop2mats: a name is selected only by equality with a requested name, or by its prefix when the requested name "
                                  "carries the wild card `*` (never by a prefix test alone)", fn, proved)
    # both sides are compared in upper case
    ups = [d for r in w.returns for c in [x for x, _pol in r[1]] + [r[0]] if _rat(c) for d in C.walk_atoms(c) if d[0] == "fn" and d[1].endswith(".upper")]
    ctx.check(bool(ups), "name filter of rdop2mats: requested names are compared in upper case (data block names are upper case)", fn, nontrivial=False)


def _r6(ctx):
    r6_cursor(ctx)
    r6b_matrix_rows(ctx)


RULES = [
    ("C11-R1", r1_cutover_pairs, 50),
    ("C11-R2", r2_declared_sizes, 75),
    ("C11-R3", r3_sibling_decoders, 22),
    ("C11-R4", r4_read_equals_skip, 34),
    ("C11-R5", r5_listing_equals_read, 17),
    ("C11-R6", _r6, 8),
    ("C11-R7", r7_announced_format, 6),
    ("C11-R8", r8_name_selection, 3),
]
LEVEL = "other"
EXPLANATION = ("Static, decided on values by a consumption evaluator (file-position bookkeeping per loop body and per branch; loops in one normal "
               "form whether tested at the top, at the end, in the middle or in a walrus; helpers, properties, local functions and lambdas followed): "
               "per-variant constants are self-consistent (struct code / numpy dtype / byte count at every decode), both decoding routes at the "
               "3000-value cut-over read the same type, count and bytes, sibling decoders share their header arithmetic (symbolic, over the whole "
               "16-bit row range) and read what the header announces, skippers consume what readers consume and stop where they stop (ASCII: one "
               "walk of loader and skipper per truth assignment of the layout tests), listings take sizes from the fields reads use, multi-part "
               "record cursors advance by what was stored, announced ASCII formats are honoured and parsed without character-set stripping, exact "
               "names select exactly.")
MANIFEST = {
    "text": "Partial claim decided statically: (R1) struct/fromfile pairs at every cut-over site of op4 and op2 decode the same kind, size and count for 32- and "
            "64-bit keys and every `form`; (R2) every struct decode reads the size of its format in both key widths; (R3) nonbigmat/bigmat header arithmetic is "
            "the same function of the header words in the ASCII reader, binary reader and skipper, valid for every row below 65536, and the data read per "
            "string is what the header announces; (R4) readers and skippers advance by the same bytes / lines per record and loop on the same keys; the ASCII loader with the reader it "
            "selects and the ASCII skipper consume the same lines in every case of the layout tests (one walk of each per truth assignment); "
            "(R5) listing = read for names, sizes, forms, types and name filtering; (R6) multi-part record cursor; (R7) announced ASCII format parsing; "
            "(R8) exact-name selection in OP2. Not decided: conformance to Nastran's format beyond what the repo's writer and sibling readers witness.",
    "note": "Trusted: CPython ast; struct / numpy type-code tables in verifier/c11_fmt.py; format invariants reclen = n * bytes_per (+ ibytes) for whole "
            "records, reclen = key * ibytes for table records, reclen = (3 + nwords) * word size for op4 column records; divisors that count values "
            "per line / words per value are positive (-(-n // p) is read as ceil(n / p)).",
    "technique": "consumption evaluator (symbolic file-position bookkeeping) for reader/skipper/listing comparison; struct-format vs numpy-dtype table "
                 "agreement; symbolic header arithmetic",
}
