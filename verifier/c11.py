"""C11 -- OUTPUT4 / OUTPUT2 decoders (partial claim)."""
from __future__ import annotations

import ast
import re

from . import e2_formula as F
from . import op4_model as M
from .core import AnchorError, Unsupported
from .e1_srcmodel import dotted, walk_no_nested, parent, ancestors, enclosing_stmt, utext
from .e2_eval import Evaluator, is_unknown, need

OP4, OP2 = M.OP4, M.OP2

STRUCT_SIZE = {"i": 4, "I": 4, "q": 8, "Q": 8, "f": 4, "d": 8}
STRUCT_KIND = {"i": "int", "I": "uint", "q": "int", "Q": "uint", "f": "float", "d": "float"}
NP_KIND = {"i": "int", "u": "uint", "f": "float"}


def _parse_struct(expr_txt):
    """'self._endian + "%dd"' / "'<3q'" -> (endian_expr, count, code) from the literal part"""
    m = re.search(r"['\"]([<>=@!]?)(%d|\d*)([iIqQfd])['\"]", expr_txt)
    if not m:
        return None
    return m.group(2), m.group(3)


def _struct_items(expr_txt):
    """literal struct format in an expression -> list of (count, code)"""
    m = re.search(r"['\"]([<>=@!]?)((?:\d*[iIqQfd])+)['\"]", expr_txt)
    if not m:
        return None
    return [(int(c) if c else 1, k) for c, k in re.findall(r"(\d*)([iIqQfd])", m.group(2))]


def _parse_npdtype(expr_txt):
    m = re.search(r"['\"]([<>=|]?)([iuf])(\d)['\"]", expr_txt)
    if not m:
        return None
    return m.group(2), int(m.group(3))


def _attr_table(fn, arm_test_contains=None):
    """{attr: {arm: value_text}} for self.<attr> assignments inside fn, keyed by enclosing if/else arm of a given test"""
    out = {}
    for st in ast.walk(fn):
        if isinstance(st, ast.Assign) and len(st.targets) == 1 and isinstance(st.targets[0], ast.Attribute) \
                and isinstance(st.targets[0].value, ast.Name) and st.targets[0].value.id == "self":
            arm = "all"
            for a in ancestors(st):
                if isinstance(a, ast.If) and arm_test_contains and arm_test_contains in ast.unparse(a.test):
                    inbody = any(st is y for x in a.body for y in ast.walk(x))
                    arm = "then" if inbody else "else"
                    break
            out.setdefault(st.targets[0].attr, {})[arm] = ast.unparse(st.value)
    return out


def r2_declared_sizes(ctx):
    fn = M.func(ctx, "OP4._op4open_read")
    tb = _attr_table(fn, "self._bit64")
    for arm, label in (("then", "64-bit"), ("else", "32-bit")):
        for nm, cnt in (("i", 1), ("ii", 2), ("iii", 3), ("iiii", 4)):
            s = tb.get(f"_Str_{nm}", {}).get(arm)
            b = tb.get(f"_bytes_{nm}", {}).get(arm)
            if s == "self._Str_i4":
                s = tb.get("_Str_i4", {}).get("all")
            items = _struct_items(s or "")
            if items is None or b is None:
                ctx.error(f"op4 {label}: _Str_{nm} / _bytes_{nm}", fn, f"{s} {b}")
                continue
            n = sum(c for c, k in items)
            size = sum(c * STRUCT_SIZE[k] for c, k in items)
            word = 8 if arm == "then" else 4
            ok = size == int(b) and n == cnt and all(STRUCT_SIZE[k] == word for c, k in items)
            ctx.check(ok, f"op4 {label}: _bytes_{nm} = {b} equals the size of its struct format ({cnt} x {word} bytes)", fn,
                      None if ok else {"format": s, "bytes": b})
        sr, srf, bsr = (tb.get(k, {}).get(arm) for k in ("_str_sr", "_str_sr_fromfile", "_bytes_sr"))
        ps, pn = _parse_struct(sr or ""), _parse_npdtype(srf or "")
        ok = ps is not None and pn is not None and bsr is not None and STRUCT_SIZE[ps[1]] == pn[1] == int(bsr) \
            and STRUCT_KIND[ps[1]] == NP_KIND[pn[0]] == "float"
        ctx.check(ok, f"op4 {label}: 'single-precision word' struct code, numpy dtype and byte count agree ({sr}, {srf}, {bsr})", fn)
        wpd = tb.get("_wordsperdouble", {}).get(arm)
        ok = wpd is not None and bsr is not None and int(wpd) * int(bsr) == 8
        ctx.check(ok, f"op4 {label}: words per double = 8 / word size", fn, {"wordsperdouble": wpd, "bytes_sr": bsr})
    dr, drf = tb.get("_str_dr", {}).get("all"), tb.get("_str_dr_fromfile", {}).get("all")
    ps, pn = _parse_struct(dr or ""), _parse_npdtype(drf or "")
    ok = ps is not None and pn is not None and ps[1] == "d" and pn == ("f", 8)
    ctx.check(ok, "op4: double struct code and numpy dtype agree (d / f8)", fn)
    for nm in ("_str_sr", "_str_dr", "_str_sr_fromfile", "_str_dr_fromfile"):
        ok = all("self._endian" in v for v in tb.get(nm, {}).values())
        ctx.check(ok, f"op4: {nm} carries the detected byte order", fn, nontrivial=False)
    # op2
    fn = M.func_op2(ctx, "OP2._op2open") if hasattr(M, "func_op2") else ctx.src.func(OP2, "OP2._op2open")
    tb = _attr_table(fn, "reclen == 4")
    for arm, label, isz in (("then", "32-bit", 4), ("else", "64-bit", 8)):
        ib = tb.get("_ibytes", {}).get(arm)
        istr, istru = tb.get("_intstr", {}).get(arm), tb.get("_intstru", {}).get(arm)
        rf, rfu, fb = tb.get("_rfrm", {}).get(arm), tb.get("_rfrmu", {}).get(arm), tb.get("_fbytes", {}).get(arm)
        pn, ps = _parse_npdtype(istr or ""), _parse_struct(istru or "")
        ok = pn is not None and ps is not None and ib is not None and pn[1] == STRUCT_SIZE[ps[1]] == int(ib) == isz \
            and NP_KIND[pn[0]] == STRUCT_KIND[ps[1]] == "int"
        ctx.check(ok, f"op2 {label}: integer numpy dtype, struct code and _ibytes agree ({istr}, {istru}, {ib})", fn)
        pn, ps = _parse_npdtype(rf or ""), _parse_struct(rfu or "")
        ok = pn is not None and ps is not None and fb is not None and pn[1] == STRUCT_SIZE[ps[1]] == int(fb) == isz
        ctx.check(ok, f"op2 {label}: real numpy dtype, struct code and _fbytes agree ({rf}, {rfu}, {fb})", fn)
        sk = tb.get("_Str", {}).get(arm)
        ok = sk is not None and (("'q'" in sk) if isz == 8 else (sk == "self._Str4"))
        ctx.check(ok, f"op2 {label}: key struct is {isz} bytes", fn, sk)


def _cutover_sites(fn):
    """`if n < cutoff: ... struct.unpack(FMT % n, f.read(B)) else: ... np.fromfile(f, DT, n)`"""
    out = []
    for st in ast.walk(fn):
        if isinstance(st, ast.If) and isinstance(st.test, ast.Compare) and isinstance(st.test.ops[0], ast.Lt) \
                and ("utoff" in ast.unparse(st.test.comparators[0])):
            un = [c for b in st.body for c in ast.walk(b) if isinstance(c, ast.Call) and dotted(c.func) == "struct.unpack"]
            ff = [c for b in st.orelse for c in ast.walk(b) if isinstance(c, ast.Call) and dotted(c.func) == "np.fromfile"]
            if un and ff:
                out.append((st, un[0], ff[0]))
    return out


def _resolve_local(fn, name, before):
    """all values a local name is assigned before a line (text)"""
    vals = []
    for st in ast.walk(fn):
        if isinstance(st, ast.Assign) and st.lineno < before:
            for t in st.targets:
                if isinstance(t, ast.Name) and t.id == name:
                    vals.append((st, ast.unparse(st.value)))
    return vals


def r1_cutover_pairs(ctx):
    # ---- op4: the three binary readers; formats arrive as parameters bound in _loadop4_binary
    ld = M.func(ctx, "OP4._loadop4_binary")
    arms = [s for s in ld.body if isinstance(s, ast.If) and ast.unparse(s.test).replace(" ", "") == "mtype&1"]
    if len(arms) != 1:
        raise AnchorError("_loadop4_binary: `if mtype & 1` format selection")
    sel = {}
    for arm, body in (("single", arms[0].body), ("double", arms[0].orelse)):
        sel[arm] = {ast.unparse(s.targets[0]): ast.unparse(s.value) for s in body if isinstance(s, ast.Assign)}
    ok = sel["single"].get("numform") == "self._str_sr" and sel["single"].get("numform2") == "self._str_sr_fromfile" \
        and sel["single"].get("bytesreal") == "self._bytes_sr" and sel["single"].get("wper") == "1"
    ctx.check(ok, "_loadop4_binary (odd type = single precision): struct format, numpy dtype and byte count are the single-precision triple, 1 word per value",
              arms[0], sel["single"])
    ok = sel["double"].get("numform") == "self._str_dr" and sel["double"].get("numform2") == "self._str_dr_fromfile" \
        and sel["double"].get("bytesreal") == "8" and sel["double"].get("wper") == "self._wordsperdouble"
    ctx.check(ok, "_loadop4_binary (even type = double precision): struct format, numpy dtype and byte count are the double triple", arms[0], sel["double"])
    call = [c for c in ast.walk(ld) if isinstance(c, ast.Call) and dotted(c.func) == "rdfunc"]
    want = ["fp", "wper", "r", "c", "abs(rows)", "cols", "nwords", "reclen", "bytesreal", "numform", "numform2", "funcs"]
    ok = len(call) == 1 and [ast.unparse(a) for a in call[0].args] == want
    ctx.check(ok, "_loadop4_binary passes (bytesreal, numform, numform2) to the reader in the positions the readers declare", call[0] if call else ld)
    n4 = 0
    for q in ("OP4._rd_dense_binary", "OP4._rd_bigmat_binary", "OP4._rd_nonbigmat_binary"):
        fn = M.func(ctx, q)
        params = [a.arg for a in fn.args.args]
        ok = params[1:] == want[:4] + ["rows"] + want[5:]
        ctx.check(ok, f"{q.split('.')[1]}: parameter order matches the call", fn, params, nontrivial=False)
        sites = _cutover_sites(fn)
        if len(sites) != 1:
            ctx.error(f"{q}: cut-over site", fn, len(sites))
            continue
        st, un, ff = sites[0]
        n4 += 1
        cnt = ast.unparse(st.test.left)
        fmt, rd = ast.unparse(un.args[0]).replace(" ", ""), ast.unparse(un.args[1]).replace(" ", "")
        ok = fmt == f"numform%{cnt}" and rd == f"fp.read(bytesreal*{cnt})"
        ctx.check(ok, f"{q.split('.')[1]}: below the cut-over, {cnt} values of `numform` are unpacked from bytesreal * {cnt} bytes", un, {"fmt": fmt, "read": rd})
        a = [ast.unparse(x) for x in ff.args]
        ok = a == ["fp", "numform2", cnt]
        ctx.check(ok, f"{q.split('.')[1]}: at or above the cut-over, the same {cnt} values are read with the numpy dtype `numform2`", ff, a)
        ok = "cutoff" in ast.unparse(st.test.comparators[0])
        ctx.check(ok, f"{q.split('.')[1]}: the switch is on the tunable cut-off only", st, nontrivial=False)
    # ---- op2
    n2 = 0
    for q in ("OP2.rdop2matrix", "OP2.rdop2record", "OP2.rdop2dynamics"):
        if not ctx.src.has_func(OP2, q):
            continue
        fn = ctx.src.func(OP2, q)
        for st, un, ff in _cutover_sites(fn):
            n2 += 1
            if not (isinstance(un.args[0], ast.BinOp) and isinstance(un.args[0].op, ast.Mod)):
                ctx.error(f"{q}: struct format shape", un, ast.unparse(un))
                continue
            cnt = ast.unparse(un.args[0].right)
            fmt_e, dt_e = un.args[0].left, ff.args[1]
            rd = ast.unparse(un.args[1]).replace(" ", "")
            nread = ast.unparse(ff.args[2]) if len(ff.args) > 2 else None
            ok = nread == cnt
            ctx.check(ok, f"{q.split('.')[1]}: both sides of the cut-over read `{cnt}` values", st, {"unpack": ast.unparse(un), "fromfile": ast.unparse(ff)})
            if not ok:
                continue
            arms = {}
            if isinstance(fmt_e, ast.Name) and isinstance(dt_e, ast.Name):
                # every (struct format, dtype, bytes) triple that can reach this site
                for s2, v in _resolve_local(fn, fmt_e.id, st.lineno):
                    arms.setdefault(_arm_key(s2), {})["fmt"] = (v, s2)
                for s2, v in _resolve_local(fn, dt_e.id, st.lineno):
                    arms.setdefault(_arm_key(s2), {})["dt"] = (v, s2)
                for s2, v in _resolve_local(fn, "bytes_per", st.lineno):
                    arms.setdefault(_arm_key(s2), {})["bytes"] = (v, s2)
            else:
                arms["all"] = {"fmt": (ast.unparse(fmt_e), st), "dt": (ast.unparse(dt_e), st)}
            for key, d in sorted(arms.items()):
                if "fmt" not in d or "dt" not in d:
                    continue
                _check_triple(ctx, q, key, d, st)
            if not (isinstance(fmt_e, ast.Name)):
                continue
            # bytes read by the struct side
            ok = rd in (f"self._fileh.read({cnt}*bytes_per)", "f.read(b)", f"f.read({cnt}*bytes_per)")
            if rd == "f.read(b)":
                bdef = [x for x in ast.walk(st) if isinstance(x, ast.Assign) and ast.unparse(x.targets[0]) == "b"]
                ok = bool(bdef) and ast.unparse(bdef[0].value).replace(" ", "") == f"{cnt}*bytes_per"
            ctx.check(ok, f"{q.split('.')[1]}: the struct side reads {cnt} * bytes_per bytes", un, rd)
    ctx.check(n4 == 3 and n2 >= 3, f"cut-over rule bound to {n4} op4 sites and {n2} op2 sites", OP4 + ":1", nontrivial=False)


def _arm_key(st):
    for a in ancestors(st):
        if isinstance(a, ast.If):
            t = ast.unparse(a.test)
            inbody = any(st is y for x in a.body for y in ast.walk(x))
            return t if inbody else f"not ({t})"
    return "all"


def _resolve_op2_attr(ctx, txt, bits):
    """value of self._intstr etc. for a key width, following simple .replace() chains"""
    fn = ctx.src.func(OP2, "OP2._op2open")
    tb = _attr_table(fn, "reclen == 4")
    m = re.match(r"self\.(_\w+)((?:\.replace\('.', '.'\))*)$", txt)
    if m:
        base = tb.get(m.group(1), {}).get("then" if bits == 32 else "else")
        if base is None:
            return None
        lit = re.search(r"['\"]([^'\"]*)['\"]", base)
        if not lit:
            return None
        s = lit.group(1)
        for a, b in re.findall(r"\.replace\('(.)', '(.)'\)", m.group(2)):
            s = s.replace(a, b)
        return s
    lit = re.search(r"['\"]([^'\"]*)['\"]", txt)
    return lit.group(1) if lit else None


def _check_triple(ctx, q, key, d, site):
    for bits in (32, 64):
        f_, dt_ = _resolve_op2_attr(ctx, d["fmt"][0], bits), _resolve_op2_attr(ctx, d["dt"][0], bits)
        if f_ is None or dt_ is None:
            ctx.error(f"{q}: cannot resolve formats in arm `{key}`", d["fmt"][1], f"{d['fmt'][0]} / {d['dt'][0]}")
            return
        ps = re.search(r"(%d|\d*)([iIqQfd])$", f_)
        pn = re.search(r"([iuf])(\d)$", dt_)
        if not ps or not pn:
            ctx.error(f"{q}: unparsed formats in arm `{key}`", d["fmt"][1], f"{f_} / {dt_}")
            return
        code, (kind, size) = ps.group(2), (pn.group(1), int(pn.group(2)))
        ok = STRUCT_SIZE[code] == size and STRUCT_KIND[code] == NP_KIND[kind]
        by = d.get("bytes")
        if ok and by is not None:
            bv = by[0]
            if bv.startswith("self."):
                tb = _attr_table(ctx.src.func(OP2, "OP2._op2open"), "reclen == 4")
                bv = tb.get(bv[5:], {}).get("then" if bits == 32 else "else")
            ok = bv is not None and int(bv) == size
        ctx.check(ok, f"{q.split('.')[1]} [{key}, {bits}-bit keys]: struct code '{code}' and numpy dtype '{kind}{size}' decode the same type on both sides of the "
                      "3000-value cut-over", d["fmt"][1],
                  None if ok else {"struct": f_, "numpy": dt_,
                                   "witness": "a 64-bit-key 'uint' record holding a word >= 2^63 with fewer than 3000 values: struct decodes it as negative and "
                                              "storing it into the u8 array raises OverflowError; with >= 3000 values np.fromfile returns 2^64 - 1"},
                  key=f"C11-R1|{q}|{key}|{bits}|{f_}|{dt_}")


def r3_sibling_decoders(ctx):
    """the nonbigmat / bigmat header arithmetic is the same function of the header words in every decoder"""
    hi, lo = F.sym("hi"), F.sym("lo")
    IS = hi * 65536 + lo
    res = {}
    for q in ("OP4._rd_nonbigmat_ascii", "OP4._rd_nonbigmat_binary", "OP4._skipop4_ascii"):
        fn = M.func(ctx, q)
        inner = None
        for n in ast.walk(fn):
            if isinstance(n, ast.While) and ast.unparse(n.test).replace(" ", "") in ("elems>0", "nwords>0") and \
                    "IS" in {x.id for x in ast.walk(n) if isinstance(x, ast.Name)}:
                inner = n
        if inner is None:
            ctx.error(f"{q}: nonbigmat string loop", fn)
            continue
        cnt = ast.unparse(inner.test.left)

        def call(node, ev):
            d = dotted(node.func) or ""
            if d == "int":
                return IS
            if d == "s1" or d.endswith("read") or d.endswith("readline") or d == "put" or d.endswith("_get_ascii_block") \
                    or d in ("struct.unpack", "np.fromfile", "it.repeat"):
                return F.const(0)
            return NotImplemented

        ev = Evaluator(env={cnt: F.sym("W"), "wper": F.sym("wper"), "perline": F.sym("perline")}, src=ctx.src, call=call,
                       binop=M.int_binop({repr(lo): 16}))
        for st in inner.body:
            if isinstance(st, ast.Assign) and isinstance(st.value, ast.Subscript) and isinstance(st.value.value, ast.Call) \
                    and dotted(st.value.value.func) == "s1":
                ev.env[st.targets[0].id] = IS
                continue
            if isinstance(st, (ast.If, ast.For)):
                continue
            ev.stmt(st)
        res[q] = (ev.env, cnt, inner)
    want_L = F.fn("floordiv", hi - 1, F.sym("wper"))
    for q, (env, cnt, inner) in res.items():
        L, dec = env.get("L"), F.sym("W") - env[cnt] if not is_unknown(env.get(cnt)) else None
        ok = L is not None and not is_unknown(L) and L.equals(want_L)
        ctx.check(ok, f"{q.split('.')[1]}: values per string = ((IS >> 16) - 1) // words-per-value", inner, None if ok else repr(L))
        ok = dec is not None and dec.equals(hi)
        ctx.check(ok, f"{q.split('.')[1]}: words consumed per string = IS >> 16 (L + 1)", inner, None if ok else repr(env.get(cnt)))
        if "skip" not in q:
            r = env.get("r")
            ok = r is not None and not is_unknown(r) and r.equals(lo - 1)
            ctx.check(ok, f"{q.split('.')[1]}: first row = (low 16 bits of IS) - 1, for every row up to 65535", inner,
                      None if ok else f"{r}" + " (the ASCII and binary decoders must place the same string at the same row)",
                      key=f"C11-R3|{q}|first row")
    # bigmat siblings
    Lr, rr = F.sym("Lraw"), F.sym("rraw")
    resb = {}
    for q in ("OP4._rd_bigmat_ascii", "OP4._rd_bigmat_binary", "OP4._skipop4_ascii"):
        rd = None
        try:
            rd = M.string_reader(ctx, q, "bigmat", L_raw=Lr, r_raw=rr)
        except AnchorError:
            # the skipper has two `while elems > 0` loops; pick the one without IS
            pass
        if rd is None:
            ctx.error(f"{q}: bigmat string loop", M.func(ctx, q))
            continue
        resb[q] = rd
    for q, rd in resb.items():
        env = rd["env"]
        L, cnt = env.get("L"), env.get(rd["count"])
        ok = L is not None and not is_unknown(L) and L.equals(F.fn("floordiv", Lr - 1, F.sym("wper")))
        ctx.check(ok, f"{q.split('.')[1]}: bigmat values per string = (L_header - 1) // words-per-value", rd["loop"], None if ok else repr(L))
        ok = cnt is not None and not is_unknown(cnt) and (F.sym("W") - cnt).equals(Lr + 1)
        ctx.check(ok, f"{q.split('.')[1]}: bigmat words consumed per string = L_header + 1", rd["loop"], None if ok else repr(cnt))
        if "skip" not in q:
            r = env.get("r")
            ok = r is not None and not is_unknown(r) and r.equals(rr - 1)
            ctx.check(ok, f"{q.split('.')[1]}: bigmat first row = header row - 1", rd["loop"], None if ok else repr(r))
    # number of text lines per string: (L + perline - 1)//perline (skip) == (L - 1)//perline + 1 (read)
    sk = M.func(ctx, "OP4._skipop4_ascii")
    gb = M.func(ctx, "OP4._get_ascii_block")
    a = utext(sk).count("nlines=(L+perline-1)//perline")
    b = "nlines=(L-1)//perline+1" in utext(gb)
    ctx.check(a == 2 and b, "_skipop4_ascii skips ceil(L / perline) lines per string, the number _get_ascii_block reads ((L + p - 1)//p == (L - 1)//p + 1 for L >= 1)", sk)
    ok = utext(sk).count("nlines=(elems+perline-1)//perline") == 1
    ctx.check(ok, "_skipop4_ascii skips ceil(elems / perline) lines per dense column", sk)
    t = utext(sk)
    ok = "ifmtype&1:wper=1else:wper=2" in t.replace("\n", "")
    rd = M.func(ctx, "OP4._loadop4_ascii")
    ok = ok and "wper=1ifmtype&1else2" in utext(rd)
    ctx.check(ok, "ASCII skipper and loader derive words-per-value from the matrix type identically", sk)


def r4_read_equals_skip(ctx):
    """per physical record, a reader and its skipper advance the file by the same number of bytes"""
    b = F.sym("reclen")
    ib = F.sym("ibytes")
    # rdop2matrix: 4 (reclen) + ibytes (row) + n * bytes_per + 4 ; with n = (reclen - ibytes)//bytes_per
    fn = ctx.src.func(OP2, "OP2.rdop2matrix")
    t = utext(fn)
    ok = "reclen=self._Str4.unpack(self._fileh.read(4))[0]" in t and "r=self._Str.unpack(self._fileh.read(intsize))[0]-1" in t \
        and "n=(reclen-intsize)//bytes_per" in t and "intsize=self._ibytes" in t and "self._fileh.read(n*bytes_per)" in t \
        and "np.fromfile(self._fileh,frm,n)" in t and "self._fileh.read(4)#endrec" not in t
    ctx.check(ok, "rdop2matrix: per record reads 4 + ibytes + n*bytes_per + 4 bytes with n = (reclen - ibytes)//bytes_per (= 4 + reclen + 4 for whole values)", fn)
    sk = ctx.src.func(OP2, "OP2.skipop2matrix")
    t2 = utext(sk)
    ok = "reclen=self._Str4.unpack(self._fileh.read(4))[0]" in t2 and "self._fileh.seek(reclen,1)" in t2 and t2.count("self._fileh.read(4)") >= 2
    ctx.check(ok, "skipop2matrix: per record skips 4 + reclen + 4 bytes", sk)
    # key structure identical
    def keyskel(f):
        out = []
        for n in ast.walk(f):
            if isinstance(n, ast.Call) and dotted(n.func) in ("self._getkey", "self.rdop2eot", "self._skipkey"):
                out.append((n.lineno, dotted(n.func)))
        return [x[1] for x in sorted(out)]
    ok = keyskel(fn) == keyskel(sk)
    ctx.check(ok, "rdop2matrix and skipop2matrix read the same sequence of keys (column key, record keys, two trailing keys, end-of-table)", sk,
              {"read": keyskel(fn), "skip": keyskel(sk)})
    whiles_r = [ast.unparse(n.test) for n in ast.walk(fn) if isinstance(n, ast.While)]
    whiles_s = [ast.unparse(n.test) for n in ast.walk(sk) if isinstance(n, ast.While)]
    ctx.check(whiles_r == whiles_s, "rdop2matrix and skipop2matrix loop on the same conditions (dtype > 0, key > 0)", sk, {"read": whiles_r, "skip": whiles_s})
    # rdop2record (three loops) vs skipop2record
    fn = ctx.src.func(OP2, "OP2.rdop2record")
    loops = [n for n in ast.walk(fn) if isinstance(n, ast.While) and ast.unparse(n.test).replace(" ", "") == "key>0"]
    ctx.check(len(loops) == 3, "rdop2record: three record loops (bytes, preallocated, list)", fn, len(loops), nontrivial=False)
    for lp in loops:
        t = utext(lp)
        reads = "reclen=self._Str4.unpack(f.read(4))[0]" in t and t.count("f.read(4)") >= 2 and "key=self._getkey()" in t
        if "data.append(f.read(reclen))" in t:
            payload = True
        else:
            payload = "n=reclen//bytes_per" in t and ("f.read(b)" in t and "b=n*bytes_per" in t) and "np.fromfile(f,frm,n)" in t
        ctx.check(reads and payload, "rdop2record loop: per record 4 + reclen + 4 bytes (payload read as n = reclen // bytes_per values of bytes_per bytes)", lp)
    ok = utext(fn).count("self._skipkey(2)") == 2
    ctx.check(ok, "rdop2record: two trailing keys are skipped on both exits", fn)
    sk = ctx.src.func(OP2, "OP2.skipop2record")
    t = utext(sk)
    ok = "self._fileh.seek(reclen+4,1)" in t and "reclen=self._Str4.unpack(self._fileh.read(4))[0]" in t and "self._skipkey(2)" in t and "whilekey>0" in t
    ctx.check(ok, "skipop2record: per record 4 + (reclen + 4) bytes, then the two trailing keys", sk)
    th = ctx.src.func(OP2, "OP2.rdop2tabheaders")
    t = utext(th)
    ok = "head=Frm.unpack(self._fileh.read(3*self._ibytes))" in t and "self._fileh.seek((key-3)*self._ibytes,1)" in t and "Frm=struct.Struct(self._intstru%3)" in t
    ctx.check(ok, "rdop2tabheaders: per record 4 + 3*ibytes + (key - 3)*ibytes + 4 bytes (= 4 + key*ibytes + 4; reclen = key * ibytes)", th)
    gk = ctx.src.func(OP2, "OP2._getkey")
    t = utext(gk)
    ok = t.count("self._fileh.read(4)") == 2 and "self._Str.unpack(self._fileh.read(self._ibytes))[0]" in t
    ctx.check(ok, "_getkey: a key is 4 + ibytes + 4 bytes", gk)
    s2 = ctx.src.func(OP2, "OP2._skipkey")
    ok = "self._fileh.read(n*(8+self._ibytes))" in utext(s2)
    ctx.check(ok, "_skipkey(n): n keys of 8 + ibytes bytes", s2)
    # op4 binary skip vs read: record = 4 + reclen + 4
    sb = M.func(ctx, "OP4._skipop4_binary")
    t = utext(sb)
    ok = "reclen=self._Str_i4.unpack(self._fileh.read(4))[0]" in t and "icol=self._Str_i.unpack(self._fileh.read(bi))[0]" in t \
        and "self._fileh.seek(reclen+delta,1)" in t and "delta=4-bi" in t and "whileicol<=cols" in t
    ctx.check(ok, "_skipop4_binary: per column record 4 + bi + (reclen + 4 - bi) bytes; stops after the sentinel column cols + 1", sb)
    lb = M.func(ctx, "OP4._loadop4_binary")
    ok = "nbytes=reclen-3*self._bytes_i+4" in utext(lb)
    ctx.check(ok, "_loadop4_binary: after the sentinel header (3 words) the rest of the record and its marker are consumed", lb)


def r5_listing_equals_read(ctx):
    for q, sz in (("OP4._loadop4_ascii", "(abs(rows), cols)"), ("OP4._loadop4_binary", "(abs(rows), cols)")):
        fn = M.func(ctx, q)
        rets = [r for r in ast.walk(fn) if isinstance(r, ast.Return) and isinstance(r.value, ast.Tuple) and len(r.value.elts) == 4]
        lst = [r for r in rets if any(isinstance(a, ast.If) and ast.unparse(a.test) == "listonly" for a in ancestors(r))]
        ok = len(lst) == 1 and [ast.unparse(e) for e in lst[0].value.elts] == ["name", sz, "form", "mtype"]
        ctx.check(ok, f"{q.split('.')[1]}: a listing returns (name, (abs(rows), cols), form, mtype) from the same header fields a full read uses", fn)
        full = [r for r in rets if r not in lst and ast.unparse(r.value.elts[0]) == "name"]
        ok = len(full) == 1 and [ast.unparse(e) for e in full[0].value.elts] == ["name", "X", "form", "mtype"]
        ctx.check(ok, f"{q.split('.')[1]}: a full read returns (name, X, form, mtype) with the same name/form/type variables", fn)
        t = utext(fn)
        ok = "ifpatternlistandnamenotinpatternlist:skip=1else:skip=0" in t.replace("\n", "") and "iflistonlyorskip:" in t
        ctx.check(ok, f"{q.split('.')[1]}: a matrix is skipped exactly when listing or when its name is not in the requested list", fn)
    a = M.func(ctx, "OP4._loadop4_ascii")
    b = M.func(ctx, "OP4._loadop4_binary")
    ok = "name=self._check_name(" in ast.unparse(a) and "name=self._check_name(" in utext(b).replace("name=self._check_name(", "name=self._check_name(")
    ctx.check("self._check_name" in ast.unparse(a) and "self._check_name" in ast.unparse(b),
              "both loaders normalise names with _check_name before filtering (same names in listings, filters and reads)", a)
    for q in ("OP4.dctload", "OP4.listload", "OP4.dir"):
        fn = M.func(ctx, q)
        t = utext(fn)
        ok = "ifself._ascii:loadfunc=self._loadop4_asciielse:loadfunc=self._loadop4_binary" in t.replace("\n", "") and "ifnotname:break" in t.replace("\n", "")
        ctx.check(ok, f"{q.split('.')[1]}: iterates the same loader until it reports end of file", fn)
    # op2 directory vs rdop2matrix sizes
    d = ctx.src.func(OP2, "OP2.directory")
    t = utext(d)
    mt = ctx.src.func(OP2, "OP2.rdop2matrix")
    tm = utext(mt)
    ok = "rows=trailer[2]" in tm and "np.zeros((rows,trailer[1]),order='F')" in tm
    ctx.check(ok, "rdop2matrix allocates (trailer[2] rows, trailer[1] columns)", mt)
    ok = "trailer[2]" in t and "trailer[1]" in t
    ctx.check(ok, "directory reports matrix sizes from trailer[2] x trailer[1], the fields rdop2matrix allocates from", d)


def r6_cursor(ctx):
    """a preallocated output is filled through data[i : i + n]; the cursor must advance by that same n"""
    fn = ctx.src.func(OP2, "OP2.rdop2record")
    n = 0
    for lp in ast.walk(fn):
        if not isinstance(lp, ast.While):
            continue
        stores = [s for s in ast.walk(lp) if isinstance(s, ast.Assign) and isinstance(s.targets[0], ast.Subscript)
                  and isinstance(s.targets[0].slice, ast.Slice) and s.targets[0].slice.lower is not None and s.targets[0].slice.upper is not None]
        for s in stores:
            lo, up = s.targets[0].slice.lower, s.targets[0].slice.upper
            if not (isinstance(up, ast.BinOp) and isinstance(up.op, ast.Add) and ast.unparse(up.left) == ast.unparse(lo)):
                continue
            cur, ext = ast.unparse(lo), ast.unparse(up.right)
            incs = [a for a in ast.walk(lp) if isinstance(a, ast.AugAssign) and isinstance(a.op, ast.Add) and ast.unparse(a.target) == cur]
            n += 1
            ok = len(incs) == 1 and ast.unparse(incs[0].value) == ext
            ctx.check(ok, f"rdop2record: the write cursor `{cur}` advances by the number of values just stored (`{ext}`)", s,
                      None if ok else {"slice": ast.unparse(s.targets[0]), "increment": [ast.unparse(a) for a in incs],
                                       "consequence": "parts of a multi-part record overlap or leave gaps whenever the element size differs from the key width"})
    ctx.check(n >= 2, f"cursor rule bound to {n} slice stores", fn, nontrivial=False)
    alloc = [s for s in ast.walk(fn) if isinstance(s, ast.Assign) and ast.unparse(s.targets[0]) == "data" and "np.empty(N" in ast.unparse(s.value)]
    ok = len(alloc) == 1 and "dtype=frm" in ast.unparse(alloc[0].value).replace(" ", "")
    ctx.check(ok, "rdop2record: the preallocated output has N elements of the record's dtype", alloc[0] if alloc else fn)


RULES = [
    ("C11-R1", r1_cutover_pairs, 30),
    ("C11-R2", r2_declared_sizes, 20),
    ("C11-R3", r3_sibling_decoders, 15),
    ("C11-R4", r4_read_equals_skip, 14),
    ("C11-R5", r5_listing_equals_read, 12),
    ("C11-R6", r6_cursor, 3),
]
LEVEL = "other"
EXPLANATION = ("Static: per-variant constants are self-consistent (struct code / numpy dtype / byte count), both decoding routes at the 3000-value cut-over "
               "read the same type and count, sibling decoders share their header arithmetic (symbolic, over the whole 16-bit row range), skippers consume "
               "what readers consume, listings take sizes from the fields reads use, multi-part record cursors advance by what was stored.")
MANIFEST = {
    "text": "Partial claim decided statically: (R1) struct/fromfile pairs at every cut-over site of op4 and op2 decode the same kind, size and count for 32- and "
            "64-bit keys and every `form`; (R2) declared byte counts equal struct sizes in both key widths; (R3) nonbigmat/bigmat header arithmetic is the same "
            "function of the header words in the ASCII reader, binary reader and skipper, valid for every row below 65536; (R4) readers and skippers advance "
            "by the same bytes per record and read the same key sequence; (R5) listing = read for names, sizes, forms, types and name filtering; "
            "(R6) multi-part record cursor. Not decided: conformance to Nastran's format beyond what the repo's writer and sibling readers witness.",
    "note": "Trusted: CPython ast; struct / numpy type-code tables in verifier/c11.py; format invariant reclen = n * bytes_per (+ ibytes) for whole records.",
    "technique": "static reader/skipper/listing layout comparison; struct-format vs numpy-dtype table agreement; symbolic header arithmetic",
}
