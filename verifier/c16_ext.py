"""C16 rules R1-R3 (extrema, per-case records, maxmin / nan_arg*, SRS envelope) decided on values and effects (c16_interp)."""
from __future__ import annotations

from . import c16_mask as M
from . import c16_rows as RW
from .c16_interp import Interp, NONE, is_const, mem, op, show, free_syms, unfollowed_writes

UTIL = "pyyeti/cla/_utilities.py"
RES = "pyyeti/cla/dr_results.py"
FULL = ("slice", NONE, NONE, NONE)
COPY_CALLS = (".copy", "copy.copy", "list", "copy.deepcopy", "np.array", "np.copy")


class Agg:
    """obligations that are decided on every path of a function: one obligation per key, it holds when it holds on every path it applies to"""

    def __init__(self, ctx):
        self.ctx = ctx
        self.d = {}

    def req(self, key, ok, node=None, detail=None, fkey=None, nontrivial=True):
        e = self.d.get(key)
        if e is None:
            e = self.d[key] = [True, node, None, fkey, nontrivial, False]
        if ok is None:              # could not be decided on this path
            e[5] = True
            if e[2] is None:
                e[1], e[2] = node or e[1], detail
        elif not ok and e[0]:
            e[0], e[1], e[2] = False, node or e[1], detail
        elif e[1] is None:
            e[1] = node
        return ok

    def flush(self, default_node=None):
        for key, (ok, node, detail, fkey, nt, unk) in self.d.items():
            node = node if node is not None else default_node
            if not ok:
                self.ctx.fail(key, node, detail, key=fkey)
            elif unk:
                self.ctx.error(key, node, detail)
            else:
                self.ctx.ok(key, node, None, nt)
        n = len(self.d)
        self.d = {}
        return n


def good_paths(ctx, I, fn=None):
    """returning paths of I; the obligation that no name is read before it is bound is recorded once per rule and function"""
    import ast as _ast
    fn = fn or I.fn
    allp = I.paths()
    I.all_paths = allp
    paths = [p for p in allp if p.status == "return"]
    memo = ctx.__dict__.setdefault("_c16_unbound", set())
    assigned = set()
    for n in _ast.walk(I.fn):
        if isinstance(n, _ast.Name) and isinstance(n.ctx, _ast.Store):
            assigned.add(n.id)
        elif isinstance(n, _ast.arg):
            assigned.add(n.arg)
    never, maybe = {}, {}
    for P in paths:
        for e in P.events:
            if e.kind == "unbound":
                if e.name not in assigned:
                    never.setdefault(e.name, e.node)
                    continue
                # the path is certainly feasible when the facts assumed before the read are tests on pairwise different inputs
                syms = [free_syms(P.norm(k)) for k, _ in P.fact_order[:e.nfacts]]
                feasible = all(sy for sy in syms) and all(not (a & b) for i, a in enumerate(syms) for b in syms[i + 1:])
                (never if feasible else maybe).setdefault(e.name, e.node)
    key = (ctx.rule, I.qual)
    bad = (ctx.rule, I.qual, tuple(sorted(never)), tuple(sorted(maybe)))
    if (never or maybe) and bad in memo:
        return paths
    memo.add(bad)
    if never:
        ctx.fail(f"{I.qual}: no name is read before it is bound (NameError / UnboundLocalError)", list(never.values())[0], sorted(never),
                 key=f"{ctx.rule}|{I.qual}|unbound {sorted(never)}")
    elif maybe:
        ctx.error(f"{I.qual}: a local is read on a path that does not assign it", list(maybe.values())[0], sorted(maybe))
    elif key not in memo:
        ctx.ok(f"{I.qual}: every name read on a returning path is bound on that path", fn, None, False)
    memo.add(key)
    return paths


def params(fn, skip_self=False):
    p = [a.arg for a in fn.args.posonlyargs + fn.args.args]
    return p[1:] if skip_self and p and p[0] in ("self", "cls") else p


def fact_of(P, term):
    """truth of a (normalised) test term on the path, None when the path never tested it"""
    key, pol = P._key(term)
    r = P._fold(key)
    if r is None:
        for k, v in P.fact_order:
            if P.norm(k) == key:
                r = v
                break
    if r is None:
        return None
    return r if pol else (not r)


def escapes(P, t):
    """the object is handed to a call that was not followed (which may have done the work)"""
    for e in P.calls():
        if any(P.norm(a) == t for a in e.args) or any(P.norm(v) == t for _, v in e.kws):
            if e.name not in ("nan_argmax", "nan_argmin", "isinstance", "len"):
                return True
    # ... or a member of it / a view of a member is handed to a call that may write into it (`helper(t.mx[:, k], ...)`, `t.mx[:, k].put(...)`)
    return bool(unfollowed_writes(P, t, family=True, pure=("nan_argmax", "nan_argmin", "maxmin")))


def unabs(t):
    return (t[2], True) if t[0] == "op" and t[1] == "abs" and len(t) == 3 else (t, False)


def col_of(t, base):
    """base[:, C] -> C ;  base -> 'all' ; else None (a fresh copy of the column is the column)"""
    for _ in range(4):
        if t[0] == "new" and t[2][0] == "call" and t[2][1] in COPY_CALLS and t[2][2]:
            t = t[2][2][0]
        elif t[0] == "call" and t[1] in COPY_CALLS and len(t[2]) == 1 and not t[3]:
            t = t[2][0]
        else:
            break
    if t == base:
        return "all"
    if t[0] == "idx" and t[1] == base and t[2][0] == "tup" and len(t[2]) == 3 and t[2][1] == FULL and is_const(t[2][2]):
        return t[2][2][1]
    return None


def content_root(t):
    """what a value is a (possibly repeated) copy of"""
    for _ in range(30):
        if t[0] == "new":
            t = t[2]
        elif t[0] == "idx" and t[2][0] == "slice":
            t = t[1]
        elif t[0] == "call" and t[1] in COPY_CALLS and t[2]:
            t = t[2][0]
        elif t[0] == "op" and t[1] == "mul" and any(x[0] == "lst" and len(x) == 2 for x in t[2:]):
            t = [x for x in t[2:] if x[0] == "lst" and len(x) == 2][0][1]
        elif t[0] == "lst" and len(t) == 2 and t[1][0] == "star":
            t = t[1][1]                                         # [*x]
        elif t[0] == "call" and t[1] == "<ListComp>" and len(t[2]) == 2 and t[2][1] == ("elem", t[2][0]):
            t = t[2][0]                                         # [c for c in x]
        elif t[0] == "call" and t[1] == "<ListComp>" and len(t[2]) == 2 and t[2][0][0] == "call" and t[2][0][1] == "range" \
                and ("elem", t[2][0]) not in _subterms(t[2][1]):
            t = t[2][1]                                         # [x for _ in range(n)]
        else:
            return t
    return t


def _subterms(t, out=None):
    out = set() if out is None else out
    if isinstance(t, tuple) and t:
        out.add(t)
        for x in (t[2] + tuple(v for _, v in t[3]) if t[0] == "call" else t[1:]):
            if isinstance(x, tuple):
                _subterms(x, out)
    return out


def colcanon(t, tables):
    """one spelling for "column c of a two-dimensional table" and "rows J of that column": X[:, c] / X[J, c].  `tables` maps the (normalised)
    tables of the rule to their number of columns (None when not known).  X.T[c], np.take(X, c, axis=1), X.take(c, axis=1), X[..., c],
    a negative c, np.asarray(X), X[J][:, c], X[:, c][J], X[:, c].take(J) are rewritten; everything else is left as it is"""
    if not isinstance(t, tuple) or not t or t[0] in ("c", "s", "g", "fn"):
        return t
    if t[0] == "call":
        t = ("call", t[1], tuple(colcanon(a, tables) for a in t[2]), tuple((k, colcanon(v, tables)) for k, v in t[3]))
    else:
        t = (t[0],) + tuple(colcanon(a, tables) if isinstance(a, tuple) else a for a in t[1:])
    if t in tables:
        return t

    def cnum(c, tab):
        if is_const(c) and isinstance(c[1], int) and not isinstance(c[1], bool):
            n = tables.get(tab)
            return ("c", c[1] % n) if (c[1] < 0 and n) else (c if c[1] >= 0 else None)
        return None

    def is_rows(j):
        return j[0] not in ("tup", "slice", "c") and not (j[0] == "call" and j[1] == "slice")

    def column(x):
        """(table, c) when x is column c of a table"""
        if x[0] in ("idx", "ld") and x[1] in tables and x[2][0] == "tup" and len(x[2]) == 3 and x[2][1] == FULL and cnum(x[2][2], x[1]) is not None:
            return x[1], cnum(x[2][2], x[1])
        return None

    if t[0] == "call" and t[1] in ("np.asarray", "np.asanyarray", "np.atleast_2d", "np.ascontiguousarray") and len(t[2]) == 1 and not t[3] and t[2][0] in tables:
        return t[2][0]
    if t[0] == "call" and t[1] in ("np.take", ".take") and len(t[2]) >= 2:
        kw = dict(t[3])
        axis = t[2][2] if len(t[2]) >= 3 else kw.get("axis")
        x, j = t[2][0], t[2][1]
        if x in tables and axis in (("c", 1), ("c", -1)) and cnum(j, x) is not None and len(t[2]) + len(kw) == 3:
            return ("idx", x, ("tup", FULL, cnum(j, x)))
        col = column(x)
        if col is not None and axis in (None, ("c", 0)) and is_rows(j) and len(t[2]) + len(kw) <= 3:
            return ("idx", col[0], ("tup", j, col[1]))
    if t[0] in ("idx", "ld"):
        b, i = t[1], t[2]
        if b[0] == "attr" and b[2] == "T" and b[1] in tables:
            if cnum(i, b[1]) is not None:
                return ("idx", b[1], ("tup", FULL, cnum(i, b[1])))
            if i[0] == "tup" and len(i) == 3 and cnum(i[1], b[1]) is not None:
                return ("idx", b[1], ("tup", i[2], cnum(i[1], b[1])))
        if b in tables and i[0] == "tup" and len(i) == 3 and cnum(i[2], b) is not None and (i[1] == ("c", Ellipsis) or i[2] != cnum(i[2], b)):
            return ("idx", b, ("tup", FULL if i[1] == ("c", Ellipsis) else i[1], cnum(i[2], b)))
        col = column(b)
        if col is not None and is_rows(i):
            return ("idx", col[0], ("tup", i, col[1]))
        if b[0] in ("idx", "ld") and b[1] in tables and is_rows(b[2]) and i[0] == "tup" and len(i) == 3 and i[1] == FULL and cnum(i[2], b[1]) is not None:
            return ("idx", b[1], ("tup", b[2], cnum(i[2], b[1])))
    return t


def canon_paths(paths, tables):
    """the rules of this module read every value through P.norm: give them the canonical column spelling"""
    for P in paths:
        plain = P.norm
        P.norm = (lambda t, _d=0, _n=plain: colcanon(_n(t, _d), tables) if _d == 0 else _n(t, _d))
    return paths


UNDERSTOOD_CALLS = {"nan_argmax", "nan_argmin", ".nonzero", ".copy", "copy.copy", "list", "np.array", "np.copy", "copy.deepcopy", "np.where", "<ListComp>",
                    "range", "len", "slice", "float"}


def opaque_in(t):
    """the value contains something the rules of this module have no model of (a call that was not followed, a transposed operand)"""
    if not isinstance(t, tuple) or not t or t[0] in ("c", "s", "g", "fn"):
        return False
    if t[0] == "call":
        return t[1] not in UNDERSTOOD_CALLS or any(opaque_in(a) for a in t[2]) or any(opaque_in(v) for _, v in t[3])
    if t[0] == "attr" and t[2] in ("T", "flat", "real", "imag"):
        return True
    return any(opaque_in(a) for a in t[1:] if isinstance(a, tuple))


def soft(ok, *terms):
    """a failed comparison is a proof only when the value is written with constructs the rule understands; otherwise it is undecided"""
    if ok is False and any(opaque_in(t) for t in terms):
        return None
    return ok


def is_nan(t):
    return t in (("g", "np.nan"), ("g", "np.NaN"), ("g", "math.nan"), ("g", "nan")) or (t[0] == "call" and t[1] == "float" and t[2] == (("c", "nan"),))


def rows_mask(J):
    """the boolean mask behind a row selector: `mask.nonzero()[0]` (any spelling the interpreter lowers to it) or the mask used directly"""
    if J[0] == "idx" and J[2] in (("c", 0), ("c", -1)) and J[1][0] == "call" and J[1][1] == ".nonzero" and len(J[1][2]) == 1:
        return M.canon(J[1][2][0])
    return M.canon(J)


def same_rows(X, J):
    return X == J or rows_mask(X) == rows_mask(J)


def at_rows(v, base, J, col):
    """v is base[J, col] (rows J possibly spelled another way)"""
    return v[0] in ("idx", "ld") and v[1] == base and v[2][0] == "tup" and len(v[2]) == 3 and v[2][2] == ("c", col) and same_rows(v[2][1], J)


def selector_of(J):
    """the nan_argmax / nan_argmin call a row selector is computed from, decided by truth table (inlined masks, `operator.gt`, De Morgan
    forms are the call they equal); None when the rows are selected some other way"""
    m = rows_mask(J)
    if m[0] == "call" and m[1] in ("nan_argmax", "nan_argmin") and len(m[2]) == 2 and not m[3]:
        return m
    return None


def ext_roots(P, v):
    """memory roots of v that are not objects created on the path"""
    r, cert = mem(P, v)
    return {x for x in r if x[0] != "ref"}, {x for x in r if x[0] == "ref"}, cert


# ------------------------------------------------------------------------------------------------------------------------- R1
def _extrema(ctx, ncol):
    fn = ctx.src.func(UTIL, "extrema")
    pr = params(fn)
    if len(pr) < 5:
        raise_anchor("extrema: five parameters (curext, mm, maxcase, mincase, casenum)")
    cur, mm, mxc, mnc, cnum = pr[:5]
    pins = {("attr", ("attr", ("s", mm), "ext"), "shape"): ("tup", ("s", "<rows>"), ("c", ncol))}
    I = Interp(ctx, UTIL, "extrema", kinds={mxc: "list", mnc: "list", cnum: "scalar"}, noinline={"nan_argmax", "nan_argmin"}, pins=pins,
               cond=_some_rows)
    paths = good_paths(ctx, I)
    for P in paths:
        P.events = [_masked_store(P, e) for e in P.events]
    CUR_, MM_ = ("s", cur), ("s", mm)
    tables = {("attr", CUR_, "ext"): 2, ("attr", CUR_, "ext_x"): 2, ("attr", MM_, "ext"): ncol, ("attr", MM_, "ext_x"): ncol}
    tables.update({("attr", CUR_, x): None for x in ("mx", "mn", "mx_x", "mn_x")})
    canon_paths(paths, tables)
    return fn, I, paths, (cur, mm, mxc, mnc, cnum)


def _masked_store(P, e):
    """`T[:, c] = np.where(m, A, T[:, c])` (or `np.where(~m, T[:, c], A)`) writes A into the rows selected by m and leaves the others as they
    are: it is the masked store `T[m, c] = A[m]`, and is presented to the rules as that store"""
    from .c16_interp import Event
    if e.kind != "store" or e.aug or e.index[0] != "tup" or len(e.index) != 3 or e.index[1] != FULL:
        return e
    v = e.value
    if not (v[0] == "call" and v[1] == "np.where" and len(v[2]) == 3 and not v[3]):
        return e
    m, a, b = v[2]
    old = lambda t: t[0] in ("idx", "ld") and t[1] == e.target and t[2] == e.index  # noqa
    if old(b) and not old(a):
        new = a
    elif old(a) and not old(b) and m[0] == "op" and m[1] == "inv" and len(m) == 3:
        m, new = m[2], b
    else:
        return e
    if new[0] in ("idx", "ld") and new[2][0] == "tup" and len(new[2]) == 3 and new[2][1] == FULL:
        new = ("idx", new[1], ("tup", m, new[2][2]))            # A[:, k] at the rows m
    elif not (is_const(new) or is_nan(new)):
        new = ("idx", new, m)
    r = Event("store", **{k: getattr(e, k) for k in Event.__slots__[1:]})
    r.index, r.value = ("tup", m, e.index[2]), new
    return r


def _some_rows(key, P):
    """the rules look at the paths on which a selector picks at least one row: `j.size`, `len(j)`, `j.shape[0]`, `mask.any()`,
    `np.count_nonzero(mask)` are true there (an empty selection replaces nothing)"""
    if key[0] != "truth":
        return None
    x = key[1]
    if x[0] == "attr" and x[2] == "size":
        return True
    if x[0] == "call" and x[1] == "len" and len(x[2]) == 1 and ".nonzero" in repr(x[2][0]):
        return True
    if x[0] == "idx" and x[2] == ("c", 0) and x[1][0] == "attr" and x[1][2] == "shape" and ".nonzero" in repr(x[1][1]):
        return True
    if x[0] == "call" and x[1] in (".any", "np.any", "np.count_nonzero", ".sum", "np.sum") and len(x[2]) == 1 and not x[3]:
        try:
            return True if M.classify(P.norm(x[2][0])) is not None else None
        except M.Unknown:
            return None
    return None


def raise_anchor(msg):
    from .core import AnchorError
    raise AnchorError(msg)


def r1_roles(ctx):
    nsel = nrec = 0
    for ncol in (1, 2):
        arm = "one-column" if ncol == 1 else "two-column"
        fn, I, paths, (cur, mm, mxc, mnc, cnum) = _extrema(ctx, ncol)
        A = Agg(ctx)
        CUR, MM = ("s", cur), ("s", mm)
        EXT, EXTX = ("attr", CUR, "ext"), ("attr", CUR, "ext_x")
        MEXT, MEXTX = ("attr", MM, "ext"), ("attr", MM, "ext_x")
        t_first = op("is", EXT, NONE)
        t_nox = op("is", MEXTX, NONE)
        t_nocase = op("is", ("s", cnum), NONE)
        t_nomin = op("is", ("s", mnc), NONE)
        rec_idx = ("tup", FULL, ("s", cnum))
        nfirst = nupd = 0
        for P in paths:
            first, nox, nocase = fact_of(P, t_first), fact_of(P, t_nox), fact_of(P, t_nocase)
            evs = [(e, P.norm(e.target)) for e in P.events]
            # ---- per-case records
            recs = {}
            for e, tg in evs:
                if e.kind == "store" and tg[0] == "attr" and tg[1] == CUR and tg[2] in ("mx", "mn", "mx_x", "mn_x"):
                    recs.setdefault(tg[2], []).append(e)
            if nocase is False:
                for fld in ("mx", "mn", "mx_x", "mn_x"):
                    want_col = 0 if (ncol == 1 or fld.startswith("mx")) else 1
                    src = MEXTX if fld.endswith("_x") else MEXT
                    es = recs.get(fld, [])
                    key = f"extrema [{arm}]: `.{fld}[:, casenum]` records column {want_col} of the incoming {'abscissa' if fld.endswith('_x') else 'value'} table"
                    if len(es) != 1:
                        A.req(key, None if (not es and escapes(P, CUR)) else False, fn, f"{len(es)} stores into .{fld} on a path with casenum given")
                        continue
                    e = es[0]
                    v = P.norm(e.value)
                    ok = P.norm(e.index) == rec_idx
                    if fld.endswith("_x") and nox is True:
                        ok = ok and is_nan(v)
                    else:
                        ok = ok and col_of(v, src) == want_col
                    nrec += 1
                    A.req(key, soft(bool(ok), v, P.norm(e.index)), e.node, {"index": show(P.norm(e.index)), "value": show(v), "mm.ext_x is None": nox})
            elif nocase is True:
                A.req(f"extrema [{arm}]: no per-case record is written when casenum is None", not recs, fn, nontrivial=False)
            # ---- first case
            if first is True:
                nfirst += 1
                _first_case(A, P, arm, ncol, fn, CUR, MM, mxc, mnc, nox, fact_of(P, t_nomin))
                continue
            if first is None:
                A.req(f"extrema [{arm}]: every path decides whether this is the first case (`curext.ext is None`)", None, fn, [show(P.norm(k)) for k, _ in P.fact_order])
                continue
            # ---- compare-and-replace
            nupd += 1
            groups = []
            for e, tg in evs:
                if e.kind == "store" and tg == EXT:
                    groups.append(e)
            A.req(f"extrema [{arm}]: a later case updates the stored max column and the stored min column (two compare-and-replace blocks)",
                  True if len(groups) == 2 else (None if (len(groups) > 2 or escapes(P, CUR)) else False), fn, f"{len(groups)} stores into curext.ext",
                  nontrivial=False)
            seen_roles = set()
            unplaced = False
            for gi, e in enumerate(groups):
                ix, v = P.norm(e.index), P.norm(e.value)
                if not (ix[0] == "tup" and len(ix) == 3 and is_const(ix[2]) and ix[2][1] in (0, 1)):
                    A.req(f"extrema [{arm}]: stores into the running extrema address one column at selected rows", None, e.node, show(ix))
                    unplaced = True
                    continue
                J, role = ix[1], ix[2][1]
                rname = "max" if role == 0 else "min"
                seen_roles.add(role)
                sel = selector_of(J)
                if sel is None and J[0] == "idx" and is_const(J[2]) and J[2][1] not in (0, -1) and J[1][0] == "call" and J[1][1] == ".nonzero":
                    A.req(f"extrema [{arm}]: the replaced rows are element 0 of .nonzero() of the (1-D) selector mask", False, e.node, show(J))
                    continue
                if sel is None:
                    A.req(f"extrema [{arm}]: the rows of the {rname} column that get replaced come from nan_argmax / nan_argmin(...).nonzero()[0]", None,
                          e.node, show(J))
                    continue
                nsel += 1
                want_b = 0 if ncol == 1 else role
                A.req(f"extrema [{arm}]: the stored {rname} column is updated through {'nan_argmax' if role == 0 else 'nan_argmin'}",
                      sel[1] == ("nan_argmax" if role == 0 else "nan_argmin"), e.node, sel[1])
                a_, a_abs = unabs(sel[2][0])
                b_, b_abs = unabs(sel[2][1])
                a_col, b_col = col_of(a_, EXT), col_of(b_, MEXT)
                ok = a_col == role
                A.req(f"extrema [{arm}]: the rows of the stored {rname} column that get replaced are selected by comparing against that column only "
                      f"(`curext.ext[:, {role}]`)", soft(ok, a_), e.node,
                      None if ok else f"selector compares against {'both stored columns (broadcast)' if a_col == 'all' else show(a_)}: a new value that beats only the "
                                      f"stored {'min' if role == 0 else 'max'} also overwrites the stored {rname}; witness: one row, cases 5, 3, 4 -> stored extreme 4, true maximum 5 lost",
                      fkey=f"C16-R1|extrema|{arm}|{rname} selector reads column {a_col}")
                okb = b_col == want_b or (ncol == 1 and b_col == "all")
                A.req(f"extrema [{arm}]: the {rname} selector reads column {want_b} of the incoming data", soft(okb, b_), e.node, show(b_))
                if ncol == 1:
                    A.req(f"extrema [one-column]: the {rname} comparison is on absolute values (sign kept on store)", soft(a_abs and b_abs, a_, b_), e.node,
                          show(sel))
                else:
                    A.req(f"extrema [two-column]: the {rname} comparison is on signed values", not a_abs and not b_abs, e.node, show(sel))
                ok = at_rows(v, MEXT, J, want_b)
                A.req(f"extrema [{arm}]: the stored {rname} value is column {want_b} of the incoming data at the same rows", soft(ok, v), e.node, show(v))
                # labels
                lab = [(x, tg) for x, tg in evs if x.kind == "store" and tg[0] == "attr" and tg[1] == CUR and tg[2] in ("maxcase", "mincase")
                       and P.norm(x.index)[0] == "elem" and same_rows(P.norm(x.index)[1], J)]
                want_attr = "maxcase" if role == 0 else "mincase"
                if len(lab) != 1:
                    A.req(f"extrema [{arm}]: the {rname} update relabels {want_attr} at the replaced rows", None if not lab else False, e.node,
                          f"{len(lab)} label stores indexed by the selected rows")
                else:
                    x, tg = lab[0]
                    A.req(f"extrema [{arm}]: the {rname} update relabels {want_attr} at the replaced rows", tg[2] == want_attr, x.node, tg[2])
                    lv = P.norm(x.value)
                    nomin = fact_of(P, t_nomin)
                    want_src = mxc if (role == 0 or ncol == 1 or nomin is True) else mnc
                    ok = lv[0] == "idx" and lv[2] == P.norm(x.index) and content_root(lv[1]) == ("s", want_src)
                    A.req(f"extrema [{arm}]: the label for the {rname} update is the incoming "
                          f"{'maxcase' if (role == 0 or ncol == 1) else 'mincase (maxcase when mincase is None)'} label of the same row", soft(ok, lv), x.node, show(lv))
                # abscissa: the store into the abscissa table at the same rows (matched by the row selector, not by statement order); when
                # the running table has no abscissae yet the whole incoming table is taken over (a fresh copy)
                key = f"extrema [{arm}]: the abscissa of the {rname} is moved with it (column {want_b} of mm.ext_x into column {role} of curext.ext_x at the same rows)"
                cur_x = fact_of(P, op("is", EXTX, NONE))
                sets = [(x, tg) for x, tg in evs if x.kind == "setattr" and tg == CUR and x.name == "ext_x"]
                xs = [(x, tg) for x, tg in evs if x.kind == "store" and (tg == EXTX or (tg[0] == "new" and content_root(tg) == MEXTX))
                      and P.norm(x.index)[0] == "tup" and len(P.norm(x.index)) == 3 and same_rows(P.norm(x.index)[1], J)]
                for x, tg in sets:
                    xv = P.norm(x.value)
                    ok = (xv == NONE and cur_x is True) or (nox is False and cur_x is True and content_root(xv) == MEXTX)
                    A.req(f"extrema [{arm}]: an abscissa table is created on a later case only when there was none, from the incoming one", ok, x.node, show(xv))
                    er, _, cert = ext_roots(P, x.value)
                    A.req(f"extrema [{arm}]: an abscissa table created on a later case is a copy of mm.ext_x, not the contributor's array", not er, x.node,
                          sorted(show(r) for r in er))
                if not xs:
                    # a path that never asks `curext.ext_x is None` stands for both worlds of that test (the running table may well hold the
                    # abscissae of an earlier case): with a contributor that has no abscissae the replaced rows must be marked unknown (NaN),
                    # otherwise value and label belong to the new case and the abscissa to the one it replaced (an early `return` /
                    # a guarded call that skips the store is "no store", not "nothing to do")
                    stale = nox is True and cur_x is not True
                    need = (nox is False and not (cur_x is True and sets)) or stale
                    detail = "no update of curext.ext_x at the replaced rows"
                    if stale:
                        detail += (": mm.ext_x is None and curext.ext_x holds the abscissae of earlier cases; value and case label of the rows are "
                                   "replaced, the abscissa of the previous case is kept (must become NaN)")
                    A.req(key, (None if escapes(P, CUR) else False) if need else True, e.node, detail)
                else:
                    x, tg = xs[0]
                    xi, xv = P.norm(x.index), P.norm(x.value)
                    ok = xi[2] == ("c", role) and len(xs) == 1
                    if nox is True:
                        ok = ok and is_nan(xv)
                    else:
                        ok = ok and at_rows(xv, MEXTX, J, want_b)
                    A.req(key, soft(bool(ok), xi, xv), x.node, {"index": show(xi), "value": show(xv)})
            if len(groups) == 2:
                A.req(f"extrema [{arm}]: one block updates the max column, the other the min column",
                      None if (unplaced and seen_roles != {0, 1}) else seen_roles == {0, 1}, fn, sorted(seen_roles))
        A.req(f"extrema [{arm}]: rule bound to first-case paths and to later-case paths", nfirst > 0 and nupd > 0, fn, {"first": nfirst, "later": nupd},
              nontrivial=False)
        A.flush(fn)
    fn = ctx.src.func(UTIL, "extrema")
    msg = f"extrema: rule bound to {nsel} selector evaluations and {nrec} per-case record stores over all paths"
    if nsel >= 8 and nrec >= 16:
        ctx.ok(msg, fn, None, False)
    else:
        ctx.error(msg, fn, "the compare-and-replace blocks were not recognised")
    _store_maxmin(ctx)
    _frf_minus(ctx)


def _first_case(A, P, arm, ncol, fn, CUR, MM, mxc, mnc, nox, nomin):
    MEXT, MEXTX = ("attr", MM, "ext"), ("attr", MM, "ext_x")
    last = {}
    for e in P.events:
        if e.kind == "setattr" and P.norm(e.target) == CUR:
            last[e.name] = e
    vals = {}
    for fld in ("ext", "ext_x", "maxcase", "mincase"):
        e = last.get(fld)
        if e is None:
            A.req(f"extrema [{arm}]: the first case sets curext.{fld}", False, fn, "no assignment on a first-case path")
            continue
        vals[fld] = e
    if len(vals) < 4:
        return
    v = {k: P.norm(e.value) for k, e in vals.items()}
    if ncol == 1:
        dup = ("lst", ("lst", ("c", 1), ("c", 1)))

        def doubled(t, src):
            if t in (("op", "matmul", src, dup), ("op", "matmul", src, ("tup", ("tup", ("c", 1), ("c", 1))))):
                return True
            if t[0] == "new":
                t = t[2]
            col = (src, ("idx", src, ("tup", FULL, ("c", 0))))
            if t[0] == "call" and t[1] in ("np.hstack", "np.column_stack") and len(t[2]) == 1 and t[2][0][0] in ("tup", "lst") and len(t[2][0]) == 3:
                return t[2][0][1] in col and t[2][0][2] in col
            if t[0] == "call" and t[1] in ("np.repeat",) and t[2][:2] == (src, ("c", 2)) and (t[2][2:] == (("c", 1),) or t[3] == (("axis", ("c", 1)),)):
                return True
            if t[0] == "call" and t[1] == "np.tile" and t[2] == (src, ("tup", ("c", 1), ("c", 2))):
                return True
            return False

        ok = doubled(v["ext"], MEXT)
        A.req("extrema [one-column]: the first case fills both columns of the running extrema with the single incoming column",
              ok if ok or content_root(v["ext"]) != MEXT else None, vals["ext"].node, show(v["ext"]))
        if nox is True:
            ok = v["ext_x"] == NONE
        else:
            ok = doubled(v["ext_x"], MEXTX)
            if not ok and content_root(v["ext_x"]) == MEXTX and v["ext_x"] != MEXTX:
                ok = None
        A.req("extrema [one-column]: the first case fills both abscissa columns from the single incoming abscissa column (None when there is none)", ok,
              vals["ext_x"].node, show(v["ext_x"]))
    else:
        A.req("extrema [two-column]: the first case takes the incoming table as the running extrema", soft(content_root(v["ext"]) == MEXT, content_root(v["ext"])), vals["ext"].node,
              show(v["ext"]))
        A.req("extrema [two-column]: the first case takes the incoming abscissa table (None when there is none)",
              soft(content_root(v["ext_x"]) == MEXTX or (nox is True and v["ext_x"] == NONE), content_root(v["ext_x"])), vals["ext_x"].node, show(v["ext_x"]))
    A.req(f"extrema [{arm}]: the first case labels every max with the incoming maxcase", soft(content_root(v["maxcase"]) == ("s", mxc), content_root(v["maxcase"])), vals["maxcase"].node,
          show(v["maxcase"]))
    want = mxc if (ncol == 1 or nomin is True) else mnc
    A.req(f"extrema [{arm}]: the first case labels every min with the incoming {'maxcase' if ncol == 1 else 'mincase (maxcase when mincase is None)'}",
          soft(content_root(v["mincase"]) == ("s", want), content_root(v["mincase"])), vals["mincase"].node, show(v["mincase"]))
    # effects: what is stored is later updated in place (compare-and-replace), so it must not share storage with anything of the contributor
    # nor the label lists with each other
    fresh = {}
    for fld, e in vals.items():
        er, fr_, cert = ext_roots(P, e.value)
        what = {"ext": "value table", "ext_x": "abscissa table", "maxcase": "max label list", "mincase": "min label list"}[fld]
        A.req(f"extrema [{arm}]: the {what} stored on the first case is a fresh copy (later cases update it in place; it must not alias the contributor's)",
              (not er) if cert or er else None, e.node,
              f"curext.{fld} shares storage with {', '.join(sorted(show(r) for r in er))}: the next compare-and-replace writes into the first contributor's data"
              if er else "cannot tell whether the value is a view", fkey=f"C16-R1|extrema|{arm}|first-case {fld} aliases input")
        fresh[fld] = fr_
    for a_, b_ in (("maxcase", "mincase"), ("ext", "ext_x")):
        if a_ in fresh and b_ in fresh:
            A.req(f"extrema [{arm}]: curext.{a_} and curext.{b_} stored on the first case are distinct objects", not (fresh[a_] & fresh[b_]), vals[b_].node,
                  f"both are {show(P.norm(vals[b_].value))}")


def _store_maxmin(ctx):
    fn = ctx.src.func(RES, "DR_Results._store_maxmin")
    pr = params(fn, True)
    if len(pr) < 4:
        raise_anchor("_store_maxmin(self, res, mm, j, case)")
    res, mm, j, case = pr[:4]
    I = Interp(ctx, RES, "DR_Results._store_maxmin")
    paths = good_paths(ctx, I)
    A = Agg(ctx)
    R, M = ("s", res), ("s", mm)
    canon_paths(paths, {("attr", M, "ext"): 2, ("attr", M, "ext_x"): 2})
    want = {"mx": ("ext", 0), "mx_x": ("ext_x", 0), "mn": ("ext", 1), "mn_x": ("ext_x", 1)}
    A.req("_store_maxmin: a path on which the case is new records it", bool(paths), fn, nontrivial=False)
    for P in paths:
        seen = {}
        for e in P.stores():
            tg = P.norm(e.target)
            if tg[0] == "attr" and tg[1] == R and tg[2] in want:
                seen.setdefault(tg[2], []).append(e)
        for fld, (src, col) in want.items():
            key = f"_store_maxmin: `.{fld}[:, j]` records column {col} of mm.{src}"
            es = seen.get(fld, [])
            if len(es) != 1:
                A.req(key, None if (not es and escapes(P, R)) else False, fn, f"{len(es)} stores")
                continue
            e = es[0]
            ok = P.norm(e.index) == ("tup", FULL, ("s", j)) and col_of(P.norm(e.value), ("attr", M, src)) == col
            A.req(key, soft(ok, P.norm(e.index), P.norm(e.value)), e.node, {"index": show(P.norm(e.index)), "value": show(P.norm(e.value))})
        cs = [e for e in P.stores() if P.norm(e.target) == ("attr", R, "cases")]
        ok = len(cs) == 1 and P.norm(cs[0].index) == ("s", j) and P.norm(cs[0].value) == ("s", case)
        A.req("_store_maxmin: the case label goes to the same slot j", ok, cs[0].node if cs else fn)
    A.flush(fn)


def _quiet(key, P):
    """progress printing is not part of the property"""
    k = key[1] if key[0] == "truth" else (key[2] if key[0] == "op" and key[1] in ("gt", "ge") else None)
    if k is not None and k[0] == "s" and k[1] == "verbose":
        return False
    if key[0] == "op" and key[1] in ("gt", "ge") and any(x == ("s", "verbose") for x in key[2:]):
        return False
    return None


def _recovery(ctx, q):
    cur = params(ctx.src.func(UTIL, "extrema"))[:1]
    I = Interp(ctx, RES, f"DR_Results.{q}", cond=_quiet, noinline={"_compute_srs", "_init_results_cat", "_store_maxmin", "_init_mxmn"},
               mutators={"extrema": [0] + cur})
    return ctx.src.func(RES, f"DR_Results.{q}"), good_paths(ctx, I)


def _frf_minus(ctx):
    fn, paths = _recovery(ctx, "frf_data_recovery")
    A = Agg(ctx)
    key = "frf_data_recovery: the table given to extrema() is max |resp| with its abscissa, and its min column is minus that maximum at the same abscissa"
    A.req(key, bool(paths), fn)
    for P in paths:
        ex = P.calls("extrema")
        if len(ex) != 1 or len(ex[0].args) + len(ex[0].kws) < 3:
            A.req(key, None, fn, f"{len(ex)} calls of extrema")
            continue
        kw = dict(ex[0].kws)
        mmv = ex[0].args[1] if len(ex[0].args) > 1 else kw.get("mm")
        mmn = P.norm(mmv) if mmv is not None else None
        ok = mmn is not None and mmn[0] == "call" and mmn[1] == "maxmin"
        if ok:
            a0 = mmn[2][0] if mmn[2] else dict(mmn[3]).get("response")
            ok = a0 is not None and a0[0] == "op" and a0[1] == "abs"
        E, EX = ("attr", mmn, "ext"), ("attr", mmn, "ext_x")
        c0, c1 = ("tup", FULL, ("c", 0)), ("tup", FULL, ("c", 1))
        canon_paths([P], {E: 2, EX: 2})
        # what the two tables hold when extrema() is called: the stores are replayed in order (a value that reads a region written before
        # is the value written there), so one assignment or several steps (copy the column, then negate it in place) are the same thing
        final = {}
        for e in P.stores():
            if e.seq >= ex[0].seq:
                continue
            t, i, v = P.norm(e.target), P.norm(e.index), P.norm(e.value)
            if t in (E, EX):
                final[(t, i)] = _signed(_replay(v, final))
        blind = bool(unfollowed_writes(P, mmv, family=True)) if mmv is not None else True

        def col1(tab, sign):
            """True: column 1 of the table is sign * column 0; False: it is provably something else (another column / sign of the same tables,
            a constant, or never written); None: a value the rule does not understand"""
            got = final.get((tab, c1))
            if got is None:
                return None if blind else False
            if got == (sign, ("idx", tab, c0)):
                return True
            core = got[1]
            if is_const(core) or (core[0] in ("idx", "ld") and core[1] in (E, EX)):
                return False
            return None

        ok1, ok2 = col1(E, -1), col1(EX, 1)
        other = [k for k in final if k not in ((E, c1), (EX, c1))]
        verdict = False if (not ok or ok1 is False or ok2 is False) else (None if (ok1 is None or ok2 is None or other) else True)
        A.req(key, verdict, ex[0].node, {"mm": show(mmn), "min column": ok1, "min abscissa": ok2,
                                          "other stores": [show(k[0]) + "[" + show(k[1]) + "]" for k in other]})
    A.flush(fn)


def _replay(v, final):
    """v with every read of a region written before replaced by what was written there"""
    if not isinstance(v, tuple) or not v:
        return v
    if v[0] in ("idx", "ld") and (v[1], v[2]) in final:
        sg, core = final[(v[1], v[2])]
        return core if sg == 1 else op("neg", core)
    if v[0] in ("c", "s", "g", "fn"):
        return v
    if v[0] == "call":
        return ("call", v[1], tuple(_replay(x, final) for x in v[2]), tuple((k, _replay(x, final)) for k, x in v[3]))
    return (v[0],) + tuple(_replay(x, final) if isinstance(x, tuple) else x for x in v[1:])


def _signed(v):
    """(sign, core): -x, x * -1, -1 * x, 0 - x, -(-x) are one value"""
    sg = 1
    for _ in range(8):
        if v[0] == "op" and v[1] == "neg" and len(v) == 3:
            sg, v = -sg, v[2]
        elif v[0] == "op" and v[1] in ("mul", "div") and len(v) == 4 and v[3] in (("c", -1), ("c", -1.0)):
            sg, v = -sg, v[2]
        elif v[0] == "op" and v[1] == "mul" and len(v) == 4 and v[2] in (("c", -1), ("c", -1.0)):
            sg, v = -sg, v[3]
        elif v[0] == "op" and v[1] in ("mul", "div") and len(v) == 4 and v[3] in (("c", 1), ("c", 1.0)):
            v = v[2]
        elif v[0] == "op" and v[1] == "mul" and len(v) == 4 and v[2] in (("c", 1), ("c", 1.0)):
            v = v[3]
        elif v[0] == "op" and v[1] == "add" and len(v) == 4 and (("c", 0) in v[2:] or ("c", 0.0) in v[2:]):
            v = v[3] if v[2] in (("c", 0), ("c", 0.0)) else v[2]
        elif v[0] == "op" and v[1] == "sub" and len(v) == 4 and v[2] in (("c", 0), ("c", 0.0)):
            sg, v = -sg, v[3]
        else:
            break
    return sg, v


# ------------------------------------------------------------------------------------------------------------------------- R2
def r2_mirror(ctx):
    # nan_argmax / nan_argmin: the returned mask equals the documented one in every feasible world of an element pair (c16_mask): spelling,
    # helper functions and comparison functions passed as values do not matter
    tabs = {}
    for q in ("nan_argmax", "nan_argmin"):
        fn = ctx.src.func(UTIL, q)
        v1, v2 = params(fn)[:2]
        I = Interp(ctx, UTIL, q)
        paths = good_paths(ctx, I)
        cmp_ = ">" if q == "nan_argmax" else "<"
        got = [P.norm(P.ret) for P in paths]
        ok = True if got else None
        det = None
        tabs[q] = None
        for g in got:
            try:
                tab = M.table(g, ("s", v1), ("s", v2))
            except M.Unknown as ex:
                ok, det = None, {"returns": show(g), "not understood": str(ex)}
                break
            tabs[q] = tab if tabs[q] in (None, tab) else False
            if tab != M.documented(q):
                worlds = [f"{'v1 ' + {'lt': '<', 'eq': '==', 'gt': '>'}[r] + ' v2' if r != 'un' else 'NaN: ' + ('v1 ' if a else '') + ('v2' if b else '')}: "
                          f"{t} (documented {d})" for (r, a, b), t, d in zip(M.WORLDS, tab, M.documented(q)) if t != d]
                ok, det = False, {"returns": show(g), "differs where": worlds}
                break
        msg = f"{q}: (v2 {cmp_} v1) | (isnan(v1) & ~isnan(v2)) (a NaN is replaced by any number, never the reverse)"
        if ok is None:
            ctx.error(msg, fn, det or "no returning path")
        else:
            ctx.check(ok, msg, fn, det)
    # mirror: the two functions differ only in the direction of the comparison
    ta, tb = tabs["nan_argmax"], tabs["nan_argmin"]
    msg = "nan_argmax / nan_argmin are mirror images (`>` <-> `<`, same NaN rule)"
    if not ta or not tb:
        (ctx.error if (ta is None or tb is None) else ctx.fail)(msg, ctx.src.func(UTIL, "nan_argmin"), "a mask is not the same on every path" if (ta is False or tb is False) else "a mask could not be evaluated")
    else:
        ctx.check(M.mirror(ta) == tb, msg, ctx.src.func(UTIL, "nan_argmin"), None if M.mirror(ta) == tb else {"max": ta, "min": tb})
    # nan_absmax
    fn = ctx.src.func(UTIL, "nan_absmax")
    v1, v2 = params(fn)[:2]
    I = Interp(ctx, UTIL, "nan_absmax", noinline={"nan_argmax"})
    paths = good_paths(ctx, I)
    ok = True if paths else None
    det = None
    V1, V2 = ("s", v1), ("s", v2)
    pv = ("call", "nan_argmax", (op("abs", V1), op("abs", V2)), ())
    for P in paths:
        r = P.ret
        if not (r[0] == "tup" and len(r) == 3):
            ok, det = None, show(P.norm(r))
            break
        amx = r[1]
        mask = M.canon(P.norm(r[2]))
        st = [e for e in P.stores() if e.target == amx] if P.obj(amx) is not None else []
        if mask != pv:
            # another selector, or another decidable mask, is a different function; anything else is not understood
            known = mask[0] == "call" and mask[1] in ("nan_argmax", "nan_argmin")
            if not known:
                try:
                    known = M.classify(mask) is None
                except M.Unknown:
                    known = False
            good = False if known else None
        elif P.obj(amx) is not None and content_root(P.norm(amx)) == V1 and len(st) == 1:
            good = M.canon(P.norm(st[0].index)) == pv and M.canon(P.norm(st[0].value)) == ("idx", V2, pv)
        elif M.canon(P.norm(amx)) in (("call", "np.where", (pv, V2, V1), ()), ("call", "np.where", (op("inv", pv), V1, V2), ())):
            good = True
        else:
            w = M.canon(P.norm(amx))
            wrong_where = w[0] == "call" and w[1] == "np.where" and len(w[2]) == 3 and w[2][0] in (pv, op("inv", pv)) and set(w[2][1:]) <= {V1, V2}
            good = False if (wrong_where or (P.obj(amx) is not None and content_root(P.norm(amx)) == V1 and not unfollowed_writes(P, amx))) else None
        if good is not True:
            ok = good if ok is not False else ok
            det = {"returns": show(P.norm(r)), "stores": [(show(P.norm(e.index)), show(P.norm(e.value))) for e in st]}
            if good is False:
                break
    msg = "nan_absmax: a copy of v1 with v2 where |v2| > |v1| (nan_argmax of the absolute values), sign kept; the mask is returned with it"
    if ok is None:
        ctx.error(msg, fn, det or "no returning path")
    else:
        ctx.check(ok, msg, fn, det)
    _maxmin(ctx)
    # the two selectors of each arm of extrema are each other's mirror image
    for ncol in (1, 2):
        arm = "one" if ncol == 1 else "two"
        fn, I, paths, (cur, mm, mxc, mnc, cnum) = _extrema(ctx, ncol)
        EXT = ("attr", ("s", cur), "ext")
        A = Agg(ctx)
        key = f"extrema [{arm}-column]: the min selector is the mirror image of the max selector"
        n = 0
        for P in paths:
            sels = {}
            found = [selector_of(P.norm(e.index)[1]) for e in P.stores() if P.norm(e.target) == EXT and P.norm(e.index)[0] == "tup"
                     and len(P.norm(e.index)) == 3]
            found += [M.canon(P.norm(e.value)) for e in P.calls("nan_argmax", "nan_argmin")]
            for sv in found:
                if sv is not None and sv not in sels.setdefault(sv[1], []):
                    sels[sv[1]].append(sv)
            if not sels:
                continue
            n += 1
            if sorted(sels) != ["nan_argmax", "nan_argmin"] or any(len(v) != 1 for v in sels.values()):
                A.req(key, None, fn, {k: [show(x) for x in v] for k, v in sels.items()})
                continue
            mx, mn = sels["nan_argmax"][0], sels["nan_argmin"][0]

            def mir(t):
                if not isinstance(t, tuple):
                    return t
                if t[0] == "call" and t[1] == "nan_argmax":
                    return ("call", "nan_argmin", tuple(mir(x) for x in t[2]), t[3])
                if t[0] == "idx" and t[2][0] == "tup" and len(t[2]) == 3 and is_const(t[2][2]) and t[2][2][1] in (0, 1) and \
                        (t[1] == EXT or ncol == 2):
                    return ("idx", t[1], ("tup", t[2][1], ("c", 1 - t[2][2][1])))
                return tuple(mir(x) if isinstance(x, tuple) else x for x in t)

            ok = mir(mx) == mn
            A.req(key, ok, fn, None if ok else {"max": show(mx), "min": show(mn), "mirror of max": show(mir(mx))})
        A.req(key, n > 0, fn)
        A.flush(fn)


def _maxmin(ctx):
    """every row with a valid sample gets its own NaN-aware extremes and their abscissae: decided per row world (c16_rows) - a row of numbers,
    a row with NaNs and numbers - so that argmax spellings, tables built in several steps, np.where / masked stores (rows without a valid
    sample carried through as NaN) are values, and a mask that is true for a row with a valid sample makes the result provably wrong"""
    fn = ctx.src.func(UTIL, "maxmin")
    resp, x = params(fn)[:2]
    I = Interp(ctx, UTIL, "maxmin", loadevents=True)
    paths = good_paths(ctx, I)
    A = Agg(ctx)
    A.req("maxmin: a path returns the table", bool(paths), fn, nontrivial=False)
    R, X = ("s", resp), ("s", x)
    k_tab = "maxmin: .ext and .ext_x are two-column tables (max, min)"
    seen = set()
    for P in paths:
        ext, ext_x = P.field(P.ret, "ext"), P.field(P.ret, "ext_x")
        for w in (RW.NUM, RW.MIX):
            try:
                E = RW.RowEval(P, R, X, w)
                if not E.feasible():
                    continue            # a test on the whole matrix made on this path excludes such rows
                te, tx = E.table(ext), E.table(ext_x)
            except RW.Unknown as ex:
                A.req(k_tab, None, fn, {"not understood": str(ex), "ext": show(P.norm(ext))[:300], "ext_x": show(P.norm(ext_x))[:300]})
                seen.add(w)
                continue
            seen.add(w)
            for role in (0, 1):
                rn, nanarg = (("max", "np.nanargmax"), ("min", "np.nanargmin"))[role]
                a, v = tx[1 + role], te[1 + role]
                det = {"for": RW.WORLD_TEXT[w], "value": _rowtext(v), "abscissa": _rowtext(a)}
                if E.hits:
                    det["row replaced / overwritten because this mask is true for such a row"] = sorted({m + " -> " + c for m, c in E.hits})
                A.req(f"maxmin: the abscissa of the row {rn} is `x` at {nanarg}(response, axis=1) - NaN-aware, first occurrence on ties", a == ("x", rn), fn, det)
                want = a[1] if a[0] == "x" else rn
                A.req(f"maxmin: column {role} of .ext is the response at the position whose abscissa is reported ({rn})", v == ("val", want), fn, det)
    if paths and seen != {RW.NUM, RW.MIX}:
        A.req("maxmin: a returning path accepts rows of numbers and rows with NaN samples", None, fn, sorted(seen))
    A.flush(fn)


def _rowtext(v):
    if v[0] == "val":
        return f"the row's NaN-aware {v[1]}"
    if v[0] == "x":
        return f"x at the position of the row's NaN-aware {v[1]}"
    if v[0] == "const":
        return f"the constant {v[1]}"
    if v[0] == "bad":
        return v[1]
    return str(v)


# ------------------------------------------------------------------------------------------------------------------------- R3
def _get_as_item(t):
    """`d.get(k)` is `d[k]` wherever the entry exists (where it does not, `d[k]` raises and np.fmax(None, x) raises): one value"""
    if not isinstance(t, tuple) or not t or t[0] in ("c", "s", "g", "fn"):
        return t
    if t[0] == "call":
        a = tuple(_get_as_item(x) for x in t[2])
        if t[1] == ".get" and len(a) == 2 and not t[3]:
            return ("idx", a[0], a[1])
        return ("call", t[1], a, tuple((k, _get_as_item(x)) for k, x in t[3]))
    return (t[0],) + tuple(_get_as_item(x) if isinstance(x, tuple) else x for x in t[1:])


def r3_envelope(ctx):
    fn = ctx.src.func(RES, "DR_Results._compute_srs")
    pr = params(fn, True)
    if len(pr) < 7:
        raise_anchor("_compute_srs(self, res, dr, resp, respname, x, j, first, ...)")
    res, j, first = pr[0], pr[5], pr[6]
    I = Interp(ctx, RES, "DR_Results._compute_srs", kinds={j: "scalar", first: "scalar"})
    paths = good_paths(ctx, I)
    A = Agg(ctx)
    SRS = ("attr", ("s", res), "srs")
    ENV, PER = ("attr", SRS, "ext"), ("attr", SRS, "srs")
    n = {True: 0, False: 0}
    k_first = "_compute_srs: on the first case the envelope is the current spectrum"
    k_later = "_compute_srs: otherwise the envelope is max(old envelope, current spectrum) - a running maximum"
    k_j = "_compute_srs: the envelope value does not depend on the case slot index `j` (cases may be processed in any order)"
    k_slot = "_compute_srs: the per-case spectrum goes to slot j"
    for P in paths:
        env = [e for e in P.stores() if P.norm(e.target) == ENV]
        per = [e for e in P.stores() if P.norm(e.target)[:2] == ("idx", PER)]
        if not env:
            blind = unfollowed_writes(P, ("s", res), family=True)
            A.req("_compute_srs: every path that computes a spectrum updates res.srs.ext[q]", False if (per and not blind) else None, fn,
                  [show(P.norm(k)) for k, _ in P.fact_order])
            continue
        f = fact_of(P, ("s", first))
        for e in env:
            q = P.norm(e.index)
            v = _get_as_item(P.norm(e.value))
            mine = [x for x in per if P.norm(x.target) == ("idx", PER, q)]
            ok = len(mine) == 1 and P.norm(mine[0].index) == ("s", j)
            A.req(k_slot, ok, mine[0].node if mine else e.node, [show(P.norm(x.target)) + "[" + show(P.norm(x.index)) + "]" for x in per])
            if not ok:
                continue
            cur = P.norm(mine[0].value)
            names = free_syms(v) - free_syms(cur)
            okj = j not in names
            A.req(k_j, okj, e.node, None if okj else f"`{show(v)}` reads slots by position: with out-of-order processing the unfilled slots are zeros and filled "
                                                     "higher slots are dropped")
            if f is True:
                n[True] += 1
                okf = v == cur or content_root(v) == cur
                if not okf:
                    # provably not "the current spectrum": it is combined with something (a maximum / minimum), or it is not used at all;
                    # any other construction around it is not understood
                    combined = v[0] == "call" and v[1] in ("np.fmax", "np.maximum", "np.fmin", "np.minimum", "min", "max", "np.nanmax", "np.nanmin")
                    okf = False if (combined or cur not in _subterms(v)) else None
                A.req(k_first, okf, e.node, show(v))
            elif f is False:
                n[False] += 1
                old = ("idx", ENV, q)
                ok = v[0] == "call" and v[1] in ("np.fmax", "np.maximum") and not v[3] and sorted(v[2], key=repr) == sorted((old, cur), key=repr)
                if not ok:
                    # provably not the running maximum: the old envelope or the current spectrum is not used, or a minimum is taken;
                    # any other construction is not understood (analysis error, not a violation)
                    sub = _subterms(v)
                    wrong = old not in sub or cur not in sub or (v[0] == "call" and not v[3] and v[1] in ("np.fmin", "np.minimum", "np.fmax", "np.maximum",
                                                                                                           "min", "max", "np.nanmin", "np.nanmax"))
                    ok = False if wrong else None
                A.req(k_later, ok, e.node, show(v))
            else:
                A.req("_compute_srs: the envelope update is chosen by the `first` flag", None, e.node, [show(P.norm(k)) for k, _ in P.fact_order])
    A.req("_compute_srs: rule bound to first-case and later-case paths", True if (n[True] > 0 and n[False] > 0) else None, fn, n, nontrivial=False)
    A.flush(fn)
    cs = ctx.src.func(RES, "DR_Results._compute_srs")
    pcs = params(cs, True)
    pos_first = 6
    for q in ("time_data_recovery", "frf_data_recovery"):
        f2, paths = _recovery(ctx, q)
        A = Agg(ctx)
        k1 = f"{q}: the `first` flag given to _compute_srs is `res.ext is None` evaluated before extrema() fills res.ext"
        nb = 0
        for P in paths:
            cc = P.calls("self._compute_srs")
            ex = P.calls("extrema")
            if not cc:
                continue
            nb += 1
            if len(ex) != 1 or len(cc) != 1:
                A.req(k1, None, f2, f"{len(ex)} extrema calls, {len(cc)} _compute_srs calls")
                continue
            c = cc[0]
            kw = dict(c.kws)
            fv = c.args[pos_first] if len(c.args) > pos_first else kw.get(pcs[pos_first])
            resv = ex[0].args[0] if ex[0].args else dict(ex[0].kws).get("curext")
            if fv is None or resv is None:
                A.req(k1, None, c.node, "argument not found")
                continue
            fv = P.norm(fv)
            want = op("is", ("attr", P.norm(resv), "ext"), NONE)
            if is_const(fv):
                # the flag was decided on the path: it is the fact `res.ext is None`
                ok = fact_of(P, want) is fv[1] if fact_of(P, want) is not None else None
            else:
                ok = fv == want
            A.req(k1, ok, c.node, show(fv))
            A.req(f"{q}: the category updated by extrema() is the one whose SRS envelope is updated", P.norm(c.args[0]) == P.norm(resv) if c.args else None,
                  c.node)
        A.req(k1, nb > 0, f2)
        A.flush(f2)
