"""C09 engine, part 2: exact symbolic execution of the parent functions (srs, fdepsd), of the pool initializers and of one symbolic task.

One run follows one path (the decisions of undecided tests come from a script; `explore` enumerates the scripts).  The heap holds every
array-like object with the ordered list of stores made to it; a store made inside a helper to its parameter lands on the caller's object
because parameters are bound to references.  A `multiprocessing.Pool(...)`/`imap*` pair is executed as: copy of the parent's process
globals (fork), one call of the initializer, one call of the task function on the symbolic element of the task iterable.  Nothing from the
analysed package is imported or run: this is an interpreter over `ast` on symbols."""
from __future__ import annotations

import ast

from .c09_blocks import Block, Facts, find_block, expand as bexpand, norm as bnorm
from .c09_facts import implied
from .c09_terms import (Unsup, NONE, TRUE, FALSE, ELL, FULL, ZEROS, EMPTY, const, is_const, is_tag, subterms, tmap, is_slice, is_basic_item,
                        merge_sel, relation, mkidx, shape_after, show, MP_NAMES, MUT_METHODS)

BUILTINS = {"range", "zip", "enumerate", "len", "int", "float", "abs", "min", "max", "isinstance", "print", "str", "bool", "list", "tuple", "sum",
            "sorted", "set", "dict", "iter", "next", "any", "all", "round", "divmod", "repr", "locals", "ValueError", "TypeError", "getattr",
            "hasattr", "map", "slice", "type", "id", "reversed", "globals"}
STRUCT_CALLS = {"builtins.range", "builtins.zip", "builtins.enumerate", "itertools.repeat", "builtins.iter", "builtins.reversed", "builtins.map",
                "itertools.count"}
DRAINERS = {"builtins.list", "builtins.tuple", "collections.deque", "builtins.sum", "builtins.sorted", "builtins.set", "builtins.max", "builtins.min",
            "builtins.any", "builtins.all"}
PURE_NS = ("numpy.", "scipy.", "math.", "pandas.", "types.", "warnings.", "builtins.", "itertools.", "pyyeti.", "collections.", "os.", "sys.")
UFUNC = {"numpy.add": "Add", "numpy.subtract": "Sub", "numpy.multiply": "Mult", "numpy.divide": "Div", "numpy.true_divide": "Div"}
# ndarray methods that numpy also offers as functions computing the same thing: x.max() is written numpy.max(x)
ND_METHODS = {"max", "min", "sum", "mean", "var", "std", "prod", "any", "all", "argmax", "argmin", "cumsum", "cumprod", "ravel", "dot", "nonzero",
              "transpose", "clip", "round", "conj", "trace", "squeeze", "swapaxes", "repeat", "take", "argsort", "searchsorted", "diagonal", "reshape"}
ALIASES = {"numpy.amax": "numpy.max", "numpy.amin": "numpy.min", "numpy.abs": "numpy.absolute", "builtins.abs": "numpy.absolute",
           "numpy.true_divide": "numpy.divide", "numpy.round_": "numpy.round", "numpy.around": "numpy.round", "numpy.product": "numpy.prod",
           "numpy.conjugate": "numpy.conj", "numpy.concat": "numpy.concatenate"}
# documented signatures of library routines: positional arguments after the first are named, arguments equal to the default are dropped
_RED = (("a", "axis", "dtype", "out", "keepdims"), {"axis": ("c", "NoneType", None), "dtype": ("c", "NoneType", None), "out": ("c", "NoneType", None),
                                                    "keepdims": ("c", "bool", False)})
_RED2 = (("a", "axis", "out", "keepdims"), {"axis": ("c", "NoneType", None), "out": ("c", "NoneType", None), "keepdims": ("c", "bool", False)})
_VAR = (("a", "axis", "dtype", "out", "ddof", "keepdims"), {"axis": ("c", "NoneType", None), "dtype": ("c", "NoneType", None),
                                                            "out": ("c", "NoneType", None), "ddof": ("c", "int", 0), "keepdims": ("c", "bool", False)})
SIGS = {"scipy.signal.lfilter": (("b", "a", "x", "axis", "zi"), {"axis": ("c", "int", -1), "zi": ("c", "NoneType", None)}),
        "numpy.sum": _RED, "numpy.prod": _RED, "numpy.mean": _RED, "numpy.max": _RED2, "numpy.min": _RED2, "numpy.any": _RED2, "numpy.all": _RED2,
        "numpy.var": _VAR, "numpy.std": _VAR,
        "numpy.argmax": (("a", "axis", "out"), {"axis": ("c", "NoneType", None), "out": ("c", "NoneType", None)}),
        "numpy.argmin": (("a", "axis", "out"), {"axis": ("c", "NoneType", None), "out": ("c", "NoneType", None)}),
        "numpy.concatenate": (("arrays", "axis", "out"), {"axis": ("c", "int", 0), "out": ("c", "NoneType", None)}),
        "numpy.zeros": (("shape", "dtype", "order"), {"dtype": ("ext", "numpy.float64"), "order": ("c", "str", "C")}),
        "numpy.empty": (("shape", "dtype", "order"), {"dtype": ("ext", "numpy.float64"), "order": ("c", "str", "C")}),
        "numpy.ones": (("shape", "dtype", "order"), {"dtype": ("ext", "numpy.float64"), "order": ("c", "str", "C")}),
        "numpy.ravel": (("a", "order"), {"order": ("c", "str", "C")}),
        "numpy.reshape": (("a", "shape", "order"), {"order": ("c", "str", "C")})}
FLOAT64_DT = {("ext", "builtins.float"), ("ext", "numpy.float64"), ("ext", "numpy.double"), ("ext", "numpy.float_"), ("c", "str", "float64"),
              ("c", "str", "f8"), ("c", "str", "d"), ("c", "str", "float"), ("c", "str", "<f8"), ("c", "str", "=f8")}
UNROLL_MAX = 24
NOT_NONE_TAGS = ("ref", "dref", "objident", "tuple", "list", "fn", "ext", "mod", "rmod", "pool", "results", "bin", "cmp", "dictc", "lv", "alloc", "fstr", "iterd",
                 "globals", "comp", "partial", "closure")


def test_dump(node):
    """spelling of a test with its polarity removed: `not t`, `a != b`, `a is not b` dump like `t`, `a == b`, `a is b`"""
    while isinstance(node, ast.UnaryOp) and isinstance(node.op, ast.Not):
        node = node.operand
    if isinstance(node, ast.Compare) and len(node.ops) == 1:
        op = {ast.NotEq: "Eq", ast.IsNot: "Is", ast.NotIn: "In"}.get(type(node.ops[0]), type(node.ops[0]).__name__)
        return f"{op}({ast.dump(node.left)},{ast.dump(node.comparators[0])})"
    return ast.dump(node)


def carries_fn(v):
    """a function / pool / result iterator as a value (possibly inside a literal tuple or a merged value), not as the head of a call term"""
    if is_tag(v, "fn", "pool", "poolattr", "results"):
        return True
    if is_tag(v, "partial"):
        return carries_fn(v[1])
    if is_tag(v, "closure"):
        return True
    if is_tag(v, "tuple", "list"):
        return any(carries_fn(x) for x in v[1:])
    if is_tag(v, "phi"):
        return carries_fn(v[2]) or carries_fn(v[3])
    return False


def _index_facts(c):
    """what a test says about a value *used as an index or slice bound*: -> (facts when true, facts when false), each a list of (term, constant).
    `if s:` false means s is 0 / False / None - as a lower slice bound all of them mean "from the start"; `s == k` true means index k."""
    if is_tag(c, "not"):
        a, b = _index_facts(c[1])
        return b, a
    if is_tag(c, "truth"):
        return [], [(c[1], NONE)]
    if is_tag(c, "call") and c[1] == ("ext", "builtins.bool") and len(c[2]) == 1 and not c[3]:
        return [], [(c[2][0], NONE)]
    if is_tag(c, "cmp") and c[1] in ("Eq", "NotEq") and is_const(c[3]) and c[3][1] == "int" and not is_const(c[2]):
        f = [(c[2], NONE if c[3][2] == 0 else c[3])]
        return (f, []) if c[1] == "Eq" else ([], f)
    if is_tag(c, "cmp") and c[1] in ("Eq", "NotEq") and is_const(c[2]) and c[2][1] == "int" and not is_const(c[3]):
        f = [(c[3], NONE if c[2][2] == 0 else c[2])]
        return (f, []) if c[1] == "Eq" else ([], f)
    if not is_tag(c, "cmp", "bool", "c"):
        return [], [(c, NONE)]          # a bare value used as a test
    return [], []


def _with_lower_bound(t, s, k):
    """t with s replaced by k where s is the lower bound of a slice; `X[start:]` over the whole of X is X"""
    def f(x):
        if is_tag(x, "slice") and x[1] == s:
            x = ("slice", k, x[2], x[3])
        if is_tag(x, "slice") and x[1] == const(0):
            x = ("slice", NONE, x[2], x[3])
        if is_tag(x, "idx"):
            items = strip_full(x[2])
            return x[1] if not items else ("idx", x[1], items)
        return x
    return tmap(f, t)


def strip_full(items):
    items = list(items)
    while items and items[-1] == FULL:
        items.pop()
    return tuple(items)


def collapse_phi(x):
    """(a if c else b) where a, read under what `not c` says about a slice bound, is b (or the other way round) is a (is b) unconditionally:
    `r[S:] if S else r` is `r[S:]`"""
    _, c, a, b = x
    when_true, when_false = _index_facts(c)
    for s, k in when_false:
        if _with_lower_bound(a, s, k) == _with_lower_bound(b, s, k):
            return a
    for s, k in when_true:
        if _with_lower_bound(b, s, k) == _with_lower_bound(a, s, k):
            return b
    return x


class _Return(Exception):
    def __init__(self, value):
        self.value = value


class _Continue(Exception):
    pass


class PathDead(Exception):
    """the path ends in `raise`"""


class Obj:
    def __init__(self, oid, kind, init, shape, node, born_frames, born_ctx):
        self.oid, self.kind, self.init, self.shape, self.node = oid, kind, init, shape, node
        self.events = []
        self.labels = []
        self.meta = {}
        self.born_frames = born_frames
        self.born_ctx = born_ctx
        self.init_reads = []
        self.entries = {}      # dict objects


class Event:
    __slots__ = ("kind", "oid", "shape", "sel", "value", "frames", "ctx", "proc", "node", "seq", "note", "how")

    def __init__(self, **kw):
        for k in self.__slots__:
            setattr(self, k, kw.get(k))


class Read:
    __slots__ = ("oid", "shape", "sel", "frames", "ctx", "node", "seq")

    def __init__(self, **kw):
        for k in self.__slots__:
            setattr(self, k, kw.get(k))


class LoopFrame:
    def __init__(self, fid, kind, count, lid=None, depth=0):
        self.fid, self.kind, self.count, self.lid, self.depth = fid, kind, count, lid, depth


class Pool:
    def __init__(self, pid):
        self.pid = pid
        self.processes = self.initializer = self.initargs = self.node = None
        self.fork_env = {}
        self.ended = False
        self.end_seq = None


class Launch:
    def __init__(self, lid):
        self.lid = lid
        self.pid = self.func = self.node = self.elem = self.count = self.ret = self.fid = None
        self.block = None
        self.drained = False
        self.seq0 = self.seq1 = self.drain_seq = None
        self.inproc = False
        self.fns = []          # FunctionDef nodes executed in the task frame (worker + helpers)
        self.init_fns = []


class Frame:
    def __init__(self, fn, rel, depth):
        self.fn, self.rel, self.depth = fn, rel, depth
        self.outer = None
        self.locals = {}
        self.globals_decl = set()
        self.local_names = set()
        for n in ast.walk(fn):
            if isinstance(n, (ast.Global, ast.Nonlocal)):
                self.globals_decl.update(n.names)
        a = fn.args
        for x in a.posonlyargs + a.args + a.kwonlyargs:
            self.local_names.add(x.arg)
        if a.vararg:
            self.local_names.add(a.vararg.arg)
        if a.kwarg:
            self.local_names.add(a.kwarg.arg)
        for n in _walk_scope(fn):
            if isinstance(n, ast.Name) and isinstance(n.ctx, (ast.Store, ast.Del)):
                self.local_names.add(n.id)
            elif isinstance(n, (ast.Import, ast.ImportFrom)):
                for al in n.names:
                    self.local_names.add((al.asname or al.name).split(".")[0])
            elif isinstance(n, (ast.FunctionDef, ast.ClassDef)) and n is not fn:
                self.local_names.add(n.name)
        self.local_names -= self.globals_decl


def _walk_scope(fn):
    stack = list(ast.iter_child_nodes(fn))[::-1]
    while stack:
        n = stack.pop()
        yield n
        if isinstance(n, (ast.FunctionDef, ast.AsyncFunctionDef, ast.ClassDef, ast.Lambda, ast.GeneratorExp, ast.ListComp, ast.SetComp, ast.DictComp)):
            continue
        stack.extend(list(ast.iter_child_nodes(n))[::-1])


def assigned_names(node):
    out = set()
    for n in [node] + list(_walk_scope(node)) if not isinstance(node, list) else (x for st in node for x in [st] + list(_walk_scope(st))):
        if isinstance(n, ast.Name) and isinstance(n.ctx, (ast.Store, ast.Del)):
            out.add(n.id)
    return out


# ============================================================================================================================
class Sim:
    MAXDEPTH = 10

    def __init__(self, world, script=(), work=None):
        self.world = world
        self.script = list(script)
        self.work = work if work is not None else []
        self.decisions = []        # [(atom, bool)] in discovery order
        self.assign = {}
        self.heap = {}
        self.events = []
        self.reads = []
        self.frames = []
        self.fid = 0
        self.seq = 0
        self.ctx = ("parent",)
        self.cur_proc = "parent"
        self.proc = {"parent": {}}
        self.pools = {}
        self.launches = []
        self.iterds = {}
        self.pgw = set()           # process globals assigned in the parent process
        self.preads = []           # (key, prov, ctx, node, value)
        self.gwrites = []          # (key, ctx, node)
        self.findings = []         # (rule, key, ok, node, detail)
        self.views = []            # (oid, dtype term or None, node)
        self.none_uses = []        # (ctx, node, text)
        self.unbound = []          # (ctx, node, name, function): process global assigned without `global`
        self.relem_uses = []       # (ctx, node): a value yielded by the result iterator handed to a call
        self.allframes = {}
        self.shaped = []           # (oid, shape term, node): shaped views of shared buffers
        self.entry_params = set()
        self.loops = []
        self.overlaps = []         # (ctx, node, text): a read whose overlap with an earlier store could not be decided
        self.unbound_locals = []   # (ctx, node, name, function)
        self.atom_nodes = {}       # atom -> spellings (normalised dumps) of the tests that consulted it
        self.attr_stores = []      # (ctx, node)
        self.depth = 0
        self.cur_node = None
        self.const_cache = {}
        self.closures = {}
        self.seqlen = {}           # content term of an opaque sequence -> number of targets it was unpacked into
        self.merging = 0           # > 0 while the arms of a merged (undecided, simple) conditional are evaluated

    # ------------------------------------------------------------------------------------------------ heap
    def new_obj(self, kind, init, shape=None):
        oid = len(self.heap) + 1
        o = Obj(oid, kind, init, shape, self.cur_node, tuple(f.fid for f in self.frames), self.ctx)
        self.heap[oid] = o
        return o

    def fresh(self, init, shape=None, kind="fresh"):
        o = self.new_obj(kind, init, shape)
        return ("ref", o.oid, None, ())

    def tick(self):
        self.seq += 1
        return self.seq

    def store(self, ref, value, how="store"):
        _, oid, shape, sel = ref
        ev = Event(kind="store", oid=oid, shape=shape, sel=sel, value=value, frames=tuple(f.fid for f in self.frames), ctx=self.ctx,
                   proc=self.cur_proc, node=self.cur_node, seq=self.tick(), how=how)
        self.heap[oid].events.append(ev)
        self.events.append(ev)
        return ev

    def escape(self, ref, note):
        _, oid, shape, sel = ref
        ev = Event(kind="escape", oid=oid, shape=shape, sel=sel, value=None, frames=tuple(f.fid for f in self.frames), ctx=self.ctx,
                   proc=self.cur_proc, node=self.cur_node, seq=self.tick(), note=note)
        self.heap[oid].events.append(ev)
        self.events.append(ev)

    def content(self, ref, record=True):
        _, oid, shape, sel = ref
        obj = self.heap[oid]
        if obj.kind == "dict":
            return ("dict", tuple(sorted(((k, self.snap(v, record)) for k, v in obj.entries.items()), key=repr)))
        if record:
            self.reads.append(Read(oid=oid, shape=shape, sel=sel, frames=tuple(f.fid for f in self.frames), ctx=self.ctx, node=self.cur_node,
                                   seq=self.tick()))
        evs = obj.events
        cur = {f.fid for f in self.frames}
        if shape is None and obj.kind == "raw" and sel == ():
            shapes = {e.shape for e in evs if e.kind == "store"}
            if len(shapes) == 1 and None not in shapes:
                # the buffer itself (handed around as a (buffer, shape) pair): its content is what the one shaped view of it holds
                return ("buffer", self.content(("ref", oid, next(iter(shapes)), ()), record))

        def closed(ev):
            # the loops the store was made in and that have ended since: the outermost one (task / serial frequency loop) is compared
            # separately, an inner one is part of the content (its number of iterations matters)
            out = []
            for f in ev.frames:
                if f not in cur:
                    fo = self.allframes.get(f)
                    out.append(("outer",) if fo is None or fo.depth == 0 else ("inner", fo.count if fo.count is not None else NONE))
            return tuple(out)

        def upto(k, sel):
            while k > 0:
                ev = evs[k - 1]
                if ev.kind == "escape":
                    return mkidx(("escaped", upto(k - 1, ()), ev.note), sel)
                ev_shape, ev_value = ev.shape, ev.value
                if ev_shape is None and shape is not None and ev.sel == () and is_tag(ev_value, "call") and ev_value[1] == ("ext", "numpy.ravel") and \
                        len(ev_value[2]) == 1 and not ev_value[3] and shape == ("attr", ev_value[2][0], "shape"):
                    # X.ravel() written through the flat view of the buffer is X written through the view shaped X.shape (both C order)
                    ev_shape, ev_value = shape, ev_value[2][0]
                if ev_shape != shape:
                    if ev.sel == () and sel == ():
                        return ("reshaped", ev_value, shape if shape is not None else NONE)
                    kind, rest = "unknown", None
                else:
                    kind, rest = relation(ev.sel, sel)
                if kind == "disjoint":
                    k -= 1
                    continue
                if kind == "equal":
                    return ev_value
                if kind == "acovers":
                    return mkidx(ev_value, rest)
                if kind == "bcovers":
                    return ("upd", upto(k - 1, sel), rest, ev_value, closed(ev))
                # overlap undecided (two different symbolic indices on one axis, or two views of different shape): the content is described as
                # it is - "whatever is at sel after a store at ev.sel" -, which two equal programs describe equally
                self.overlaps.append((self.ctx, self.cur_node, f"[{', '.join(show(x) for x in ev.sel)}] / [{', '.join(show(x) for x in sel)}]"))
                return ("mayupd", upto(k - 1, sel), ("shape", ev.shape if ev.shape is not None else NONE) + tuple(ev.sel), ev.value, closed(ev))
            if record:
                obj.init_reads.append((self.ctx, tuple(f.fid for f in self.frames), self.cur_node))
            if obj.init in (ZEROS, EMPTY):
                return obj.init
            return mkidx(obj.init, sel)

        return upto(len(evs), sel)

    def snap(self, v, record=True):
        if not isinstance(v, tuple):
            return v
        if v and v[0] == "ref":
            return self.content(v, record)
        if v and v[0] == "dref":
            return self.content(("ref", v[1], None, ()), record)
        if v and v[0] == "c":
            return v
        if v and v[0] == "iterd":
            return self.comp_term(v)
        return tuple(self.snap(x, record) if isinstance(x, tuple) else x for x in v)

    def comp_term(self, v):
        """a comprehension as a value: (generic element, number of elements)"""
        node, fr, itv = self.iterds[v[1]]
        elem, cnt, lid = self.iter_desc(v)
        self.frames.append(LoopFrame(-1, "comp", cnt, depth=len(self.frames)))
        try:
            lv = ("lv", len(self.frames) - 1)
            e = self.snap(elem(lv))
        finally:
            self.frames.pop()
        h = 1 + max([x[1] for x in subterms(e) if is_tag(x, "bv")], default=-1)
        e = tmap(lambda x: ("bv", h) if x == lv else x, e)          # the bound variable is named by its nesting height: alpha-canonical
        return ("comp", e, self.snap(cnt) if cnt is not None else NONE)

    def subref(self, ref, items):
        _, oid, shape, sel = ref
        sh = shape if shape is not None else self.heap[oid].shape
        rank = len(sh) - 1 if is_tag(sh, "tuple") else None
        return ("ref", oid, shape, merge_sel(sel, items, rank))

    def ref_shape(self, ref):
        _, oid, shape, sel = ref
        obj = self.heap[oid]
        sh = shape if shape is not None else obj.shape
        if sh is None:
            return None
        return shape_after(sh, sel)

    # ------------------------------------------------------------------------------------------------ decisions
    def norm_atom(self, t):
        """-> (atom, polarity) or (bool, None) when decided by the term itself"""
        if is_const(t):
            return bool(t[2]), None
        if is_tag(t, "not"):
            a, p = self.norm_atom(t[1])
            if p is None:
                return (not a), None
            return a, (not p)
        if is_tag(t, "cmp"):
            op, a, b = t[1], t[2], t[3]
            if op in ("Is", "IsNot"):
                r = None
                if a == b:
                    r = True
                elif b == NONE and is_tag(a, *NOT_NONE_TAGS) or (b == NONE and is_const(a)):
                    r = False
                elif a == NONE and is_tag(b, *NOT_NONE_TAGS) or (a == NONE and is_const(b)):
                    r = False
                if r is not None:
                    return (r if op == "Is" else not r), None
                return ("cmp", "Is", a, b), op == "Is"
            if op in ("Eq", "NotEq"):
                if is_const(a) and is_const(b):
                    r = a[2] == b[2]
                    return (r if op == "Eq" else not r), None
                if is_const(a) and not is_const(b):
                    a, b = b, a
                return ("cmp", "Eq", a, b), op == "Eq"
            if op in ("In", "NotIn"):
                if is_const(a) and is_tag(b, "tuple", "list") and all(is_const(x) for x in b[1:]):
                    r = any(a[2] == x[2] for x in b[1:])
                    return (r if op == "In" else not r), None
                return ("cmp", "In", a, b), op == "In"
            if is_const(a) and is_const(b):
                try:
                    r = {"Lt": a[2] < b[2], "LtE": a[2] <= b[2], "Gt": a[2] > b[2], "GtE": a[2] >= b[2]}[op]
                    return r, None
                except Exception:  # noqa
                    pass
            if op == "Gt":
                return ("cmp", "Lt", b, a), True
            if op == "GtE":
                return ("cmp", "LtE", b, a), True
            return t, True
        if is_tag(t, "tuple", "list"):
            return len(t) > 1, None
        if is_tag(t, "fn", "ext", "mod", "rmod", "pool", "dref", "partial", "closure"):
            return True, None
        if is_tag(t, "bool"):
            return t, True
        if is_tag(t, "call") and t[1] == ("ext", "builtins.bool") and len(t[2]) == 1 and not t[3]:
            return self.norm_atom(t[2][0])          # bool(x) is true exactly when x is
        return ("truth", t), True

    def decide_term(self, t):
        if is_tag(t, "bool"):
            vals = t[2:]
            if t[1] == "And":
                return all(self.decide_term(v) for v in vals)
            return any(self.decide_term(v) for v in vals)
        if is_tag(t, "not") and is_tag(t[1], "bool"):
            return not self.decide_term(t[1])
        atom, pol = self.norm_atom(t)
        if pol is None:
            return atom
        if is_tag(atom, "bool"):
            r = self.decide_term(atom)
            return r if pol else not r
        v = self.atom_value(atom)
        return v if pol else not v

    def known(self, atom):
        if atom in self.assign:
            return self.assign[atom]
        if is_tag(atom, "cmp") and atom[1] == "Eq" and is_const(atom[3]):
            for a2, v2 in self.assign.items():
                if v2 and is_tag(a2, "cmp") and a2[1] == "Eq" and a2[2] == atom[2] and is_const(a2[3]) and a2[3] != atom[3]:
                    return False
        # what the decisions made so far about the same subject say together (X in (a, b) and X != a: X == b; D[X] went through: X is a key)
        return implied(self.assign, atom)

    def atom_value(self, atom):
        v = self.known(atom)
        if v is not None:
            return v
        i = len(self.decisions)
        if i < len(self.script):
            v = self.script[i]
        else:
            v = True
            self.work.append([d for _, d in self.decisions] + [False])
        self.decisions.append((atom, v))
        self.assign[atom] = v
        return v

    def decide(self, node, fr):
        if isinstance(node, ast.BoolOp):
            if isinstance(node.op, ast.And):
                for v in node.values:
                    if not self.decide(v, fr):
                        return False
                return True
            for v in node.values:
                if self.decide(v, fr):
                    return True
            return False
        if isinstance(node, ast.UnaryOp) and isinstance(node.op, ast.Not):
            return not self.decide(node.operand, fr)
        t = self.snap(self.ev(node, fr))
        try:
            atom, pol = self.norm_atom(t)
            if pol is not None:
                self.atom_nodes.setdefault(atom, set()).add(test_dump(node))
        except Exception:  # noqa
            pass
        return self.decide_term(t)

    def resolve(self, t):
        """phi terms whose condition has been decided on this path, or whose arms coincide under what the condition itself says"""
        def f(x):
            if is_tag(x, "phi"):
                r = self.try_decided(x[1])
                if r is True:
                    return x[2]
                if r is False:
                    return x[3]
                return collapse_phi(x)
            if is_tag(x, "idx") and any(is_tag(i, "slice") and i[1] == const(0) for i in x[2]):
                return _with_lower_bound(x, None, None)          # X[0:] holds what X holds
            return x
        return tmap(f, t)

    def try_decided(self, t):
        if is_tag(t, "bool"):
            rs = [self.try_decided(v) for v in t[2:]]
            if t[1] == "And":
                if any(r is False for r in rs):
                    return False
                return True if all(r is True for r in rs) else None
            if any(r is True for r in rs):
                return True
            return False if all(r is False for r in rs) else None
        atom, pol = self.norm_atom(t)
        if pol is None:
            return atom
        if is_tag(atom, "bool"):
            r = self.try_decided(atom)
            return None if r is None else (r if pol else not r)
        v = self.known(atom)
        return None if v is None else (v if pol else not v)

    # ------------------------------------------------------------------------------------------------ names
    def module_const(self, rel, name):
        key = (rel, name)
        if key not in self.const_cache:
            mi = self.world.mods[rel]
            self.const_cache[key] = ("s", name)
            self.const_cache[key] = self.ev_const(mi.consts[name], rel)
        return self.const_cache[key]

    def ev_const(self, node, rel):
        if isinstance(node, ast.Constant):
            return const(node.value)
        if isinstance(node, (ast.Tuple, ast.List)):
            return ("tuple" if isinstance(node, ast.Tuple) else "list",) + tuple(self.ev_const(e, rel) for e in node.elts)
        if isinstance(node, ast.Dict) and all(k is not None for k in node.keys):
            return ("dictc", tuple((self.ev_const(k, rel), self.ev_const(v, rel)) for k, v in zip(node.keys, node.values)))
        if isinstance(node, ast.Name):
            return self.lookup_module(node.id, rel)
        if isinstance(node, ast.UnaryOp) and isinstance(node.op, ast.USub):
            v = self.ev_const(node.operand, rel)
            if is_const(v) and isinstance(v[2], (int, float)):
                return const(-v[2])
            return ("un", "USub", v)
        if isinstance(node, ast.BinOp):
            return ("bin", type(node.op).__name__, self.ev_const(node.left, rel), self.ev_const(node.right, rel))
        if isinstance(node, ast.Attribute):
            b = self.ev_const(node.value, rel)
            return self.attr_of(b, node.attr)
        if isinstance(node, ast.Call) and not any(isinstance(a, ast.Starred) for a in node.args) and all(k.arg for k in node.keywords):
            f = self.ev_const(node.func, rel)
            if f == ("ext", "collections.namedtuple"):
                a = [self.ev_const(x, rel) for x in node.args] + [self.ev_const(k.value, rel) for k in node.keywords if k.arg == "field_names"]
                if len(a) == 2 and not [k for k in node.keywords if k.arg not in ("field_names",)]:
                    fields = None
                    if is_const(a[1]) and isinstance(a[1][2], str):
                        fields = tuple(a[1][2].replace(",", " ").split())
                    elif is_tag(a[1], "tuple", "list") and all(is_const(x) and isinstance(x[2], str) for x in a[1][1:]):
                        fields = tuple(x[2] for x in a[1][1:])
                    if fields is not None:
                        return ("reccls", ast.unparse(node.args[0]), fields, (), True)
        return ("s", ast.unparse(node))

    def record_class(self, rel, cd):
        """a module-level class that only holds fields (dataclass, typing.NamedTuple): calling it makes a record of its arguments"""
        def nm(e):
            while isinstance(e, ast.Call):
                e = e.func
            return e.attr if isinstance(e, ast.Attribute) else (e.id if isinstance(e, ast.Name) else "")
        is_nt = any(nm(b) == "NamedTuple" for b in cd.bases)
        is_dc = any(nm(d) == "dataclass" for d in cd.decorator_list)
        if not (is_nt or is_dc) or (cd.bases and not is_nt) or cd.keywords:
            return ("opaquecls", cd.name)
        fields, dfl = [], []
        for st in cd.body:
            if isinstance(st, ast.AnnAssign) and isinstance(st.target, ast.Name):
                fields.append(st.target.id)
                if st.value is not None:
                    if isinstance(st.value, ast.Call):
                        return ("opaquecls", cd.name)           # field(default_factory=...)
                    dfl.append((st.target.id, self.ev_const(st.value, rel)))
            elif isinstance(st, ast.Expr) and isinstance(st.value, ast.Constant):
                continue
            elif isinstance(st, ast.Pass):
                continue
            else:
                return ("opaquecls", cd.name)                   # methods, __post_init__, class attributes: not a plain record
        return ("reccls", cd.name, tuple(fields), tuple(dfl), is_nt)

    def record_new(self, cls, args, kws, ordered=None):
        _, cname, fields, dfl, is_nt = cls
        vals = dict(dfl)
        if len(args) > len(fields) or "**" in kws:
            raise Unsup(f"arguments of {cname}(...)")
        for f, a in zip(fields, args):
            vals[f] = a
        for k, v in kws.items():
            if k not in fields or k in fields[:len(args)]:
                raise Unsup(f"arguments of {cname}(...)")
            vals[k] = v
        if set(vals) != set(fields):
            raise Unsup(f"arguments of {cname}(...)")
        o = self.new_obj("dict", None)
        for f in fields:
            o.entries[const(f)] = vals[f]
        o.meta["ns"] = True
        if is_nt:
            o.meta["order"] = fields
        return ("dref", o.oid)

    def lookup_module(self, name, rel, record=True):
        mi = self.world.mods[rel]
        if name in mi.proc_globals:
            return self.read_global((rel, name), record)
        if name in mi.funcs:
            return ("fn", rel, name)
        if name in mi.classes:
            return self.record_class(rel, mi.classes[name])
        if name in mi.gdicts:
            return ("gdict", rel, name)
        if name in mi.consts and mi.nassign.get(name) == 1:
            return self.module_const(rel, name)
        if name in mi.imports:
            return mi.imports[name]
        if name in BUILTINS:
            return ("ext", "builtins." + name)
        if name in ("None", "True", "False"):
            return {"None": NONE, "True": TRUE, "False": FALSE}[name]
        return ("s", name)

    def read_global(self, key, record=True):
        env = self.proc[self.cur_proc]
        if key in env:
            v, prov = env[key]
        else:
            rel, name = key
            mi = self.world.mods[rel]
            if "[" in name:
                v = NONE          # entry of a module-level dict that nobody has set in this process (reading it raises KeyError)
            else:
                v = self.ev_const(mi.consts[name], rel) if name in mi.consts else ("s", name)
            prov = "module"
        if record:
            self.preads.append((key, prov, self.ctx, self.cur_node, v, tuple(f.fid for f in self.frames)))
        return v

    def write_global(self, key, v):
        self.proc[self.cur_proc][key] = (v, "bound:%s" % (self.ctx,))
        if self.cur_proc == "parent":
            self.pgw.add(key)
        self.gwrites.append((key, self.ctx, self.cur_node))
        if is_tag(v, "ref"):
            lab = self.heap[v[1]].labels
            if key[1] not in lab:
                lab.append(key[1])

    def lookup(self, name, fr):
        if name in fr.globals_decl:
            return self.read_global((fr.rel, name))
        if name in fr.local_names:
            if name in fr.locals:
                return fr.locals[name]
            mi = self.world.mods[fr.rel]
            if name in mi.proc_globals and name not in fr.globals_decl:
                # assigned in this function without a `global` declaration: Python makes it a local, the read raises UnboundLocalError
                self.unbound.append((self.ctx, self.cur_node, name, getattr(fr.fn, "name", "<lambda>")))
                fr.globals_decl = set(fr.globals_decl) | {name}
                return self.read_global((fr.rel, name))
            self.unbound_locals.append((self.ctx, self.cur_node, name, getattr(fr.fn, "name", "<lambda>")))
            return ("unboundlocal", name)
        o = getattr(fr, "outer", None)
        while o is not None:
            if name in o.globals_decl:
                break
            if name in o.local_names:
                return self.lookup(name, o)
            o = getattr(o, "outer", None)
        v = self.lookup_module(name, fr.rel)
        if v == ("s", name):
            mi = self.world.mods[fr.rel]
            import builtins as _b
            if not mi.star_import and name not in mi.bound_names and name not in mi.proc_globals and not hasattr(_b, name) and \
                    not name.startswith("__"):
                # bound nowhere: the read raises NameError
                self.unbound_locals.append((self.ctx, self.cur_node, name, getattr(fr.fn, "name", "<lambda>")))
                return ("unboundlocal", name)
        return v

    def bind(self, name, v, fr):
        if name in fr.globals_decl:
            self.write_global((fr.rel, name), v)
        else:
            fr.locals[name] = v
            if is_tag(v, "ref"):
                lab = self.heap[v[1]].labels
                if not lab:
                    lab.append(name)

    # ------------------------------------------------------------------------------------------------ expressions
    def attr_of(self, b, name):
        if is_tag(b, "mod"):
            return ("ext", b[1] + "." + name)
        if is_tag(b, "ext"):
            return ("ext", b[1] + "." + name)
        if is_tag(b, "rmod"):
            return self.lookup_module(name, b[1])
        if is_tag(b, "ref"):
            if name == "shape":
                sh = self.ref_shape(b)
                if sh is not None:
                    return sh
            return ("attr", self.snap(b), name)
        if is_tag(b, "dref") and self.heap[b[1]].meta.get("ns"):
            if const(name) in self.heap[b[1]].entries:
                return self.heap[b[1]].entries[const(name)]
            raise Unsup(f"attribute {name} of a record that has no such field on this path")
        return ("attr", self.snap(b), name)

    def index_items(self, sl, fr):
        elts = sl.elts if isinstance(sl, ast.Tuple) else [sl]
        out = []
        for e in elts:
            if isinstance(e, ast.Slice):
                out.append(("slice",) + tuple(NONE if p is None else self.snap(self.ev(p, fr)) for p in (e.lower, e.upper, e.step)))
            else:
                v = self.ev(e, fr)
                if isinstance(e, ast.Constant) and e.value is Ellipsis:
                    out.append(ELL)
                elif is_tag(v, "tuple") and not isinstance(sl, ast.Tuple):
                    out.extend(self.snap(x) for x in v[1:])
                else:
                    out.append(self.snap(v))
        return tuple(out)

    def subscript(self, base, items, node):
        if is_tag(base, "ref"):
            obj = self.heap[base[1]]
            if all(is_basic_item(x) for x in items):
                return self.subref(base, items)
            return mkidx(self.snap(base), items)
        if is_tag(base, "dref"):
            obj = self.heap[base[1]]
            if obj.meta.get("order") and len(items) == 1 and is_const(items[0]) and items[0][1] == "int":
                return mkidx(("tuple",) + tuple(obj.entries[const(f)] for f in obj.meta["order"]), items)
            if len(items) == 1 and items[0] in obj.entries and not obj.meta.get("ns"):
                return obj.entries[items[0]]
            if len(items) == 1 and set(obj.entries) == {TRUE, FALSE} and not obj.meta.get("ns") and self.as_test(items[0]) is not None:
                # {True: x, False: y}[test]
                return self.subscript(("tuple", obj.entries[FALSE], obj.entries[TRUE]), items, node)
            if len(items) == 1 and not obj.meta.get("ns") and obj.entries and all(is_const(k) for k in obj.entries) and \
                    not is_const(items[0]) and not any(is_tag(x, "lv", "blk", "bv", "unboundlocal") for x in subterms(items[0])) and \
                    not any(is_tag(x, "ref", "dref") for v in obj.entries.values() if isinstance(v, tuple) for x in subterms(v)):
                # a table of constants / functions looked up under a key that is not known: the statement goes through only when the key is one of
                # the table's keys (KeyError otherwise) - a fact of the path, unless the lookup sits in an arm that was merged
                atom = ("cmp", "In", items[0], ("tuple",) + tuple(sorted(obj.entries, key=repr)))
                if not self.merging:
                    k = self.known(atom)
                    if k is False:
                        raise PathDead()
                    if k is None:
                        self.assign[atom] = True
                return mkidx(self.snap(base), items)
            raise Unsup(f"dict entry {show(items[0]) if items else ''} not set on this path")
        if base == NONE:
            self.none_uses.append((self.ctx, node, "subscript of None"))
            return ("s", "<subscript of None>")
        if is_tag(base, "globals"):
            return self.lookup_module(self.global_key(base, items)[1], base[1])
        if is_tag(base, "gdict"):
            return self.read_global(self.gdict_key(base, items))
        if is_tag(base, "tuple", "list") and len(base) == 3 and len(items) == 1 and self.as_test(items[0]) is not None:
            # (x, y)[test]: y when the test holds, else x
            c = self.as_test(items[0])
            r = self.try_decided(c)
            if r is not None:
                return base[2] if r else base[1]
            if base[1] == base[2]:
                return base[1]
            if not carries_fn(base[1]) and not carries_fn(base[2]):
                return ("phi", c, base[2], base[1])
            return base[2] if self.decide_term(c) else base[1]
        if is_tag(base, "tuple", "list") and len(items) == 1 and (is_const(items[0]) or (is_slice(items[0]) and all(is_const(x) for x in items[0][1:]))):
            return mkidx(base, items)
        return mkidx(self.snap(base), items)

    @staticmethod
    def as_test(t):
        """the term as a truth value when it can only be True / False (comparison, `not`, bool(...)); None otherwise"""
        if is_tag(t, "cmp", "not"):
            return t
        if is_tag(t, "call") and t[1] == ("ext", "builtins.bool") and len(t[2]) == 1 and not t[3]:
            return t[2][0]
        return None

    @staticmethod
    def gdict_key(base, items):
        """an entry of a module-level state dict is a process global of its own, named  dict['key']"""
        if len(items) != 1 or not is_const(items[0]) or not isinstance(items[0][2], (str, int)):
            raise Unsup("entry of a module-level state dict addressed by a computed key")
        return (base[1], f"{base[2]}[{items[0][2]!r}]")

    def global_key(self, base, items):
        if len(items) != 1 or not (is_const(items[0]) and isinstance(items[0][2], str)):
            raise Unsup("module global addressed through globals() by a computed name")
        name = items[0][2]
        if name not in self.world.mods[base[1]].proc_globals:
            raise Unsup(f"module global {name} addressed through globals() under a name the analysis did not foresee")
        return (base[1], name)

    def ev(self, node, fr):
        if isinstance(node, ast.Constant):
            return const(node.value)
        if isinstance(node, ast.Name):
            return self.lookup(node.id, fr)
        if isinstance(node, ast.Attribute):
            b = self.ev(node.value, fr)
            if is_tag(b, "pool"):
                return ("poolattr", b[1], node.attr)
            return self.attr_of(b, node.attr)
        if isinstance(node, ast.Subscript):
            base = self.ev(node.value, fr)
            return self.subscript(base, self.index_items(node.slice, fr), node)
        if isinstance(node, ast.BinOp):
            la, rb = self.ev(node.left, fr), self.ev(node.right, fr)
            a = self.snap(la)
            b = self.snap(rb)
            if isinstance(node.op, ast.Add) and ((is_tag(la, "tuple") and is_tag(rb, "tuple")) or (is_tag(la, "list") and is_tag(rb, "list"))):
                return la + rb[1:]          # a new tuple / list holding the elements of both
            t = ("bin", type(node.op).__name__, a, b)
            if any(is_tag(x, "ref") and self.heap[x[1]].kind in ("array", "raw", "derived") for x in (la, rb)):
                return self.fresh(t, kind="derived")        # arithmetic on an array yields a new array (it may be stored into later)
            return t
        if isinstance(node, ast.UnaryOp):
            v = self.snap(self.ev(node.operand, fr))
            if isinstance(node.op, ast.Not):
                return ("not", v)
            if isinstance(node.op, ast.USub) and is_const(v) and isinstance(v[2], (int, float)) and not isinstance(v[2], bool):
                return const(-v[2])
            return ("un", type(node.op).__name__, v)
        if isinstance(node, ast.BoolOp):
            return ("bool", type(node.op).__name__) + tuple(self.snap(self.ev(v, fr)) for v in node.values)
        if isinstance(node, ast.Compare):
            parts = []
            ident = all(isinstance(op, (ast.Is, ast.IsNot)) for op in node.ops)

            def operand(e):
                v = self.ev(e, fr)
                if ident and is_tag(v, "ref", "dref"):
                    return ("objident", v[1])          # an identity test looks at the object, not at its content
                return self.snap(v)
            left = operand(node.left)
            for op, c in zip(node.ops, node.comparators):
                if isinstance(op, (ast.In, ast.NotIn)) and is_const(left):
                    raw = self.ev(c, fr)
                    if is_tag(raw, "dref") and not self.heap[raw[1]].meta.get("ns") and all(is_const(k) for k in self.heap[raw[1]].entries):
                        # membership of a constant in a dict whose keys are all known constants
                        has = left in self.heap[raw[1]].entries
                        parts.append(TRUE if has == isinstance(op, ast.In) else FALSE)
                        left = self.snap(raw)
                        continue
                    r = self.snap(raw)
                else:
                    r = operand(c)
                parts.append(("cmp", type(op).__name__, left, r))
                left = r
            return parts[0] if len(parts) == 1 else ("bool", "And") + tuple(parts)
        if isinstance(node, ast.IfExp):
            probe = ast.If(test=node.test, body=[ast.Expr(value=node.body)], orelse=[ast.Expr(value=node.orelse)])
            if self.simple_if(probe, fr):
                c = self.snap(self.ev(node.test, fr))
                r = self.try_decided(c)
                if r is not None:
                    return self.ev(node.body if r else node.orelse, fr)
                self.merging += 1
                try:
                    a, b = self.ev(node.body, fr), self.ev(node.orelse, fr)
                finally:
                    self.merging -= 1
                if a == b:
                    return a
                if not carries_fn(a) and not carries_fn(b):
                    return ("phi", c, a, b)
                return a if self.decide_term(c) else b
            return self.ev(node.body if self.decide(node.test, fr) else node.orelse, fr)
        if isinstance(node, ast.Call):
            return self.ev_call(node, fr)
        if isinstance(node, (ast.Tuple, ast.List)):
            out = []
            for e in node.elts:
                if isinstance(e, ast.Starred):
                    v = self.ev(e.value, fr)
                    if not is_tag(v, "tuple", "list"):
                        raise Unsup("starred element of unknown length")
                    out.extend(v[1:])
                else:
                    out.append(self.ev(e, fr))
            return ("tuple" if isinstance(node, ast.Tuple) else "list",) + tuple(out)
        if isinstance(node, ast.Dict):
            o = self.new_obj("dict", None)
            for k, v in zip(node.keys, node.values):
                if k is None:
                    raise Unsup("dict unpacking in a literal")
                o.entries[self.snap(self.ev(k, fr))] = self.ev(v, fr)
            return ("dref", o.oid)
        if isinstance(node, ast.JoinedStr):
            parts = []
            for v in node.values:
                if isinstance(v, ast.Constant):
                    parts.append(const(v.value))
                else:
                    parts.append(("fmt", self.snap(self.ev(v.value, fr)), v.conversion,
                                  NONE if v.format_spec is None else self.snap(self.ev(v.format_spec, fr))))
            return ("fstr",) + tuple(parts)
        if isinstance(node, ast.Lambda):
            return self.closure(node, fr)
        if isinstance(node, ast.NamedExpr):
            if getattr(fr, "is_comp", False):
                raise Unsup("assignment expression inside a comprehension")
            v = self.ev(node.value, fr)
            self.bind(node.target.id, v, fr)
            return v
        if isinstance(node, (ast.GeneratorExp, ast.ListComp, ast.DictComp, ast.SetComp)):
            if any(g.is_async for g in node.generators):
                raise Unsup("asynchronous comprehension")
            gen = node.generators[0]
            itv = self.ev(gen.iter, fr)
            els = self.finite_elems(itv, ranges=True)
            if els is not None and not isinstance(node, ast.SetComp):
                # over literal sequences: element by element (nested generators in order, a filter is a test decided per element)
                out = []

                def expand(k, sub, els):
                    g = node.generators[k]
                    for e in els:
                        sub2 = self.comp_frame(sub, g)
                        self.assign_target(g.target, e, sub2)
                        if not all(self.decide(c, sub2) for c in g.ifs):
                            continue
                        if k + 1 < len(node.generators):
                            inner = self.finite_elems(self.ev(node.generators[k + 1].iter, sub2), ranges=True)
                            if inner is None:
                                raise Unsup("comprehension with several generators over a sequence of unknown length")
                            expand(k + 1, sub2, inner)
                        elif isinstance(node, ast.DictComp):
                            out.append((self.snap(self.ev(node.key, sub2)), self.ev(node.value, sub2)))
                        else:
                            out.append(self.ev(node.elt, sub2))
                expand(0, fr, els)
                if isinstance(node, ast.DictComp):
                    o = self.new_obj("dict", None)
                    for k, v in out:
                        o.entries[k] = v
                    return ("dref", o.oid)
                return ("list",) + tuple(out)
            if len(node.generators) != 1 or gen.ifs:
                raise Unsup("comprehension with several generators or a filter over a sequence of unknown length")
            if isinstance(node, (ast.DictComp, ast.SetComp)):
                raise Unsup("dict / set comprehension over a sequence of unknown length")
            k = len(self.iterds) + 1
            self.iterds[k] = (node, fr, itv)
            return ("iterd", k)
        if isinstance(node, ast.Slice):
            return ("slice",) + tuple(NONE if p is None else self.snap(self.ev(p, fr)) for p in (node.lower, node.upper, node.step))
        if isinstance(node, ast.Starred):
            raise Unsup("starred expression")
        raise Unsup(f"expression {type(node).__name__}")

    # ------------------------------------------------------------------------------------------------ calls
    def ev_call(self, node, fr):
        fx = node.func
        args = []
        for a in node.args:
            if isinstance(a, ast.Starred):
                v = self.ev(a.value, fr)
                if is_tag(v, "tuple", "list"):
                    args.extend(v[1:])
                else:
                    # a sequence whose length is not known: it stays one starred argument (only opaque callables accept it, see call_value)
                    args.append(("star", self.snap(v)))
            else:
                args.append(self.ev(a, fr))
        kws = {}
        for k in node.keywords:
            v = self.ev(k.value, fr)
            if k.arg is None:
                if is_tag(v, "dref"):
                    for kk, vv in self.heap[v[1]].entries.items():
                        if not (is_const(kk) and isinstance(kk[2], str)):
                            raise Unsup("**kwargs with a non-string key")
                        kws[kk[2]] = vv
                else:
                    kws["**"] = self.snap(v)
            else:
                kws[k.arg] = v
        if isinstance(fx, ast.Attribute):
            recv = self.ev(fx.value, fr)
            if is_tag(recv, "mod", "ext", "rmod"):
                f = self.attr_of(recv, fx.attr)
                return self.call_value(f, args, kws, node)
            return self.call_method(recv, fx.attr, args, kws, node)
        f = self.ev(fx, fr)
        if f == ("ext", "builtins.globals") and not args and not kws:
            return ("globals", fr.rel)
        return self.call_value(f, args, kws, node)

    def _callterm(self, f, args, kws):
        return ("call", f, self.star_runs(tuple(self.snap(a) for a in args)), tuple(("kw", k, self.snap(v)) for k, v in sorted(kws.items())))

    def star_runs(self, args):
        """X[0], X[1], ..., X[n-1] in a row, for a sequence X that was unpacked into exactly n targets (so that it has n elements whenever the
        unpacking does not raise), is the starred argument *X: one spelling for f(*X, y) and `a, b = X; f(a, b, y)`"""
        out, i = [], 0
        while i < len(args):
            a = args[i]
            if is_tag(a, "idx") and a[2] == (const(0),):
                n = self.seqlen.get(a[1])
                if n and all(i + k < len(args) and args[i + k] == ("idx", a[1], (const(k),)) for k in range(n)):
                    out.append(("star", a[1]))
                    i += n
                    continue
            out.append(a)
            i += 1
        return tuple(out)

    def call_value(self, f, args, kws, node):
        if not (is_tag(f, "ext") and (f[1] in DRAINERS or f[1] in STRUCT_CALLS)):
            for a in list(args) + list(kws.values()):
                if isinstance(a, tuple) and any(is_tag(x, "relem", "results") for x in subterms(a)):
                    self.relem_uses.append((self.ctx, node))
        if any(is_tag(a, "star") for a in args):
            if not (is_tag(f, "ext") and f[1].startswith(PURE_NS) and not f[1].startswith("builtins.")) and \
                    is_tag(f, "fn", "ext", "poolattr", "closure", "reccls", "opaquecls", "partial", "phi"):
                raise Unsup("*args of unknown length")
            if is_tag(f, "ext"):
                # a pure library routine: the call is a term, however its arguments are spelled (no signature is applied across a starred argument)
                if "out" in kws and kws["out"] != NONE:
                    raise Unsup("*args of unknown length together with out=")
                return self.fresh(self._callterm(("ext", ALIASES.get(f[1], f[1])), args, kws))
        if is_tag(f, "fn"):
            return self.call_fn(f, args, kws, node)
        if is_tag(f, "ext"):
            return self.call_ext(f[1], args, kws, node)
        if is_tag(f, "poolattr"):
            return self.call_method(("pool", f[1]), f[2], args, kws, node)
        if is_tag(f, "closure"):
            node, dfr = self.closures[f[1]]
            return self.call_body(node, dfr.rel, f[2], args, kws, node, outer=dfr)
        if is_tag(f, "reccls"):
            return self.record_new(f, args, kws)
        if is_tag(f, "opaquecls"):
            raise Unsup(f"instance of class {f[1]} (not a plain record: its constructor and methods are not followed)")
        if is_tag(f, "partial"):
            kw2 = dict(f[3])
            kw2.update(kws)
            return self.call_value(f[1], list(f[2]) + list(args), kw2, node)
        if is_tag(f, "phi") and carries_fn(f):
            raise Unsup("call of a function chosen by an undecided test")
        # a callable value that comes from outside (user-supplied peak / rolloff, coefficient function picked from a table): assumed pure
        for a in list(args) + list(kws.values()):
            if isinstance(a, tuple) and any(is_tag(x, "pool", "poolattr") for x in subterms(a)):
                raise Unsup("a pool is handed to a callable the analysis does not follow")
        return self.fresh(self._callterm(self.snap(f), args, kws))

    def closure(self, node, fr):
        """a lambda / nested def as a value: its body is followed when it is called, free names are read from the defining frame"""
        for n in ast.walk(node):
            if isinstance(n, (ast.Nonlocal, ast.Yield, ast.YieldFrom, ast.Await)) or (isinstance(n, ast.Global) and n is not node):
                raise Unsup("nested function with nonlocal / global / yield")
        k = len(self.closures) + 1
        self.closures[k] = (node, fr)
        return ("closure", k, getattr(node, "name", "<lambda>"))

    def must_inline(self, rel, q, args, kws):
        s = self.world.summary(rel, q)
        if s & {"global", "mutates", "mp", "calls_param", "trivial", "stores", "iter"}:
            return True
        if self.frames or self.ctx[0] != "parent":
            return True
        for a in list(args) + list(kws.values()):
            if carries_fn(a):
                return True
            if isinstance(a, tuple) and any(is_tag(x, "ref") and self.heap[x[1]].kind == "raw" for x in subterms(a)):
                return True          # a helper that is handed a shared buffer: what it does with it (view, copy, store) is followed
        return False

    def call_fn(self, f, args, kws, node):
        _, rel, q = f
        fn = self.world.func(rel, q)
        if fn is None:
            raise Unsup(f"function {q} not found")
        if not self.must_inline(rel, q, args, kws):
            if not getattr(self.world, "inline_all", False) or q in getattr(self.world, "keep_opaque", ()):
                return self.fresh(self._callterm(f, args, kws))
            # normalising run: every helper of the analysed modules is followed, in the parent as in the tasks (a helper that only computes,
            # with early returns, as one merged value where its tests are not decided)
            return self.call_body(fn, rel, q, args, kws, node, merged=True)
        return self.call_body(fn, rel, q, args, kws, node)

    def merged_block(self, stmts, fr):
        """the statements of a helper that only computes (see `simple_if`), up to its return -> the returned value, merged over the tests that
        are not decided: `if c: return a` followed by `return b` is `a if c else b`"""
        for i, st in enumerate(stmts):
            self.cur_node = st
            if isinstance(st, ast.Return):
                return self.ev(st.value, fr) if st.value is not None else NONE
            if isinstance(st, ast.If) and any(isinstance(n, ast.Return) for n in ast.walk(st)):
                c = self.snap(self.ev(st.test, fr))
                r = self.try_decided(c)
                rest = list(stmts[i + 1:])
                if r is not None:
                    return self.merged_block(list(st.body if r else st.orelse) + rest, fr)
                base = dict(fr.locals)
                n_ev = len(self.events)
                vals = []
                self.merging += 1
                try:
                    for arm in (st.body, st.orelse):
                        fr.locals = dict(base)
                        try:
                            vals.append(self.merged_block(list(arm) + rest, fr))
                        except PathDead:
                            vals.append(None)
                finally:
                    self.merging -= 1
                if len(self.events) != n_ev:
                    raise Unsup("store under a test that was meant to be merged")
                a, b = vals
                if a is None and b is None:
                    raise PathDead()
                if a is None or b is None:
                    return b if a is None else a          # an arm that only raises: the function goes on under the other one
                return self.merge_values(c, a, b)
            self.exec_stmt(st, fr)
        return NONE

    def merge_values(self, c, a, b):
        if a == b:
            return a
        if is_tag(a, "tuple") and is_tag(b, "tuple") and len(a) == len(b):
            return ("tuple",) + tuple(self.merge_values(c, x, y) for x, y in zip(a[1:], b[1:]))
        return ("phi", c, a, b)

    def call_body(self, fn, rel, q, args, kws, node, outer=None, merged=False):
        if self.depth >= self.MAXDEPTH:
            raise Unsup("helper nesting too deep")
        fr = Frame(fn, rel, self.depth + 1)
        fr.outer = outer
        a = fn.args
        params = [x.arg for x in a.posonlyargs + a.args]
        if len(args) > len(params) and not a.vararg:
            raise Unsup(f"too many positional arguments for {q}")
        for p, v in zip(params, args):
            fr.locals[p] = v
        if a.vararg:
            fr.locals[a.vararg.arg] = ("tuple",) + tuple(args[len(params):])
        kwonly = [x.arg for x in a.kwonlyargs]
        extra = {}
        for k, v in kws.items():
            if k in params or k in kwonly:
                if k in fr.locals:
                    raise Unsup(f"argument {k} given twice to {q}")
                fr.locals[k] = v
            else:
                extra[k] = v
        if extra:
            if not a.kwarg:
                raise Unsup(f"unexpected keyword {sorted(extra)} for {q}")
            o = self.new_obj("dict", None)
            for k, v in extra.items():
                o.entries[const(k)] = v
            fr.locals[a.kwarg.arg] = ("dref", o.oid)
        elif a.kwarg:
            fr.locals[a.kwarg.arg] = ("dref", self.new_obj("dict", None).oid)
        dfl = dict(zip(params[::-1], (a.defaults or [])[::-1]))
        for p in params:
            if p not in fr.locals:
                if p not in dfl:
                    raise Unsup(f"missing argument {p} of {q}")
                fr.locals[p] = self.ev_const(dfl[p], rel)
        for p, d in zip(kwonly, a.kw_defaults):
            if p not in fr.locals:
                if d is None:
                    raise Unsup(f"missing keyword-only argument {p} of {q}")
                fr.locals[p] = self.ev_const(d, rel)
        for L in self.launches:
            if L.fid is not None and any(x.fid == L.fid for x in self.frames) and fn not in L.fns:
                L.fns.append(fn)
            if self.ctx == ("init", L.lid) and fn not in L.init_fns:
                L.init_fns.append(fn)
        self.depth += 1
        saved = self.cur_node
        try:
            if isinstance(fn, ast.Lambda):
                ret = self.ev(fn.body, fr)
            elif any(isinstance(n, (ast.Yield, ast.YieldFrom)) for n in _walk_scope(fn)):
                ret = self.ev(self.generator_as_genexp(fn), fr)
            elif merged and not self.merging and any(isinstance(n, ast.Return) for b in fn.body if isinstance(b, ast.If) for n in ast.walk(b)) and \
                    self.simple_if(ast.If(test=ast.Constant(value=True), body=fn.body, orelse=[]), fr, returns=True):
                ret = self.merged_block(fn.body, fr)
            else:
                self.exec_block(fn.body, fr)
                ret = NONE
        except _Return as r:
            ret = r.value
        finally:
            self.depth -= 1
            self.cur_node = saved
        return ret

    @staticmethod
    def generator_as_genexp(fn):
        """def f(...): for x in it: yield e   is the generator expression  (e for x in it)"""
        body = [b for b in fn.body if not (isinstance(b, ast.Expr) and isinstance(b.value, ast.Constant))]
        if len(body) == 1 and isinstance(body[0], ast.For) and not body[0].orelse and len(body[0].body) == 1:
            y = body[0].body[0]
            if isinstance(y, ast.Expr) and isinstance(y.value, ast.Yield) and y.value.value is not None:
                g = ast.GeneratorExp(elt=y.value.value, generators=[ast.comprehension(target=body[0].target, iter=body[0].iter, ifs=[], is_async=0)])
                return ast.copy_location(g, body[0])
        if len(body) == 1 and isinstance(body[0], ast.Expr) and isinstance(body[0].value, ast.YieldFrom):
            return body[0].value.value
        raise Unsup(f"generator function {fn.name} (only `for x in it: yield e` is followed)")

    def all_refs(self, v):
        return [x for x in subterms(v) if is_tag(x, "ref")]

    def normalise_call(self, name, args, kws):
        """library knowledge that does not depend on how the call is spelled: aliases, documented parameter order and defaults, float64 dtypes"""
        name = ALIASES.get(name, name)
        args, kws = list(args), dict(kws)
        if name.startswith("numpy.") and "dtype" in kws and self.snap(kws["dtype"], record=False) in FLOAT64_DT:
            kws["dtype"] = ("ext", "numpy.float64")
        sig = SIGS.get(name)
        if sig is not None and "**" not in kws:
            params, dfl = sig
            if len(args) <= len(params) and not any(params[i] in kws for i in range(len(args))):
                first_opt = min(params.index(k) for k in dfl)
                for i in range(len(args) - 1, first_opt - 1, -1):
                    kws[params[i]] = args.pop()
                # required parameters given by name
                while len(args) < first_opt and params[len(args)] in kws:
                    args.append(kws.pop(params[len(args)]))
                if "dtype" in kws and name.startswith("numpy.") and self.snap(kws["dtype"], record=False) in FLOAT64_DT:
                    kws["dtype"] = ("ext", "numpy.float64")
                for k, d in dfl.items():
                    if k in kws and self.snap(kws[k], record=False) == d:
                        del kws[k]
        return name, args, kws

    def call_ext(self, name, args, kws, node):
        name, args, kws = self.normalise_call(name, args, kws)
        if name == "builtins.dict" and "**" not in kws and (not args or (len(args) == 1 and is_tag(args[0], "dref"))):
            o = self.new_obj("dict", None)
            if args:
                if self.heap[args[0][1]].meta.get("ns"):
                    raise Unsup("dict() of a record")
                o.entries.update(self.heap[args[0][1]].entries)
            for k, v in kws.items():
                o.entries[const(k)] = v
            return ("dref", o.oid)
        if name == "types.SimpleNamespace" and not args and "**" not in kws:
            o = self.new_obj("dict", None)
            for k, v in kws.items():
                o.entries[const(k)] = v
            o.meta["ns"] = True
            return ("dref", o.oid)
        if name in ("numpy.copy", "numpy.array", "numpy.asarray", "numpy.ascontiguousarray", "numpy.asanyarray") and len(args) == 1 and not kws and \
                is_tag(args[0], "ref") and self.heap[args[0][1]].kind in ("raw", "array", "fresh", "derived"):
            # a new array with the same content (layout and ownership are not values)
            o = self.new_obj("array" if name in ("numpy.copy", "numpy.array") else "fresh", self.content(args[0]), self.ref_shape(args[0]))
            return ("ref", o.oid, None, ())
        if name in ("builtins.tuple", "builtins.list") and len(args) == 1 and not kws and is_tag(args[0], "tuple", "list"):
            return (name.split(".")[1],) + tuple(args[0][1:])
        if name in ("builtins.tuple", "builtins.list") and not args and not kws:
            return (name.split(".")[1],)
        if name == "functools.partial" and args and "**" not in kws:
            return ("partial", args[0], tuple(args[1:]), tuple(sorted(kws.items())))
        if name == "builtins.slice" and 1 <= len(args) <= 3 and not kws:
            a = [self.snap(x) for x in args]
            a = [NONE, a[0], NONE] if len(a) == 1 else a + [NONE] * (3 - len(a))
            return ("slice",) + tuple(a)
        if name == "numpy.reshape" and len(args) == 2 and not kws and is_tag(args[0], "ref") and self.heap[args[0][1]].kind == "raw" \
                and args[0][2] is None and args[0][3] == ():
            return self.call_method(args[0], "reshape", [args[1]], {}, node)
        if name == "contextlib.closing" and len(args) == 1 and not kws and is_tag(args[0], "pool"):
            self.pools[args[0][1]].closing = True        # `with closing(pool)`: leaving the block calls pool.close(), not terminate()
            return args[0]
        if name not in DRAINERS and name not in STRUCT_CALLS and name != "builtins.print":
            for a in list(args) + list(kws.values()):
                if isinstance(a, tuple) and any(is_tag(x, "pool", "poolattr") for x in subterms(a)):
                    raise Unsup(f"a pool is handed to {name}, which the analysis does not follow")
        if name == "multiprocessing.get_context":
            return ("mod", "multiprocessing")            # the context object offers the same Pool / RawArray
        if name in ("multiprocessing.Array", "multiprocessing.sharedctypes.Array") and len(args) == 2 and not (set(kws) - {"lock"}):
            name, kws = "multiprocessing.RawArray", {}          # a RawArray behind a lock wrapper (`.get_obj()` hands out the RawArray)
        if name == "numpy.ctypeslib.as_array" and len(args) == 1 and not kws and is_tag(args[0], "ref") and self.heap[args[0][1]].kind == "raw":
            self.views.append((args[0][1], None, node))         # numpy view of the ctypes array, element type taken from the ctype
            return ("ref", args[0][1], None, ())
        if name == "multiprocessing.RawArray" or name == "multiprocessing.sharedctypes.RawArray":
            if len(args) != 2:
                raise Unsup("RawArray arguments")
            o = self.new_obj("raw", ZEROS)
            o.meta["ctype"] = self.snap(args[0])
            o.meta["size"] = self.snap(args[1])
            return ("ref", o.oid, None, ())
        if name in ("multiprocessing.Pool", "multiprocessing.pool.Pool", "concurrent.futures.ProcessPoolExecutor",
                    "concurrent.futures.process.ProcessPoolExecutor"):
            p = Pool(len(self.pools) + 1)
            p.executor = "Executor" in name
            names = ["max_workers", "mp_context", "initializer", "initargs"] if p.executor else ["processes", "initializer", "initargs", "maxtasksperchild"]
            if p.executor and "max_workers" in kws:
                kws = dict(kws, processes=kws["max_workers"])
                del kws["max_workers"]
            elif p.executor and args:
                kws = dict(kws, processes=args[0])
                args = [NONE] + list(args[1:])
            got = dict(zip(names, args))
            got.update(kws)
            p.processes = self.snap(got.get("processes", NONE))
            p.initializer = got.get("initializer", NONE)
            p.initargs = got.get("initargs", ("tuple",))
            p.node = node
            p.fork_env = dict(self.proc["parent"])
            p.seq = self.tick()
            self.pools[p.pid] = p
            return ("pool", p.pid)
        if name == "numpy.frombuffer" and args and is_tag(args[0], "ref") and self.heap[args[0][1]].kind == "raw":
            r = args[0]
            dt = kws.get("dtype", args[1] if len(args) > 1 else None)
            self.views.append((r[1], None if dt is None else self.snap(dt), node))
            extra = {k: v for k, v in kws.items() if k != "dtype"}
            extra.update(zip(("count", "offset"), args[2:4]))
            if len(args) > 4 or set(extra) - {"count", "offset"} or self.snap(extra.get("count", const(-1))) != const(-1) or \
                    self.snap(extra.get("offset", const(0))) != const(0):
                raise Unsup("np.frombuffer with count/offset")         # (count=-1, offset=0 are the defaults: the whole buffer)
            return ("ref", r[1], None, ())
        if name in ("numpy.zeros", "numpy.empty") and len(args) == 1 and not kws:
            sh = self.snap(args[0])
            if not is_tag(sh, "tuple", "list"):
                sh = ("tuple", sh)
            else:
                sh = ("tuple",) + tuple(sh[1:])
            o = self.new_obj("array", ZEROS if name.endswith("zeros") else EMPTY, sh)
            return ("ref", o.oid, None, ())
        if name in ("numpy.zeros_like", "numpy.empty_like") and len(args) == 1 and not kws and is_tag(args[0], "ref") and \
                self.heap[args[0][1]].kind in ("array", "raw") and self.ref_shape(args[0]) is not None:
            # same shape (and element type: the arrays of this analysis hold float64) as the argument
            o = self.new_obj("array", ZEROS if name.endswith("zeros_like") else EMPTY, self.ref_shape(args[0]))
            return ("ref", o.oid, None, ())
        if name in UFUNC and len(args) >= 2:
            out = kws.get("out", args[2] if len(args) > 2 else None)
            extra = {k: v for k, v in kws.items() if k != "out"}
            if not extra:
                val = ("bin", UFUNC[name], self.snap(args[0]), self.snap(args[1]))
                if out is None or out == NONE:
                    return val
                if not is_tag(out, "ref"):
                    raise Unsup("out= is not an array the analysis tracks")
                self.store(out, val, how="out=")
                return out
        if name == "numpy.copyto" and len(args) >= 2 and is_tag(args[0], "ref"):
            self.store(args[0], self.snap(args[1]), how="copyto")
            return NONE
        if "out" in kws and kws["out"] != NONE:
            out = kws["out"]
            if not is_tag(out, "ref"):
                raise Unsup("out= is not an array the analysis tracks")
            rest = {k: v for k, v in kws.items() if k != "out"}
            self.store(out, self._callterm(("ext", name), args, rest), how="out=")
            return out
        if name == "builtins.print":
            for a in args:
                self.snap(a)
            return NONE
        if name == "builtins.len" and len(args) == 1:
            v = args[0]
            if is_tag(v, "tuple", "list"):
                return const(len(v) - 1)
            if is_tag(v, "ref"):
                sh = self.ref_shape(v)
                if is_tag(sh, "tuple") and len(sh) > 1:
                    return sh[1]
            return ("call", ("ext", name), (self.snap(v),), ())
        if name in STRUCT_CALLS:
            return ("call", ("ext", name), tuple(args), tuple(("kw", k, v) for k, v in sorted(kws.items())))
        if name in DRAINERS:
            for a in args:
                if is_tag(a, "results"):
                    self.drain(a[1])
                elif is_tag(a, "iterd") or (is_tag(a, "call") and is_tag(a[1], "ext") and a[1][1] in STRUCT_CALLS):
                    # a generator / zip / enumerate over the result iterator: consuming it consumes the results
                    try:
                        lid = self.iter_desc(a)[2]
                    except Unsup:
                        lid = None
                    if lid is not None:
                        self.drain(lid)
            return self._callterm(("ext", name), args, kws) if name.startswith("builtins.") else self.fresh(self._callterm(("ext", name), args, kws))
        if name == "builtins.locals":
            return ("s", "<locals()>")
        if name.startswith("builtins."):
            return self._callterm(("ext", name), args, kws)
        if name.startswith(PURE_NS):
            return self.fresh(self._callterm(("ext", name), args, kws))
        # unknown foreign routine (ctypes.memmove, ...): everything it is handed may be overwritten
        for a in list(args) + list(kws.values()):
            for r in self.all_refs(a):
                self.escape(r, name)
        return self.fresh(("call", ("ext", name), tuple(self.snap(a, record=False) for a in args),
                           tuple(("kw", k, self.snap(v, record=False)) for k, v in sorted(kws.items()))))

    def call_method(self, recv, name, args, kws, node):
        if is_tag(recv, "pool"):
            p = self.pools[recv[1]]
            if name in ("imap_unordered", "imap", "map", "starmap"):
                got = dict(zip(["func", "iterable", "chunksize"], args))
                got.update(kws)
                if "func" not in got or "iterable" not in got:
                    raise Unsup("pool.%s arguments" % name)
                return self.launch(p, got["func"], got["iterable"], node, sync=(name in ("map", "starmap")), ordered=(name != "imap_unordered"),
                                   star=(name == "starmap"), chunk=got.get("chunksize"), how=name)
            if getattr(p, "executor", False):
                if name == "map" and args and len(args) == 2 and not (set(kws) - {"chunksize", "timeout"}):
                    # Executor.map: results in task order; leaving the `with` block / shutdown() waits for every task
                    return self.launch(p, args[0], args[1], node, sync=False, ordered=True, chunk=kws.get("chunksize"), how="Executor.map")
                if name == "shutdown" and kws.get("wait", args[0] if args else TRUE) == TRUE:
                    self.pool_end(p, node)
                    return NONE
                raise Unsup(f"executor method {name}")
            if name in ("terminate", "join"):
                self.pool_end(p, node)
                return NONE
            if name == "close":
                return NONE
            raise Unsup(f"pool method {name}")
        if is_tag(recv, "results"):
            raise Unsup(f"method {name} of the result iterator")
        if is_tag(recv, "ref"):
            obj = self.heap[recv[1]]
            if name == "reshape" and obj.kind == "raw" and recv[2] is None and recv[3] == () and not kws and args:
                sh = self.snap(args[0]) if len(args) == 1 else ("tuple",) + tuple(self.snap(a) for a in args)
                if is_tag(sh, "list"):
                    sh = ("tuple",) + tuple(sh[1:])
                self.shaped.append((recv[1], sh, node))
                return ("ref", recv[1], sh, ())
            if name in MUT_METHODS:
                self.store(recv, self._callterm(("attr", self.content(recv), name), args, kws), how="." + name)
                return NONE
            if name == "copy" and not args and not kws:
                return self.call_ext("numpy.copy", [recv], {}, node)
            if name == "get_obj" and not args and not kws and obj.kind == "raw":
                return recv
            return self.method_value(recv, name, args, kws, node)
        if is_tag(recv, "dref") and self.heap[recv[1]].meta.get("ns"):
            obj = self.heap[recv[1]]
            if const(name) in obj.entries:
                return self.call_value(obj.entries[const(name)], args, kws, node)
            raise Unsup(f"method {name} of a record")
        if is_tag(recv, "dref"):
            obj = self.heap[recv[1]]
            if name == "get" and args and self.snap(args[0]) in obj.entries:
                return obj.entries[self.snap(args[0])]
            if name in ("items", "keys", "values") and not args and not kws:
                return ("dictview", recv[1], name)
            if name == "update" and len(args) <= 1 and "**" not in kws:
                # d.update(other, key=value): entry by entry, like d[key] = value
                if args:
                    if not is_tag(args[0], "dref") or self.heap[args[0][1]].meta.get("ns"):
                        raise Unsup("dict.update() with something else than a dict the analysis tracks")
                    obj.entries.update(self.heap[args[0][1]].entries)
                for k, v in kws.items():
                    obj.entries[const(k)] = v
                return NONE
            if name == "setdefault" and len(args) == 2 and not kws and is_const(self.snap(args[0], record=False)):
                return obj.entries.setdefault(self.snap(args[0], record=False), args[1])
            if name in ("pop", "popitem", "clear", "update", "setdefault", "__setitem__", "__delitem__"):
                raise Unsup(f"dict mutated through .{name}()")
            return self.fresh(self._callterm(("attr", self.snap(recv), name), args, kws))
        if is_tag(recv, "gdict"):
            if name == "update" and len(args) <= 1 and "**" not in kws:
                new = []
                if args:
                    if not is_tag(args[0], "dref") or self.heap[args[0][1]].meta.get("ns"):
                        raise Unsup("update of a module-level state dict with something else than a dict literal")
                    new += list(self.heap[args[0][1]].entries.items())
                new += [(const(k), v) for k, v in kws.items()]
                for k, v in new:
                    self.write_global(self.gdict_key(recv, (k,)), v)
                return NONE
            raise Unsup(f"module-level state dict used through .{name}()")
        if is_tag(recv, "globals"):
            if name == "get" and len(args) in (1, 2) and not kws:
                return self.lookup_module(self.global_key(recv, (self.snap(args[0]),))[1], recv[1])
            if name == "update" and len(args) <= 1 and "**" not in kws:
                new = []
                if args:
                    if not is_tag(args[0], "dref"):
                        raise Unsup("globals().update() with something else than a dict literal")
                    new += list(self.heap[args[0][1]].entries.items())
                new += [(const(k), v) for k, v in kws.items()]
                for k, v in new:
                    self.write_global(self.global_key(recv, (k,)), v)
                return NONE
            raise Unsup(f"globals().{name}()")
        if recv == NONE:
            self.none_uses.append((self.ctx, node, f"method {name} of None"))
        if is_tag(recv, "list", "tuple", "dictc") and name in ("append", "extend", "insert", "pop", "remove", "update", "add", "clear", "sort", "reverse",
                                                             "setdefault", "appendleft"):
            raise Unsup(f"container mutated through .{name}()")
        if is_tag(recv, "c", "fstr", "dictc", "tuple", "list", "fn", "ext"):
            return self.fresh(self._callterm(("attr", self.snap(recv), name), args, kws))
        return self.method_value(recv, name, args, kws, node)

    def method_value(self, recv, name, args, kws, node):
        """x.max(...) of an array value is numpy.max(x, ...): one spelling for both"""
        if name in ND_METHODS and "**" not in kws:
            if name == "reshape" and len(args) > 1:
                args = [("tuple",) + tuple(self.snap(a) for a in args)]
            return self.call_ext("numpy." + name, [recv] + list(args), kws, node)
        return self.fresh(self._callterm(("attr", self.snap(recv), name), args, kws))

    # ------------------------------------------------------------------------------------------------ pool model
    def iter_desc(self, v):
        """-> (elem(lv) -> value, count term or None, launch id or None)"""
        if is_tag(v, "results"):
            L = self.launches[v[1] - 1]
            return (lambda lv: ("relem", v[1])), L.count, v[1]
        if is_tag(v, "call") and is_tag(v[1], "ext"):
            nm, a = v[1][1], v[2]
            if nm == "builtins.range" and len(a) == 1:
                return (lambda lv: lv), self.snap(a[0]), None
            if nm == "builtins.range" and len(a) == 2:
                lo, hi = self.snap(a[0]), self.snap(a[1])
                return (lambda lv: ("bin", "Add", lo, lv)), ("bin", "Sub", hi, lo), None
            if nm == "itertools.count" and len(a) <= 1 and not v[3]:
                if not a or self.snap(a[0]) == const(0):
                    return (lambda lv: lv), None, None
                lo = self.snap(a[0])
                return (lambda lv: ("bin", "Add", lo, lv)), None, None
            if nm == "itertools.repeat" and len(a) in (1, 2):
                x = a[0]
                return (lambda lv: x), (self.snap(a[1]) if len(a) == 2 else None), None
            if nm == "builtins.zip":
                ds = [self.iter_desc(x) for x in a]
                cs = [c for _, c, _ in ds if c is not None]
                cnt = None if not cs else (cs[0] if all(c == cs[0] for c in cs) else ("min",) + tuple(cs))
                lid = next((l for _, _, l in ds if l is not None), None)
                return (lambda lv: ("tuple",) + tuple(e(lv) for e, _, _ in ds)), cnt, lid
            if nm == "builtins.enumerate" and len(a) == 1:
                e, c, lid = self.iter_desc(a[0])
                return (lambda lv: ("tuple", lv, e(lv))), c, lid
            if nm in ("builtins.iter", "builtins.list", "builtins.tuple") and len(a) == 1:
                return self.iter_desc(a[0])
            if nm == "builtins.map" and len(a) >= 2 and not v[3]:
                ds = [self.iter_desc(x) for x in a[1:]]
                cs = [c for _, c, _ in ds if c is not None]
                cnt = None if not cs else (cs[0] if all(c == cs[0] for c in cs) else ("min",) + tuple(cs))
                lid = next((l for _, _, l in ds if l is not None), None)
                f, node = a[0], self.cur_node
                return (lambda lv: self.call_value(f, [e(lv) for e, _, _ in ds], {}, node)), cnt, lid
        if is_tag(v, "iterd"):
            node, fr, itv = self.iterds[v[1]]
            gen = node.generators[0]
            e, c, lid = self.iter_desc(itv)

            def elem(lv, node=node, fr=fr, gen=gen, e=e):
                sub = self.comp_frame(fr, gen)
                self.assign_target(gen.target, e(lv), sub)
                return self.ev(node.elt, sub)
            return elem, c, lid
        if is_tag(v, "ref") and self.heap[v[1]].kind == "fresh" and v[3] == () and not self.heap[v[1]].events and \
                is_tag(self.heap[v[1]].init, "call") and self.heap[v[1]].init[1] == ("ext", "numpy.arange") and not self.heap[v[1]].init[3] and \
                len(self.heap[v[1]].init[2]) in (1, 2) and all(self.is_index_count(x) for x in self.heap[v[1]].init[2]):
            # numpy.arange(n): the integers 0 .. n-1 (as numpy integers: they index like Python integers)
            return self.iter_desc(("call", ("ext", "builtins.range"), self.heap[v[1]].init[2], ()))
        if is_tag(v, "ref"):
            sh = self.ref_shape(v)
            cnt = sh[1] if is_tag(sh, "tuple") and len(sh) > 1 else ("call", ("ext", "builtins.len"), (self.snap(v, record=False),), ())
            return (lambda lv: self.subref(v, (lv,))), cnt, None
        if is_tag(v, "tuple", "list", "dictview", "dref", "dictc"):
            raise Unsup("loop over a literal sequence that is too long to be unrolled")
        sv = self.snap(v)
        return (lambda lv: mkidx(sv, (lv,))), ("call", ("ext", "builtins.len"), (sv,), ()), None

    @staticmethod
    def is_index_count(t):
        """an integer by construction: a constant, len(...), .size, or integer arithmetic on such"""
        if is_const(t):
            return t[1] == "int"
        if is_tag(t, "call") and t[1] == ("ext", "builtins.len"):
            return True
        if is_tag(t, "attr") and t[2] in ("size", "ndim"):
            return True
        if is_tag(t, "idx") and is_tag(t[1], "attr") and t[1][2] == "shape":
            return True
        if is_tag(t, "bin") and t[1] in ("Add", "Sub", "Mult", "FloorDiv"):
            return Sim.is_index_count(t[2]) and Sim.is_index_count(t[3])
        return False

    def comp_frame(self, fr, gen):
        sub = Frame(fr.fn, fr.rel, fr.depth)
        sub.locals = dict(fr.locals)
        sub.globals_decl = fr.globals_decl
        sub.local_names = set(fr.local_names) | assigned_names(gen.target)
        sub.outer = getattr(fr, "outer", None)
        sub.is_comp = True
        return sub

    def finite_elems(self, v, ranges=False):
        """the elements of a literal sequence (or of zip / enumerate / reversed of literal sequences); None when the length is not known.
        ranges=True (comprehensions, unpacking): range(constant) counts as a literal sequence too"""
        if ranges and is_tag(v, "call") and v[1] == ("ext", "builtins.range") and not v[3] and 1 <= len(v[2]) <= 3 and \
                all(is_const(self.snap(x, record=False)) and self.snap(x, record=False)[1] == "int" for x in v[2]):
            r = range(*[self.snap(x, record=False)[2] for x in v[2]])
            return [const(i) for i in r] if len(r) <= UNROLL_MAX else None
        if is_tag(v, "tuple", "list"):
            return list(v[1:]) if len(v) - 1 <= UNROLL_MAX else None
        if is_tag(v, "dictc"):
            return [k for k, _ in v[1]] if len(v[1]) <= UNROLL_MAX else None
        if is_tag(v, "dref"):
            ks = list(self.heap[v[1]].entries)
            return ks if len(ks) <= UNROLL_MAX else None
        if is_tag(v, "dictview"):
            ent = list(self.heap[v[1]].entries.items())
            if len(ent) > UNROLL_MAX:
                return None
            return [k if v[2] == "keys" else (x if v[2] == "values" else ("tuple", k, x)) for k, x in ent]
        if is_tag(v, "call") and is_tag(v[1], "ext") and not v[3]:
            nm, a = v[1][1], v[2]
            if nm == "builtins.zip" and a:
                parts = [self.finite_elems(x) for x in a]
                if any(p is None for p in parts):
                    return None          # zip stops at the shortest: every length has to be known
                return [("tuple",) + t for t in zip(*parts)]
            if nm == "builtins.enumerate" and len(a) in (1, 2):
                p = self.finite_elems(a[0])
                k0 = 0
                if len(a) == 2:
                    if not (is_const(a[1]) and a[1][1] == "int"):
                        return None
                    k0 = a[1][2]
                return None if p is None else [("tuple", const(k0 + i), x) for i, x in enumerate(p)]
            if nm == "builtins.reversed" and len(a) == 1:
                p = self.finite_elems(a[0])
                return None if p is None else p[::-1]
            if nm in ("builtins.iter", "builtins.list", "builtins.tuple") and len(a) == 1:
                return self.finite_elems(a[0])
            if nm == "builtins.map" and len(a) >= 2:
                parts = [self.finite_elems(x) for x in a[1:]]
                if any(p is None for p in parts):
                    return None
                # the function applied element by element, where the sequence is consumed
                return [self.call_value(a[0], list(t), {}, self.cur_node) for t in zip(*parts)]
        return None

    def launch(self, pool, func, iterable, node, sync, ordered, star=False, chunk=None, how=None):
        L = Launch(len(self.launches) + 1)
        self.launches.append(L)
        L.pid, L.func, L.node, L.ordered = pool.pid, func, node, ordered
        L.how = how
        L.chunk = None if chunk is None else self.snap(chunk, record=False)       # the chunksize argument as given (None: left out)
        elem, cnt, _ = self.iter_desc(iterable)
        L.count = cnt
        L.seq0 = self.tick()
        wp = "worker:%d" % L.lid
        self.proc[wp] = {k: (v, "inherited") for k, (v, p) in pool.fork_env.items()}
        saved = (self.cur_proc, self.ctx, self.cur_node)
        self.cur_proc = wp
        try:
            if pool.initializer != NONE:
                ia = pool.initargs
                if not is_tag(ia, "tuple", "list"):
                    raise Unsup("initargs is not a literal tuple on this path")
                self.ctx = ("init", L.lid)
                self.call_value(pool.initializer, list(ia[1:]), {}, node)
            self.ctx = ("task", L.lid)
            self.fid += 1
            fr = LoopFrame(self.fid, "task", cnt, L.lid, depth=len(self.frames))
            self.allframes[fr.fid] = fr
            L.fid = fr.fid
            self.frames.append(fr)
            lv = ("lv", len(self.frames) - 1)
            L.lv = lv
            L.elem = elem(lv)
            L.block = None
            fb = find_block(self.snap(L.elem, record=False), lv, pool.processes)
            if fb is not None:
                # the element holds (F(k), F(k+1)): the task owns the indices range(F(k), F(k+1)); k is named apart from the indices
                blk = ("blk", L.lid)
                L.block = Block(fb[2], lv, blk, self.snap(cnt, record=False) if cnt is not None else None, pool.processes)
                L.block.paths = fb[:2]
                L.elem = tmap(lambda x: blk if x == lv else x, L.elem)
                L.ntasks = cnt
                L.count = L.block.span()
                fr.count = L.count
            if star and not is_tag(L.elem, "tuple", "list"):
                raise Unsup("starmap over tasks that are not literal tuples")
            L.ret = self.call_value(func, list(L.elem[1:]) if star else [L.elem], {}, node)
            self.frames.pop()
        finally:
            self.cur_proc, self.ctx, self.cur_node = saved
        L.seq1 = self.tick()
        if sync:
            self.drain(L.lid)
        return ("results", L.lid)

    def drain(self, lid):
        L = self.launches[lid - 1]
        if not L.drained:
            L.drained = True
            L.drain_seq = self.tick()

    def pool_end(self, pool, node):
        if pool.ended:
            return
        if getattr(pool, "executor", False):
            for L in self.launches:
                if L.pid == pool.pid:
                    self.drain(L.lid)          # shutdown(wait=True) returns when every submitted task has run
        pool.ended = True
        pool.end_seq = self.tick()
        pool.end_node = node

    # ------------------------------------------------------------------------------------------------ statements
    def exec_block(self, stmts, fr):
        for st in stmts:
            self.exec_stmt(st, fr)

    def assign_target(self, t, v, fr, aug=None):
        if isinstance(t, ast.Name):
            self.bind(t.id, v, fr)
        elif isinstance(t, (ast.Tuple, ast.List)):
            stars = [i for i, e in enumerate(t.elts) if isinstance(e, ast.Starred)]
            if stars:
                # a, *rest, z = (literal sequence): rest is the list of what the other targets leave
                if is_tag(v, "dref") and self.heap[v[1]].meta.get("order"):
                    v = ("tuple",) + tuple(self.heap[v[1]].entries[const(f)] for f in self.heap[v[1]].meta["order"])
                if len(stars) != 1 or not is_tag(v, "tuple", "list"):
                    raise Unsup("starred assignment target on a sequence of unknown length")
                i, after = stars[0], len(t.elts) - stars[0] - 1
                vals = list(v[1:])
                if len(vals) < len(t.elts) - 1:
                    raise Unsup("unpacking length mismatch")
                mid = ("list",) + tuple(vals[i:len(vals) - after])
                parts = vals[:i] + [mid] + vals[len(vals) - after:]
                for e, x in zip(t.elts, parts):
                    self.assign_target(e.value if isinstance(e, ast.Starred) else e, x, fr)
                return
            n = len(t.elts)
            if is_tag(v, "call") and is_tag(v[1], "ext") and v[1][1] in STRUCT_CALLS:
                els = self.finite_elems(v)
                if els is not None:
                    v = ("tuple",) + tuple(els)
            if is_tag(v, "tuple", "list"):
                if len(v) - 1 != n:
                    raise Unsup("unpacking length mismatch")
                parts = v[1:]
            elif is_tag(v, "dref") and self.heap[v[1]].meta.get("order"):
                o = self.heap[v[1]]
                if len(o.meta["order"]) != n:
                    raise Unsup("unpacking length mismatch")
                parts = [o.entries[const(f)] for f in o.meta["order"]]
            elif is_tag(v, "ref"):
                parts = [self.subref(v, (const(i),)) for i in range(n)]
                if self.heap[v[1]].kind == "fresh" and v[3] == () and not self.heap[v[1]].events:
                    self.seqlen.setdefault(self.heap[v[1]].init, n)
            else:
                sv = self.snap(v)
                parts = [mkidx(sv, (const(i),)) for i in range(n)]
                self.seqlen.setdefault(sv, n)
            for e, x in zip(t.elts, parts):
                self.assign_target(e, x, fr)
        elif isinstance(t, ast.Subscript):
            base = self.ev(t.value, fr)
            items = self.index_items(t.slice, fr)
            if any(is_tag(x, "unboundlocal") for it in items for x in subterms(it)):
                return          # the index reads a name that is not bound: the statement raises (recorded in unbound_locals)
            if is_tag(base, "ref"):
                dst = self.subref(base, items)
                if is_tag(v, "iterd") and self.store_comp(dst, v):
                    return
                if is_tag(v, "tuple", "list") and self.store_elems(dst, v):
                    return
                self.store(dst, self.snap(v))
            elif is_tag(base, "dref"):
                if len(items) != 1:
                    raise Unsup("dict key")
                self.heap[base[1]].entries[items[0]] = v
            elif is_tag(base, "globals"):
                self.write_global(self.global_key(base, items), v)
            elif is_tag(base, "gdict"):
                self.write_global(self.gdict_key(base, items), v)
            elif base == NONE:
                self.none_uses.append((self.ctx, t, "store into None"))
            elif any(is_tag(x, "unboundlocal", "oob") for x in subterms(base)):
                pass        # already recorded: the statement raises
            elif self._undefined_root(t.value, fr) is not None:
                self.unbound_locals.append((self.ctx, t, self._undefined_root(t.value, fr), getattr(fr.fn, "name", "<lambda>")))      # NameError
            else:
                raise Unsup(f"store into `{ast.unparse(t.value)}` whose value is not a tracked object")
        elif isinstance(t, ast.Attribute):
            base = self.ev(t.value, fr)
            if is_tag(base, "dref") and self.heap[base[1]].meta.get("ns") and not self.heap[base[1]].meta.get("order") and \
                    self.heap[base[1]].born_ctx == self.ctx:
                self.heap[base[1]].entries[const(t.attr)] = v        # field of a record made in the same process
                return
            self.attr_stores.append((self.ctx, t))
            if self.ctx[0] == "parent":
                raise Unsup("attribute store in the parent")
        else:
            raise Unsup(f"assignment target {type(t).__name__}")

    def store_comp(self, dst, v):
        """A[s] = [f(x) for x in X]  with as many elements as A[s] has entries on its first axis is the loop  for k: A[s][k] = f(X[k])"""
        node, fr, itv = self.iterds[v[1]]
        if not isinstance(node, ast.ListComp):
            return False
        elem, cnt, lid = self.iter_desc(v)
        sh = self.ref_shape(dst)
        if cnt is None or not is_tag(sh, "tuple") or len(sh) < 2 or self.snap(sh[1], record=False) != self.snap(cnt, record=False):
            return False
        self.fid += 1
        lf = LoopFrame(self.fid, "for", cnt, depth=len(self.frames))
        self.allframes[lf.fid] = lf
        self.frames.append(lf)
        saved = self.cur_node
        try:
            lv = ("lv", len(self.frames) - 1)
            val = self.snap(elem(lv))
            self.cur_node = saved
            self.store(self.subref(dst, (lv,)), val)
        finally:
            self.frames.pop()
        return True

    def store_elems(self, dst, v):
        """A[lo:hi, j] = (e_0, ..., e_n-1)  where the slice is the only axis of the region that is not a single index and selects exactly n
        positions (constant bounds on an axis of constant length) is the sequence of stores A[lo + k, j] = e_k"""
        _, oid, shape, sel = dst
        sh = shape if shape is not None else self.heap[oid].shape
        if not is_tag(sh, "tuple") or len(sel) != len(sh) - 1:
            return False
        reg = [i for i, it in enumerate(sel) if is_slice(it) or is_tag(it, "slice2", "subslice") or it == ELL]
        if len(reg) != 1 or not is_slice(sel[reg[0]]):
            return False
        i = reg[0]
        dim, (lo, hi, st) = sh[1 + i], sel[i][1:]
        if not (is_const(dim) and dim[1] == "int") or st not in (NONE, const(1)):
            return False
        n = dim[2]

        def bound(b, dflt):
            if b == NONE:
                return dflt
            if not (is_const(b) and b[1] == "int"):
                return None
            return max(0, min(n, b[2] + n if b[2] < 0 else b[2]))
        lo, hi = bound(lo, 0), bound(hi, n)
        if lo is None or hi is None or hi - lo != len(v) - 1 or len(v) - 1 < 1:
            return False
        for k, e in enumerate(v[1:]):
            self.store(("ref", oid, shape, sel[:i] + (const(lo + k),) + sel[i + 1:]), self.snap(e))
        return True

    def _undefined_root(self, node, fr):
        """name at the root of `node` when it is defined nowhere (not a local, parameter, module name or builtin): NameError at run time"""
        while isinstance(node, (ast.Subscript, ast.Attribute)):
            node = node.value
        if isinstance(node, ast.Name) and node.id not in fr.local_names and node.id not in fr.globals_decl and \
                self.lookup_module(node.id, fr.rel, record=False) == ("s", node.id):
            return node.id
        return None

    def simple_if(self, st, fr, returns=False):
        mi = self.world.mods[fr.rel]

        def ok_expr(e):
            for n in ast.walk(e):
                if isinstance(n, (ast.IfExp, ast.NamedExpr, ast.Lambda, ast.GeneratorExp, ast.ListComp, ast.Await, ast.Yield)):
                    return False
                if isinstance(n, ast.Call):
                    fx = n.func
                    last = fx.attr if isinstance(fx, ast.Attribute) else (fx.id if isinstance(fx, ast.Name) else None)
                    if last in MP_NAMES or last in MUT_METHODS:
                        return False
                    if any(k.arg == "out" for k in n.keywords):
                        return False
                    callee = None
                    if isinstance(fx, ast.Name) and fx.id in mi.funcs and fx.id not in fr.local_names:
                        callee = (fr.rel, fx.id)
                    elif isinstance(fx, ast.Attribute) and isinstance(fx.value, ast.Name) and mi.imports.get(fx.value.id, ("",))[0] == "rmod":
                        callee = (mi.imports[fx.value.id][1], fx.attr)
                    if callee is not None:
                        if self.frames or self.ctx[0] != "parent" or getattr(self.world, "inline_all", False):
                            return False
                        if callee[1] in self.world.mods[callee[0]].funcs and self.world.summary(*callee) & {"global", "mutates", "mp", "calls_param"}:
                            return False
                    if isinstance(fx, ast.Name) and fx.id in fr.local_names and carries_fn(fr.locals.get(fx.id, ())):
                        return False
            return True

        def ok_block(stmts):
            for s in stmts:
                if isinstance(s, (ast.Pass, ast.Raise)):
                    continue
                if returns and isinstance(s, ast.Return):
                    if s.value is not None and not ok_expr(s.value):
                        return False
                    continue
                if isinstance(s, ast.Expr):
                    if not ok_expr(s.value):
                        return False
                    continue
                if isinstance(s, ast.Assign):
                    for t in s.targets:
                        for x in ([t] if not isinstance(t, (ast.Tuple, ast.List)) else t.elts):
                            if not isinstance(x, ast.Name) or x.id in fr.globals_decl:
                                return False
                    if not ok_expr(s.value):
                        return False
                    continue
                if isinstance(s, ast.If):
                    if not ok_expr(s.test) or not ok_block(s.body) or not ok_block(s.orelse):
                        return False
                    continue
                return False
            return True

        return ok_expr(st.test) and ok_block(st.body) and ok_block(st.orelse)

    def exec_if(self, st, fr):
        if not self.simple_if(st, fr):
            self.exec_block(st.body if self.decide(st.test, fr) else st.orelse, fr)
            return
        c = self.snap(self.ev(st.test, fr))
        r = self.try_decided(c)
        if r is not None:
            self.exec_block(st.body if r else st.orelse, fr)
            return
        n_ev = len(self.events)
        base = dict(fr.locals)
        dead1 = dead2 = False
        self.merging += 1
        try:
            try:
                self.exec_block(st.body, fr)
            except PathDead:
                dead1 = True
            l1 = fr.locals
            fr.locals = dict(base)
            try:
                self.exec_block(st.orelse, fr)
            except PathDead:
                dead2 = True
            l2 = fr.locals
        finally:
            self.merging -= 1
        if len(self.events) != n_ev:
            raise Unsup("store under a test that was meant to be merged")
        if dead1 and dead2:
            raise PathDead()
        if dead1 or dead2:
            # an arm that only raises: the function goes on under the other arm (the exception itself is the same in both modes)
            fr.locals = l2 if dead1 else l1
            return
        out = {}
        for k in set(l1) | set(l2):
            a, b = l1.get(k), l2.get(k)
            if a == b:
                out[k] = a
            elif a is None or b is None:
                out[k] = ("phi", c, a if a is not None else ("unbound", k), b if b is not None else ("unbound", k))
            else:
                out[k] = ("phi", c, a, b)
        fr.locals = out

    def exec_for(self, st, fr):
        for n in _walk_scope(st):
            if isinstance(n, ast.Break):
                raise Unsup("loop with break")
        itv = self.ev(st.iter, fr)
        els = self.finite_elems(itv)
        if els is not None:
            # a loop over a literal sequence is the sequence of its bodies
            for e in els:
                self.cur_node = st
                self.assign_target(st.target, e, fr)
                try:
                    self.exec_block(st.body, fr)
                except _Continue:
                    pass
            self.exec_block(st.orelse, fr)
            return
        L = self.launches[self.ctx[1] - 1] if self.ctx[0] == "task" else None
        if L is not None and L.block is not None and self.frames and self.frames[-1].fid == L.fid and \
                is_tag(itv, "call") and itv[1] == ("ext", "builtins.range") and len(itv[2]) == 2 and not itv[3] and \
                bexpand(bnorm(self.snap(itv[2][0], record=False)), L.block.facts) == L.block.start and \
                bexpand(bnorm(self.snap(itv[2][1], record=False)), L.block.facts) == L.block.stop:
            # the loop over the task's own block: together with the task number it enumerates the indices F(0) .. F(n) - 1 once each (provided
            # the edges do not decrease, which C09-R1 demands): the body is executed for the generic index
            L.block.used += 1
            self.assign_target(st.target, L.lv, fr)
            try:
                self.exec_block(st.body, fr)
            except _Continue:
                pass
            except _Return:
                raise Unsup("return inside a loop")
            for n in assigned_names(st):
                if n in fr.local_names:
                    fr.locals[n] = ("poison", n)
            self.exec_block(st.orelse, fr)
            return
        elem, cnt, lid = self.iter_desc(itv)
        self.symbolic_loop(st, fr, cnt, lambda lv: self.assign_target(st.target, elem(lv), fr))
        if lid is not None:
            self.drain(lid)
        self.exec_block(st.orelse, fr)

    def symbolic_loop(self, st, fr, cnt, bind):
        """one generic iteration of a loop with `cnt` iterations; `bind(lv)` sets the loop variable for iteration number lv"""
        self.fid += 1
        lf = LoopFrame(self.fid, "for", cnt, depth=len(self.frames))
        self.allframes[lf.fid] = lf
        self.frames.append(lf)
        lv = ("lv", len(self.frames) - 1)
        self.loops.append((lf, st, self.ctx))
        try:
            bind(lv)
            try:
                self.exec_block(st.body, fr)
            except _Continue:
                pass
            except _Return:
                raise Unsup("return inside a loop")
        finally:
            self.frames.pop()
        for n in assigned_names(st):
            if n in fr.local_names:
                fr.locals[n] = ("poison", n)

    def exec_while(self, st, fr):
        """`while i < n: ...; i += 1` with i and n otherwise untouched is `for i in range(i0, n)`"""
        t = st.test
        var = bound = None
        if isinstance(t, ast.Compare) and len(t.ops) == 1:
            l, r = t.left, t.comparators[0]
            if isinstance(t.ops[0], ast.Lt) and isinstance(l, ast.Name):
                var, bound = l.id, r
            elif isinstance(t.ops[0], ast.Gt) and isinstance(r, ast.Name):
                var, bound = r.id, l
        if var is None or var in fr.globals_decl or var not in fr.local_names:
            raise Unsup("while loop that is not a counted loop (`while i < n`)")
        for n in _walk_scope(st):
            if isinstance(n, (ast.Break, ast.Continue)):
                raise Unsup("while loop with break / continue")
        incs = []
        for b in st.body:
            one = isinstance(b, ast.AugAssign) and isinstance(b.op, ast.Add) and isinstance(b.target, ast.Name) and b.target.id == var and \
                isinstance(b.value, ast.Constant) and b.value.value == 1 and type(b.value.value) is int
            one = one or (isinstance(b, ast.Assign) and len(b.targets) == 1 and isinstance(b.targets[0], ast.Name) and b.targets[0].id == var and
                          ast.dump(b.value) in (ast.dump(ast.parse(f"{var} + 1", mode="eval").body), ast.dump(ast.parse(f"1 + {var}", mode="eval").body)))
            if one:
                incs.append(b)
            elif var in assigned_names(b):
                raise Unsup("while loop whose counter is assigned inside the body")
        if len(incs) != 1 or st.orelse:
            raise Unsup("while loop that is not a counted loop (one `i += 1` per iteration)")
        changed = assigned_names(st.body)
        if any(isinstance(n, ast.Call) for n in ast.walk(bound)) or {n.id for n in ast.walk(bound) if isinstance(n, ast.Name)} & changed:
            raise Unsup("while loop whose bound changes inside the body")
        lo = self.snap(self.lookup(var, fr))
        hi = self.snap(self.ev(bound, fr))
        if lo == const(0):
            cnt, val = hi, (lambda lv: lv)
        else:
            cnt, val = ("bin", "Sub", hi, lo), (lambda lv: ("bin", "Add", lo, lv))
        self.symbolic_loop(st, fr, cnt, lambda lv: self.bind(var, val(lv), fr))

    def exec_stmt(self, st, fr):
        self.cur_node = st
        if isinstance(st, ast.Expr):
            if not isinstance(st.value, ast.Constant):
                self.ev(st.value, fr)
        elif isinstance(st, ast.Assign):
            v = self.ev(st.value, fr)
            for t in st.targets:
                self.cur_node = st
                self.assign_target(t, v, fr)
        elif isinstance(st, ast.AnnAssign):
            if st.value is not None:
                self.assign_target(st.target, self.ev(st.value, fr), fr)
        elif isinstance(st, ast.AugAssign):
            self.exec_aug(st, fr)
        elif isinstance(st, ast.If):
            self.exec_if(st, fr)
        elif isinstance(st, ast.For):
            self.exec_for(st, fr)
        elif isinstance(st, ast.While):
            self.exec_while(st, fr)
        elif isinstance(st, ast.With):
            vals = []
            for it in st.items:
                v = self.ev(it.context_expr, fr)
                vals.append(v)
                if it.optional_vars is not None:
                    self.assign_target(it.optional_vars, v, fr)
            self.exec_block(st.body, fr)
            for v in vals:
                if is_tag(v, "pool"):
                    self.cur_node = st
                    if getattr(self.pools[v[1]], "closing", False) and not getattr(self.pools[v[1]], "executor", False):
                        self.pools[v[1]].closing = False          # close(): no more tasks are accepted, the submitted ones go on
                    else:
                        self.pool_end(self.pools[v[1]], st)
        elif isinstance(st, ast.Try):
            try:
                self.exec_block(st.body, fr)
                self.exec_block(st.orelse, fr)
            finally:
                # the finally arm runs on the normal path as well (exceptions themselves are not modelled)
                pass
            self.exec_block(st.finalbody, fr)
        elif isinstance(st, ast.Match):
            self.exec_match(st, fr)
        elif isinstance(st, ast.Return):
            raise _Return(self.ev(st.value, fr) if st.value is not None else NONE)
        elif isinstance(st, ast.Raise):
            raise PathDead()
        elif isinstance(st, ast.Continue):
            raise _Continue()
        elif isinstance(st, ast.Assert):
            # the test is evaluated for what it does (a pool call, a drain), its outcome is not followed (a failing assert ends both modes alike)
            if any(isinstance(n, (ast.Call, ast.NamedExpr)) for n in ast.walk(st.test)):
                self.ev(st.test, fr)
        elif isinstance(st, (ast.Pass, ast.Global, ast.Nonlocal)):
            pass
        elif isinstance(st, ast.Import):
            for a in st.names:
                fr.locals[(a.asname or a.name).split(".")[0]] = ("mod", a.name if a.asname else a.name.split(".")[0])
        elif isinstance(st, ast.ImportFrom):
            for a in st.names:
                fr.locals[a.asname or a.name] = self.world._resolve_import(f"{st.module}.{a.name}")
        elif isinstance(st, ast.Delete):
            for t in st.targets:
                if isinstance(t, ast.Name):
                    fr.locals.pop(t.id, None)
                else:
                    raise Unsup("del of a subscript")
        elif isinstance(st, ast.FunctionDef):
            if st.decorator_list:
                raise Unsup("decorated nested function")
            fr.locals[st.name] = self.closure(st, fr)
        elif isinstance(st, ast.ClassDef):
            fr.locals[st.name] = ("opaquecls", st.name)
        else:
            raise Unsup(f"statement {type(st).__name__}")

    def exec_match(self, st, fr):
        """`match x: case "a": ... case "b" | "c": ... case _: ...` with literal patterns is the chain `if x == "a": ... elif x == "b" or x == "c": ...
        else: ...` (the subject is evaluated once)"""
        subj = self.snap(self.ev(st.subject, fr))

        def test(p):
            if isinstance(p, ast.MatchValue):
                return ("cmp", "Eq", subj, self.snap(self.ev(p.value, fr)))
            if isinstance(p, ast.MatchSingleton):
                return ("cmp", "Is", subj, const(p.value))
            if isinstance(p, ast.MatchOr):
                return ("bool", "Or") + tuple(test(x) for x in p.patterns)
            if isinstance(p, ast.MatchAs) and p.pattern is None:
                return TRUE              # `_` or a capture: matches anything
            raise Unsup(f"match pattern {type(p).__name__}")
        for case in st.cases:
            if not self.decide_term(test(case.pattern)):
                continue
            if isinstance(case.pattern, ast.MatchAs) and case.pattern.name is not None:
                self.bind(case.pattern.name, subj, fr)
            if case.guard is not None and not self.decide(case.guard, fr):
                continue
            self.exec_block(case.body, fr)
            return

    def exec_aug(self, st, fr):
        op = type(st.op).__name__
        t = st.target
        raw = self.ev(st.value, fr)
        rhs = self.snap(raw)
        self.cur_node = st
        if isinstance(t, ast.Name):
            cur = self.lookup(t.id, fr)
            if is_tag(cur, "ref"):
                self.store(cur, ("bin", op, self.content(cur), rhs), how="aug")
            elif is_tag(cur, "phi") and any(is_tag(x, "ref") for x in subterms(cur)):
                raise Unsup("in-place operation on an array chosen by an undecided test")
            elif op == "Add" and is_tag(cur, "tuple"):
                if not is_tag(raw, "tuple"):
                    raise Unsup("tuple extended by something that is not a literal tuple")
                self.bind(t.id, cur + raw[1:], fr)          # tuples are immutable: `t += (x,)` rebinds the name
            else:
                self.bind(t.id, ("bin", op, self.snap(cur), rhs), fr)
        elif isinstance(t, ast.Subscript):
            base = self.ev(t.value, fr)
            items = self.index_items(t.slice, fr)
            if is_tag(base, "ref"):
                r = self.subref(base, items)
                self.store(r, ("bin", op, self.content(r), rhs), how="aug")
            elif is_tag(base, "dref"):
                obj = self.heap[base[1]]
                if len(items) != 1 or items[0] not in obj.entries:
                    raise Unsup("augmented assignment to a missing dict entry")
                cur = obj.entries[items[0]]
                if is_tag(cur, "ref"):
                    self.store(cur, ("bin", op, self.content(cur), rhs), how="aug")
                else:
                    obj.entries[items[0]] = ("bin", op, self.snap(cur), rhs)
            elif base == NONE:
                self.none_uses.append((self.ctx, t, "in-place operation on None"))
            elif any(is_tag(x, "unboundlocal", "oob") for x in subterms(base)):
                pass
            else:
                raise Unsup(f"in-place operation on `{ast.unparse(t.value)}` whose value is not a tracked object")
        else:
            self.attr_stores.append((self.ctx, t))
            if self.ctx[0] == "parent":
                raise Unsup("attribute store in the parent")
