"""C01 helper: a wider abstract interpreter on top of e2_eval.AutoEvaluator.

`Ev01` understands the spellings that behaviour-preserving clean-ups of the ODE package use and that the shared evaluator leaves opaque:

  * tests are decided on *values* when the rule's oracle is silent (constants, `x is None` on a value known to be None / not None, identity of
    distinct objects such as two helper functions or two string literals), so inverted tests, swapped arms, guard clauses and early returns
    need no oracle entry keyed on their text;
  * `for` over literal tuples / evaluated tuples / `zip` / `enumerate(..., start=)` / `dict.items()` / strings, generator expressions and list
    comprehensions over the same iterables, `while` loops whose test is decided on constants, `continue` / `break`;
  * Python strings as values: concatenation, f-strings of strings, `getattr` / `setattr` / `vars(x).update(...)` with built attribute names;
  * `*args`, `**kwargs` in calls (expanded into positional / keyword values before hooks, inlining and recording see the call), dicts built
    by `dict(zip(...))`, `dict(k=v)`, `{...}`, `slice(a, b)` objects;
  * helpers followed interprocedurally with *reference semantics* for arrays, calls through a variable that holds a helper function,
    attribute assignments on `self` made by a helper visible to the caller;
  * `Hist`: a 2-D history array (rows = equations, columns = the samples of a short generic history).  A `Hist` is an object with identity:
    row blocks (`d[kdof]`, `d[rb]`) are views or copies that share / copy its storage, `X[:, i]` reads or writes column i of the block, and a
    helper that receives a block writes into the caller's array.  A rule therefore reads the computed history out of *the arrays it created*,
    whatever the local names, aliases and helper boundaries in between;
  * a tuple is a history of column values: `X[:, a:b]` slices samples, `X[rows]`, `X[rows, i]` select rows elementwise (`idx(value, rows)`),
    `.T` / `np.transpose` of a history is the history (iterating it yields the columns), `.real` / `.imag` map over the columns.

`ModeEv` evaluates mask-partitioned per-mode code (`get_su_coef`) for ONE generic mode of a given regime: every per-mode array is the scalar
of that mode, a mask or index vector is the truth value "this mode is selected" (0 / 1), `X[sel]` is X or an empty selection, `X[sel] = v`
stores or is a no-op, `np.any(sel)` is the truth value itself.  Arrays are boxes with identity, so a store through an alias (`for dest, row in
zip((F, G, ...), rows): dest[pv] = row`) reaches the array.  Ordering comparisons are decided by the rule's regime oracle and logged with the
values of both operands.
"""
from __future__ import annotations

import ast

from . import e2_formula as F
from .core import Unsupported
from .e1_srcmodel import dotted
from .e2_eval import AutoEvaluator, Unknown, is_unknown, need
from .sem import Sem, unfn  # noqa: F401  (unfn re-exported for the rule modules)

NONE = F.sym("None")
ALL = F.sym("<all rows>")


# ---------------------------------------------------------------------------------------------------------------- small value helpers
def unsym(v):
    """name of a value that is exactly one symbol, else None"""
    if not isinstance(v, F.Rat):
        return None
    try:
        if not v.d.is_const() or v.d.const_value() != 1 or len(v.n.t) != 1:
            return None
        (m, c), = v.n.t.items()
        if c != 1 or len(m) != 1 or m[0][1] != 1:
            return None
        d = F.atom_desc(m[0][0])
    except Exception:  # noqa
        return None
    return d[1] if d[0] == "s" else None


def as_str(v):
    """the Python string a value stands for (AutoEvaluator keeps string literals as the symbol of their repr), else None"""
    n = unsym(v)
    if n and len(n) >= 2 and n[0] in "'\"" and n[-1] == n[0]:
        try:
            s = ast.literal_eval(n)
        except Exception:  # noqa
            return None
        return s if isinstance(s, str) else None
    return None


def mk_str(s):
    return F.sym(repr(s))


def const_of(v):
    """Fraction of a constant value, else None"""
    if isinstance(v, F.Rat) and v.is_const():
        return v.const_value()
    return None


def is_full_slice(n):
    return isinstance(n, ast.Slice) and n.lower is None and n.upper is None and n.step is None


class _Continue(Exception):
    pass


class _Break(Exception):
    pass


class _Lit(ast.Name):
    """an already evaluated value in argument position (used when *args / **kwargs are expanded)"""


def lit(v):
    n = _Lit(id="<value>", ctx=ast.Load())
    n.v = v
    return n


class DictV:
    """a dict with constant keys: key (str / Fraction) -> value (possibly a reference)"""

    def __init__(self, d):
        self.d = dict(d)

    def __repr__(self):
        return "DictV(%s)" % ", ".join(f"{k!r}: {v!r}" for k, v in self.d.items())


# ---------------------------------------------------------------------------------------------------------------- history arrays
class Hist:
    """2-D array: `nt` columns (samples), rows addressed in blocks by an evaluated row selector.  Unstored columns read as `fill` (np.zeros)
    or as the symbol col(label, rows, i) (the content the array had on entry)."""

    def __init__(self, label, nt, fill=None):
        self.label, self.nt, self.fill = label, nt, fill
        self.blocks = {}       # rowkey -> {col: value}
        self.stores = []       # (rowkey, col, value, stmt)
        self.bad = []          # accesses that could not be modelled

    def initial(self, rowkey, rowval, col):
        if self.fill is not None:
            return self.fill
        return F.fn("col", F.sym(self.label), rowval, F.const(col))

    def block(self, rowkey, rowval, copy=False):
        return Block(self, rowkey, rowval, dict(self.blocks.get(rowkey, {})) if copy else None)

    def root(self):
        return Block(self, "", ALL, None)

    def __repr__(self):
        return f"Hist({self.label})"


class Block:
    """the rows `rowval` of a Hist: a view (cols is None: reads and writes go to the Hist) or a private copy (cols: own column table)"""

    def __init__(self, hist, rowkey, rowval, cols):
        self.hist, self.rowkey, self.rowval, self.cols = hist, rowkey, rowval, cols

    def get(self, col):
        tab = self.cols if self.cols is not None else self.hist.blocks.get(self.rowkey, {})
        if col in tab:
            return tab[col]
        return self.hist.initial(self.rowkey, self.rowval, col)

    def put(self, col, v, st=None):
        if self.cols is not None:
            self.cols[col] = v
        else:
            self.hist.blocks.setdefault(self.rowkey, {})[col] = v
            self.hist.stores.append((self.rowkey, col, v, st))

    def columns(self):
        return tuple(self.get(i) for i in range(self.hist.nt))

    def __repr__(self):
        return f"Block({self.hist.label}[{self.rowkey}]{' copy' if self.cols is not None else ''})"


class Box:
    """a per-mode array of ModeEv: a value with identity (aliases share it)"""

    def __init__(self, v):
        self.v = v

    def __repr__(self):
        return f"Box({self.v!r})"


REFS = (Hist, Block, Box, DictV)


def has_ref(v):
    return isinstance(v, REFS) or (isinstance(v, tuple) and any(has_ref(x) for x in v))


# ---------------------------------------------------------------------------------------------------------------- the evaluator
class Ev01(AutoEvaluator):
    LIMIT = 64

    def __init__(self, fn=None, **kw):
        super().__init__(fn, **kw)
        self.nonnull = set()     # names of symbols that stand for objects that are not None
        self.truth = {}          # symbol name -> truthiness of the object it stands for
        self.distinct = set()    # names of symbols that stand for pairwise distinct objects
        self.inl = {}            # {dotted callee: FunctionDef}: helpers followed interprocedurally (own implementation, reference semantics)
        self.depth = 0
        self.nt = None           # number of samples of the generic history: np.zeros((rows, nt)) creates a Hist
        self.fancy_copy = False  # `X[rows]` of a Hist is a copy (index vectors) instead of a view (slices)
        self.cmp_hook = None     # (node, L, R, ev) -> True / False / None for ordering comparisons that are not between constants
        self.cmp_log = []        # (node, L, R, result)
        self._recorded = None
        self.raised = None       # the `raise` statement that ended the evaluated path, if any
        self.hists = []          # history arrays created by the evaluated code itself (np.zeros / np.empty with nt columns), shared with helpers

    # ---- configuration inherited by the evaluator of an inlined helper
    def spawn(self, fn, env):
        sub = type(self)(fn, env=env, cond=self.cond, src=self.src, subscript=self.subscript, call=self.call_hook, binop=self.binop_hook)
        for a in ("nonnull", "truth", "distinct", "inl", "nt", "fancy_copy", "cmp_hook", "cmp_log", "loop_unroll", "loop_once", "forward_stores", "erase_T"):
            setattr(sub, a, getattr(self, a))
        if hasattr(self, "module_consts"):
            sub.module_consts = self.module_consts
        sub.depth = self.depth + 1
        sub.seq = self.seq
        sub.hists = self.hists
        return sub

    # ------------------------------------------------------------------------------------------------ tests
    def decide(self, test):
        r = super().decide(test)
        if r is not None:
            return r
        try:
            return self.value_truth(test)
        except Unsupported:
            return None

    def _known_object(self, v):
        """the value certainly denotes an object that is not None"""
        if isinstance(v, (tuple,) + REFS):
            return True
        if not isinstance(v, F.Rat) or v.equals(NONE):
            return False
        n = unsym(v)
        if n is None:
            return not v.depends_on("None")
        return n in self.nonnull or n in self.distinct or as_str(v) is not None or n in self.inl or n in ("True", "False", "float", "complex", "int", "bool")

    def _atomic(self, v):
        """a key that identifies the object when the value denotes one of a family of pairwise distinct objects, else None"""
        if isinstance(v, F.Rat):
            c = const_of(v)
            if c is not None:
                return ("c", c)
            n = unsym(v)
            if n is not None and (n in self.distinct or n in self.inl or as_str(v) is not None or n in ("None", "True", "False", "float", "complex", "int", "bool")):
                return ("s", n)
        return None

    def value_truth(self, test):
        if isinstance(test, ast.Compare) and len(test.ops) == 1:
            op = test.ops[0]
            a, b = self.evr(test.left), self.evr(test.comparators[0])
            if isinstance(op, (ast.Eq, ast.NotEq, ast.Is, ast.IsNot)):
                pos = isinstance(op, (ast.Eq, ast.Is))
                if is_unknown(a) or is_unknown(b):
                    return None
                r = None
                for x, y in ((a, b), (b, a)):
                    if isinstance(y, F.Rat) and y.equals(NONE) and not (isinstance(x, F.Rat) and x.equals(NONE)):
                        if self._known_object(x):
                            r = False
                if r is None and isinstance(a, F.Rat) and isinstance(b, F.Rat):
                    if a.equals(b):
                        r = True
                    else:
                        ka, kb = self._atomic(a), self._atomic(b)
                        if ka is not None and kb is not None:
                            r = ka == kb
                if r is None:
                    return None
                return r if pos else (not r)
            if isinstance(op, (ast.Lt, ast.LtE, ast.Gt, ast.GtE)):
                a, b = self.plain(a), self.plain(b)
                if is_unknown(a) or is_unknown(b) or isinstance(a, tuple) or isinstance(b, tuple):
                    return None
                return self.order_truth(test, op, a, b)
            return None
        if isinstance(test, (ast.BoolOp, ast.UnaryOp)) and not isinstance(getattr(test, "op", None), (ast.USub, ast.UAdd, ast.Invert)):
            return None                # composed by Evaluator.decide
        v = self.evr(test)
        return self.truthiness(v)

    def order_truth(self, node, op, a, b):
        ca, cb = const_of(a), const_of(b)
        if ca is not None and cb is not None:
            r = {ast.Lt: ca < cb, ast.LtE: ca <= cb, ast.Gt: ca > cb, ast.GtE: ca >= cb}[type(op)]
            return r
        if self.cmp_hook is not None:
            r = self.cmp_hook(node, op, a, b, self)
            self.cmp_log.append((node, op, a, b, r))
            return r
        return None

    def truthiness(self, v):
        if is_unknown(v):
            return None
        if isinstance(v, tuple):
            return len(v) > 0
        if isinstance(v, DictV):
            return len(v.d) > 0
        if isinstance(v, REFS):
            v = self.plain(v)
            if isinstance(v, tuple) or is_unknown(v):
                return None
        c = const_of(v)
        if c is not None:
            return c != 0
        n = unsym(v)
        if n is not None:
            if n == "None" or n == "False":
                return False
            if n == "True":
                return True
            s = as_str(v)
            if s is not None:
                return len(s) > 0
            if n in self.truth:
                return self.truth[n]
            if n in self.inl:
                return True
        return None

    # ------------------------------------------------------------------------------------------------ expressions
    def plain(self, v):
        if isinstance(v, Hist):
            return v.root().columns()
        if isinstance(v, Block):
            return v.columns()
        if isinstance(v, Box):
            return v.v
        return v

    def evr(self, node):
        """value of an expression with references (arrays with identity) kept"""
        try:
            return self._evr(node)
        except Unsupported as e:
            return Unknown(str(e))

    def _evr(self, node):
        if isinstance(node, _Lit):
            return node.v
        if isinstance(node, ast.Name):
            v = self.env.get(node.id)
            if has_ref(v):
                return v
            return super()._ev(node)
        if isinstance(node, ast.Attribute):
            d = dotted(node)
            if d is not None:
                v = self.env.get(d)
                if has_ref(v):
                    return v
                rootv = self.env.get(d.split(".")[0])
                if not has_ref(rootv) and not isinstance(rootv, tuple) and not (node.attr == "T" and not self.erase_T):
                    return super()._ev(node)             # a plain dotted chain: the shared evaluator's reading
            b = self._evr(node.value)                      # evaluated once (calls inside are recorded once)
            if is_unknown(b):
                return b
            if isinstance(b, (Hist, Block)):
                b = self.plain(b) if node.attr != "T" else b
            if node.attr == "T" and isinstance(b, (tuple,) + REFS):
                return b
            if isinstance(b, tuple) and not has_ref(b):
                if node.attr in ("real", "imag"):
                    return tuple(x if is_unknown(x) else (F.fn("attr:" + node.attr, need(x)) if not isinstance(x, tuple) else Unknown("nested")) for x in b)
                if node.attr == "shape":
                    return (F.sym("<rows>"), F.const(len(b)))
                if node.attr == "ndim":
                    return F.const(2)
            if isinstance(b, Box):
                b = b.v
            if not isinstance(b, F.Rat):
                return Unknown(f"attribute {node.attr} of {type(b).__name__}")
            if node.attr == "T":
                return b if self.erase_T else F.fn("attr:T", b)
            return F.fn("attr:" + node.attr, b)
        if isinstance(node, ast.NamedExpr) and isinstance(node.target, ast.Name):
            v = self._evr(node.value)
            self._assign(node.target, v, node)
            return v
        if isinstance(node, (ast.Tuple, ast.List)):
            out = []
            for e in node.elts:
                if isinstance(e, ast.Starred):
                    v = self.evr(e.value)
                    if not isinstance(v, tuple):
                        return Unknown("starred element that is not a tuple")
                    out.extend(v)
                else:
                    out.append(self.evr(e))
            return tuple(out)
        if isinstance(node, ast.Dict):
            d = {}
            for k, v in zip(node.keys, node.values):
                if k is None:
                    m = self.evr(v)
                    if not isinstance(m, DictV):
                        return Unknown("** of a value that is not a literal dict")
                    d.update(m.d)
                    continue
                kk = self.key_of(self.evr(k))
                if kk is None:
                    return Unknown("dict key that is not a constant")
                d[kk] = self.evr(v)
            return DictV(d)
        if isinstance(node, ast.IfExp):
            c = self.decide(node.test)
            if c is True:
                return self._evr(node.body)
            if c is False:
                return self._evr(node.orelse)
            return Unknown(f"undecided conditional {ast.unparse(node.test)}")
        if isinstance(node, (ast.GeneratorExp, ast.ListComp)):
            return self.comprehension(node)
        if isinstance(node, ast.Subscript):
            return self.subscript_value(node)
        if isinstance(node, ast.Call):
            return self._call(node)
        if isinstance(node, ast.JoinedStr):
            parts = []
            for v in node.values:
                if isinstance(v, ast.Constant) and isinstance(v.value, str):
                    parts.append(v.value)
                elif isinstance(v, ast.FormattedValue) and v.format_spec is None and v.conversion == -1:
                    s = as_str(self.evr(v.value))
                    if s is None:
                        return super()._ev(node)
                    parts.append(s)
                else:
                    return super()._ev(node)
            return mk_str("".join(parts))
        if isinstance(node, ast.BinOp) and isinstance(node.op, ast.Add):
            a, b = self.evr(node.left), self.evr(node.right)
            sa, sb = as_str(a), as_str(b)
            if sa is not None and sb is not None:
                return mk_str(sa + sb)
            if isinstance(a, tuple) and isinstance(b, tuple) and (has_ref(a) or has_ref(b)):
                return a + b
        return super()._ev(node)

    REFNODES = (_Lit, ast.Name, ast.Attribute, ast.NamedExpr, ast.Tuple, ast.List, ast.Dict, ast.IfExp, ast.GeneratorExp, ast.ListComp, ast.Subscript, ast.Call,
                ast.JoinedStr)

    def _ev(self, node):
        if isinstance(node, self.REFNODES) or (isinstance(node, ast.BinOp) and isinstance(node.op, ast.Add)):
            v = self._evr(node)
            v = self.plain(v)
            if isinstance(v, tuple) and has_ref(v):
                v = tuple(self.plain(x) for x in v)
            return v
        return super()._ev(node)

    def key_of(self, v):
        s = as_str(v)
        if s is not None:
            return s
        c = const_of(v)
        if c is not None:
            return c
        return None

    def key_value(self, k):
        return mk_str(k) if isinstance(k, str) else F.const(k)

    # ---- iteration
    def iter_items(self, node):
        """the items a `for` / comprehension iterates over, or None"""
        if isinstance(node, ast.Call):
            d = dotted(node.func)
            if d == "range" and 1 <= len(node.args) <= 3 and not node.keywords:
                cs = [const_of(self.ev(a)) for a in node.args]
                if all(c is not None and c.denominator == 1 for c in cs):
                    return [F.const(k) for k in range(*[int(c) for c in cs])]
                return None
            if d == "zip" and node.args and not node.keywords:
                its = [self.iter_items(a) for a in node.args]
                if any(i is None for i in its):
                    return None
                return [tuple(x) for x in zip(*its)]
            if d == "enumerate" and 1 <= len(node.args) <= 2:
                it = self.iter_items(node.args[0])
                st = node.args[1] if len(node.args) == 2 else next((k.value for k in node.keywords if k.arg == "start"), None)
                s0 = 0
                if st is not None:
                    c = const_of(self.ev(st))
                    if c is None or c.denominator != 1:
                        return None
                    s0 = int(c)
                if it is None:
                    return None
                return [(F.const(s0 + i), x) for i, x in enumerate(it)]
            if d == "reversed" and len(node.args) == 1:
                it = self.iter_items(node.args[0])
                return None if it is None else list(reversed(it))
            if isinstance(node.func, ast.Attribute) and node.func.attr in ("items", "keys", "values") and not node.args:
                b = self.evr(node.func.value)
                if isinstance(b, DictV):
                    if node.func.attr == "items":
                        return [(self.key_value(k), v) for k, v in b.d.items()]
                    if node.func.attr == "keys":
                        return [self.key_value(k) for k in b.d]
                    return list(b.d.values())
                return None
        v = self.evr(node)
        if isinstance(v, (Hist, Block)):
            return None        # iterating a 2-D array walks its rows: not a history
        if isinstance(v, tuple):
            return list(v)
        if isinstance(v, DictV):
            return [self.key_value(k) for k in v.d]
        s = as_str(v)
        if s is not None:
            return [mk_str(ch) for ch in s]
        return None

    def bind(self, target, item):
        if isinstance(target, ast.Name):
            if target.id not in self.pinned:
                self.env[target.id] = item
            return True
        if isinstance(target, (ast.Tuple, ast.List)):
            if isinstance(item, tuple) and len(item) == len(target.elts):
                return all([self.bind(t, x) for t, x in zip(target.elts, item)])
            for t in target.elts:
                self.bind(t, Unknown("unpacking of a non-tuple"))
            return False
        return False

    def comprehension(self, node):
        out = []

        def rec(k):
            if k == len(node.generators):
                out.append(self.evr(node.elt))
                return True
            g = node.generators[k]
            items = self.iter_items(g.iter)
            if items is None or len(items) > self.LIMIT:
                return False
            for it in items:
                self.bind(g.target, it)
                ok = True
                for c in g.ifs:
                    t = self.decide(c)
                    if t is None:
                        return False
                    ok = ok and t
                if ok and not rec(k + 1):
                    return False
            return True
        if not rec(0):
            return Unknown(f"comprehension over an iterable the evaluator cannot enumerate: {ast.unparse(node)[:80]}")
        return tuple(out)

    # ---- subscripts
    def const_int(self, node):
        if node is None:
            return None
        c = const_of(self.ev(node))
        if c is None or c.denominator != 1:
            raise Unsupported("non-constant bound")
        return int(c)

    def colsel(self, c, nt):
        """column index / slice -> int | list of ints | None"""
        try:
            if isinstance(c, ast.Slice):
                return list(range(nt))[slice(self.const_int(c.lower), self.const_int(c.upper), self.const_int(c.step))]
            k = self.const_int(c)
        except Unsupported:
            return None
        if k < 0:
            k += nt
        return k if 0 <= k < nt else None

    def rowsel(self, node):
        v = self._index_value(node)
        return repr(v), v

    def subscript_value(self, node):
        if self.subscript is not None:
            r = self.subscript(node, self)
            if r is not NotImplemented:
                return r
        base = self._evr(node.value)
        sl = node.slice
        if is_unknown(base):
            return base
        if isinstance(base, (Hist, Block)):
            return self.hist_load(base, sl)
        if isinstance(base, DictV):
            k = self.key_of(self.evr(sl))
            if k is None or k not in base.d:
                return Unknown(f"key of {ast.unparse(node)[:60]} not in the dict")
            return base.d[k]
        if isinstance(base, Box):
            base = base.v
        if isinstance(base, tuple):
            r = self.tuple_index(base, sl)
            if r is not NotImplemented:
                return r
            return Unknown(f"subscript {ast.unparse(node)[:60]} of a tuple")
        if self.is_newaxis_only(sl):
            return base
        return self.scalar_subscript(node, base)

    def scalar_subscript(self, node, base):
        return super()._ev(node)

    def is_newaxis_only(self, sl):
        elts = sl.elts if isinstance(sl, ast.Tuple) else [sl]
        seen_none = False
        for e in elts:
            if isinstance(e, ast.Constant) and e.value is None:
                seen_none = True
            elif is_full_slice(e) or (isinstance(e, ast.Constant) and e.value is Ellipsis):
                pass
            else:
                return False
        return seen_none

    def tuple_index(self, base, sl):
        """a tuple is either a Python sequence (constant index / slice) or a history of columns (row selectors act on every column)"""
        n = len(base)

        def rows(x, rv):
            if is_unknown(x) or isinstance(x, tuple) or isinstance(x, REFS):
                return Unknown("row selection of a nested value")
            return F.fn("idx", need(x), rv)
        if self.is_newaxis_only(sl):
            return base
        if isinstance(sl, ast.Tuple) and len(sl.elts) == 2:
            r, c = sl.elts
            cols = self.colsel(c, n)
            if cols is None:
                return NotImplemented
            picked = base[cols] if isinstance(cols, int) else tuple(base[j] for j in cols)
            if is_full_slice(r) or (isinstance(r, ast.Constant) and r.value is Ellipsis):
                return picked
            try:
                rv = self._index_value(r)
            except Unsupported:
                return NotImplemented
            return rows(picked, rv) if isinstance(cols, int) else tuple(rows(x, rv) for x in picked)
        if isinstance(sl, ast.Tuple):
            return NotImplemented
        cols = self.colsel(sl, n) if not is_full_slice(sl) else list(range(n))
        if cols is not None:
            return base[cols] if isinstance(cols, int) else tuple(base[j] for j in cols)
        try:
            rv = self._index_value(sl)
        except Unsupported:
            return NotImplemented
        return tuple(rows(x, rv) for x in base)

    def hist_load(self, base, sl):
        H = base if isinstance(base, Hist) else base.hist
        blk = base.root() if isinstance(base, Hist) else base
        if isinstance(sl, ast.Tuple) and len(sl.elts) == 2:
            r, c = sl.elts
            if not (is_full_slice(r) or (isinstance(r, ast.Constant) and r.value is Ellipsis)):
                if not isinstance(base, Hist):
                    H.bad.append(("load", ast.unparse(sl)))
                    return Unknown("row selection inside a row block")
                try:
                    blk = H.block(*self.rowsel(r))
                except Unsupported as e:
                    return Unknown(str(e))
            cols = self.colsel(c, H.nt)
            if cols is None:
                H.bad.append(("load", ast.unparse(sl)))
                return Unknown(f"column selector {ast.unparse(c)} of a history array")
            return blk.get(cols) if isinstance(cols, int) else tuple(blk.get(j) for j in cols)
        if is_full_slice(sl) or (isinstance(sl, ast.Constant) and sl.value is Ellipsis):
            return base
        if isinstance(sl, ast.Tuple):
            H.bad.append(("load", ast.unparse(sl)))
            return Unknown("index of a history array")
        if isinstance(base, Hist):
            try:
                return H.block(*self.rowsel(sl), copy=self.fancy_copy)
            except Unsupported as e:
                return Unknown(str(e))
        H.bad.append(("load", ast.unparse(sl)))
        return Unknown("row selection inside a row block")

    def hist_store(self, base, sl, v, st):
        H = base if isinstance(base, Hist) else base.hist
        blk = base.root() if isinstance(base, Hist) else base
        v = self.plain(v)
        cols = None
        if isinstance(sl, ast.Tuple) and len(sl.elts) == 2:
            r, c = sl.elts
            if not (is_full_slice(r) or (isinstance(r, ast.Constant) and r.value is Ellipsis)):
                if not isinstance(base, Hist):
                    H.bad.append(("store", ast.unparse(sl)))
                    return
                try:
                    blk = H.block(*self.rowsel(r))
                except Unsupported:
                    H.bad.append(("store", ast.unparse(sl)))
                    return
            cols = self.colsel(c, H.nt)
            if cols is None:
                H.bad.append(("store", ast.unparse(sl)))
                return
        elif is_full_slice(sl) or (isinstance(sl, ast.Constant) and sl.value is Ellipsis):
            cols = list(range(H.nt))
        elif not isinstance(sl, ast.Tuple) and isinstance(base, Hist):
            try:
                blk = H.block(*self.rowsel(sl))
            except Unsupported:
                H.bad.append(("store", ast.unparse(sl)))
                return
            cols = list(range(H.nt))
        else:
            H.bad.append(("store", ast.unparse(sl)))
            return
        if isinstance(cols, int):
            blk.put(cols, v if not isinstance(v, tuple) else Unknown("a history stored into one column"), st)
            return
        if isinstance(v, tuple):
            if len(v) != len(cols):
                for j in cols:
                    blk.put(j, Unknown("shape mismatch in a store into a history array"), st)
                return
            for j, x in zip(cols, v):
                blk.put(j, x, st)
        else:
            for j in cols:
                blk.put(j, v, st)

    # ------------------------------------------------------------------------------------------------ statements
    def stmt(self, st):
        if self.done:
            return
        if isinstance(st, ast.Continue):
            raise _Continue()
        if isinstance(st, ast.Break):
            raise _Break()
        if isinstance(st, ast.Raise):
            self.raised = st           # the path ends here
            self.done = True
            return
        if isinstance(st, ast.Assign):
            v = self.evr(st.value)
            for t in st.targets:
                self._assign(t, v, st)
            return
        if isinstance(st, ast.AnnAssign) and st.value is not None:
            self._assign(st.target, self.evr(st.value), st)
            return
        if isinstance(st, ast.Return):
            if st.value is None:
                v = None
            else:
                v = self.evr(st.value) if self.depth else self.ev(st.value)
            self.returns.append((v, st))
            self.done = True
            return
        if isinstance(st, ast.For):
            items = self.iter_items(st.iter)
            if items is not None and len(items) <= self.LIMIT:
                for it in items:
                    self.bind(st.target, it)
                    try:
                        self.run(st.body)
                    except _Continue:
                        pass
                    except _Break:
                        break
                    if self.done:
                        break
                else:
                    self.run(st.orelse)
                return
            try:
                return super().stmt(st)
            except (_Continue, _Break):
                return
        if isinstance(st, ast.While):
            c = self.decide(st.test)
            if c is None:
                try:
                    return super().stmt(st)
                except (_Continue, _Break):
                    return
            n = 0
            while c is True:
                n += 1
                if n > self.LIMIT:
                    c = None
                    break
                try:
                    self.run(st.body)
                except _Continue:
                    pass
                except _Break:
                    break
                if self.done:
                    return
                c = self.decide(st.test)
            if c is None:
                from .e2_eval import _assigned_names
                for nm in _assigned_names(st):
                    if nm not in self.pinned:
                        self.env[nm] = Unknown("assigned inside a while loop that could not be unrolled")
            return
        return super().stmt(st)

    def _assign(self, target, v, st, aug=False):
        if isinstance(target, ast.Name):
            old = self.env.get(target.id)
            if has_ref(v) or has_ref(old):
                if target.id not in self.pinned:
                    self.env[target.id] = v
                return
            return super()._assign(target, v, st, aug)
        if isinstance(target, ast.Subscript):
            base = self.evr(target.value)
            if isinstance(base, (Hist, Block)):
                self.hist_store(base, target.slice, v, st)
                return
            if isinstance(base, DictV):
                k = self.key_of(self.evr(target.slice))
                if k is not None:
                    base.d[k] = v
                return
            return self.scalar_store(target, base, v, st, aug)
        if isinstance(target, ast.Starred):
            return
        if isinstance(target, (ast.Tuple, ast.List)) and isinstance(v, tuple) and len(v) == len(target.elts):
            for t, x in zip(target.elts, v):
                self._assign(t, x, st)
            return
        return super()._assign(target, self.plain(v) if not isinstance(target, ast.Attribute) else v, st, aug)

    def scalar_store(self, target, base, v, st, aug):
        return super()._assign(target, self.plain(v), st, aug)

    # ------------------------------------------------------------------------------------------------ calls
    def _record_call(self, node):
        if self._recorded is node:
            return
        super()._record_call(node)

    def normalise_call(self, node):
        if not any(isinstance(a, ast.Starred) for a in node.args) and not any(k.arg is None for k in node.keywords):
            return node
        args, kws = [], []
        for a in node.args:
            if isinstance(a, ast.Starred):
                v = self.evr(a.value)
                if not isinstance(v, tuple):
                    return Unknown("*args of a value that is not a tuple")
                args.extend(lit(x) for x in v)
            else:
                args.append(a)
        for k in node.keywords:
            if k.arg is None:
                v = self.evr(k.value)
                if not isinstance(v, DictV) or not all(isinstance(x, str) for x in v.d):
                    return Unknown("**kwargs of a value that is not a dict with string keys")
                kws.extend(ast.keyword(arg=kk, value=lit(vv)) for kk, vv in v.d.items())
            else:
                kws.append(k)
        new = ast.Call(func=node.func, args=args, keywords=kws)
        ast.copy_location(new, node)
        for a in ("_vmod", "_vparent", "_vqual"):
            if hasattr(node, a):
                setattr(new, a, getattr(node, a))
        return new

    def _call(self, node):
        node = self.normalise_call(node)
        if is_unknown(node):
            return node
        # a call through a variable that holds one of the helper functions
        if isinstance(node.func, ast.Name) and node.func.id in self.env:
            n = unsym(self.env[node.func.id])
            if n is not None and n in self.inl:
                new = ast.Call(func=ast.copy_location(ast.Name(id=n, ctx=ast.Load()), node), args=node.args, keywords=node.keywords)
                ast.copy_location(new, node)
                for a in ("_vmod", "_vparent", "_vqual"):
                    if hasattr(node, a):
                        setattr(new, a, getattr(node, a))
                node = new
        super()._record_call(node)
        self._recorded = node
        if self.call_hook is not None:
            r = self.call_hook(node, self)
            if r is not NotImplemented:
                return r
        d = dotted(node.func)
        r = self.builtin_call(d, node)
        if r is not NotImplemented:
            return r
        if d in self.inl and self.depth < 4:
            r = self.inline_call(node, d, self.inl[d])
            if r is not NotImplemented:
                return r
        hook, inl = self.call_hook, self.inline
        self.call_hook, self.inline = None, None
        try:
            return super()._call(node)
        finally:
            self.call_hook, self.inline = hook, inl

    def builtin_call(self, d, node):
        args, kws = node.args, node.keywords
        if d == "getattr" and len(args) in (2, 3) and not kws:
            s = as_str(self.evr(args[1]))
            if s is not None and s.isidentifier():
                return self._evr(ast.copy_location(ast.Attribute(value=args[0], attr=s, ctx=ast.Load()), node))
            return NotImplemented
        if d == "setattr" and len(args) == 3 and not kws:
            s = as_str(self.evr(args[1]))
            if s is not None and s.isidentifier():
                self._assign(ast.copy_location(ast.Attribute(value=args[0], attr=s, ctx=ast.Store()), node), self.evr(args[2]), node)
                return NONE
            return NotImplemented
        if isinstance(node.func, ast.Attribute) and node.func.attr == "update" and isinstance(node.func.value, ast.Call) \
                and dotted(node.func.value.func) == "vars" and len(node.func.value.args) == 1 and not args:
            obj = node.func.value.args[0]
            for k in kws:
                self._assign(ast.copy_location(ast.Attribute(value=obj, attr=k.arg, ctx=ast.Store()), node), self.evr(k.value), node)
            return NONE
        if d == "dict":
            out = {}
            if len(args) == 1:
                items = self.iter_items(args[0])
                if items is None:
                    return NotImplemented
                for it in items:
                    if not (isinstance(it, tuple) and len(it) == 2):
                        return NotImplemented
                    k = self.key_of(it[0])
                    if k is None:
                        return NotImplemented
                    out[k] = it[1]
            elif args:
                return NotImplemented
            for k in kws:
                out[k.arg] = self.evr(k.value)
            return DictV(out)
        if d in ("zip", "enumerate", "reversed", "tuple", "list") and args:
            items = self.iter_items(node if d in ("zip", "enumerate", "reversed") else args[0])
            if items is None:
                return NotImplemented
            return tuple(items)
        if d == "slice" and 1 <= len(args) <= 3 and not kws:
            vals = [self.ev(a) for a in args]
            if any(is_unknown(v) or isinstance(v, tuple) for v in vals):
                return NotImplemented
            if len(vals) == 1:
                vals = [NONE, vals[0], NONE]
            elif len(vals) == 2:
                vals = vals + [NONE]
            return F.fn("slice", *[need(v) for v in vals])
        if d in ("np.transpose", "numpy.transpose") and len(args) == 1 and not kws:
            b = self.evr(args[0])
            if isinstance(b, (tuple,) + REFS) or is_unknown(b) or self.erase_T:
                return b
            return F.fn("attr:T", need(b))
        if isinstance(node.func, ast.Attribute) and node.func.attr == "transpose" and not args and not kws:
            b = self.evr(node.func.value)
            if isinstance(b, (tuple,) + REFS) or is_unknown(b) or self.erase_T:
                return b
            return F.fn("attr:T", need(b))
        if d == "len" and len(args) == 1:
            b = self.evr(args[0])
            if isinstance(b, tuple):
                return F.const(len(b))
            if isinstance(b, DictV):
                return F.const(len(b.d))
            s = as_str(b)
            if s is not None:
                return F.const(len(s))
            return NotImplemented
        if isinstance(node.func, ast.Attribute) and node.func.attr in ("items", "keys", "values") and not args:
            items = self.iter_items(node)
            if items is not None:
                return tuple(items)
            return NotImplemented
        if d in ("np.zeros", "np.empty") and self.nt is not None and args and isinstance(args[0], (ast.Tuple, ast.List)) and len(args[0].elts) == 2:
            c = const_of(self.ev(args[0].elts[1]))
            if c is not None and c == self.nt:
                H = Hist(f"<new{len(self.hists) + 1}>", self.nt, F.const(0) if d == "np.zeros" else None)
                self.hists.append(H)
                return H
        return NotImplemented

    def inline_call(self, node, name, fn):
        a = fn.args
        params = [x.arg for x in a.posonlyargs + a.args]
        method = name.startswith("self.")
        deco = {dotted(x) for x in fn.decorator_list}
        if method and "staticmethod" not in deco and params:
            params = params[1:]
        if a.vararg or a.kwarg or len(node.args) > len(params):
            return NotImplemented
        env = {}
        for p_, x in zip(params, node.args):
            env[p_] = self.evr(x)
        kwonly = [x.arg for x in a.kwonlyargs]
        for k in node.keywords:
            if k.arg not in params and k.arg not in kwonly or k.arg in env:
                return NotImplemented
            env[k.arg] = self.evr(k.value)
        dflt = dict(zip(params[::-1], (a.defaults or [])[::-1]))
        for p_ in params:
            if p_ not in env:
                if p_ in dflt:
                    env[p_] = self.ev(dflt[p_])
                else:
                    return NotImplemented
        for p_, dd in zip(kwonly, a.kw_defaults):
            if p_ not in env and dd is not None:
                env[p_] = self.ev(dd)
        shared = {}
        if method:
            for k, v in self.env.items():
                if k.startswith("self."):
                    env[k] = v
                    shared[k] = v
        sub = self.spawn(fn, env)
        try:
            sub.run(fn.body)
        except (_Continue, _Break):
            return Unknown(f"continue / break outside a loop in {name}")
        except RecursionError:
            return Unknown(f"recursion in {name}")
        if sub.raised is not None:
            self.raised = sub.raised
            self.done = True
        self.calls.extend(sub.calls)
        self.call_seq.extend(sub.call_seq)
        self.cells.extend(sub.cells)
        self.cell_seq.extend(sub.cell_seq)
        self.seq = sub.seq
        if method:
            for k, v in sub.env.items():
                if k.startswith("self.") and shared.get(k) is not v:
                    self.env[k] = v
        if not sub.returns:
            return NONE
        v = sub.returns[0][0]
        if v is None:
            return NONE
        if isinstance(v, F.Rat):
            for b in sub.buffers:
                if v.equals(F.sym(b)) and not any(c[0] == b for c in sub.cells) and f"<init:{b}>" in sub.env:
                    v = sub.env[f"<init:{b}>"]
        return v


# ---------------------------------------------------------------------------------------------------------------- one generic mode
class ModeEv(Ev01):
    """per-mode code for one generic mode: masks / index vectors are the truth value 0 / 1 of "this mode is selected" (see module docstring)"""

    def __init__(self, fn=None, **kw):
        super().__init__(fn, **kw)
        self.buffers = set()
        self.sel_stores = []     # (array box, selector value, stored value, stmt)
        self.abs_hook = None

    def spawn(self, fn, env):
        sub = super().spawn(fn, env)
        sub.buffers = set()
        sub.sel_stores = self.sel_stores
        sub.abs_hook = self.abs_hook
        return sub

    def _evr(self, node):
        if isinstance(node, (ast.Tuple, ast.List)) and not any(isinstance(e, ast.Starred) for e in node.elts):
            return self._boxed_elts(node)       # a bare array name inside a display is a reference to the array
        if isinstance(node, ast.Compare) and len(node.ops) == 1:
            t = self.value_truth(node)
            if t is not None:
                return F.const(1 if t else 0)
            return super()._evr(node)
        if isinstance(node, ast.UnaryOp) and isinstance(node.op, (ast.Invert, ast.Not)):
            v = self.ev(node.operand)
            c = const_of(v)
            if c is not None and c in (0, 1):
                return F.const(1 - int(c))
            return super()._evr(node)
        if isinstance(node, ast.BinOp) and isinstance(node.op, (ast.BitAnd, ast.BitOr)):
            a, b = self.ev(node.left), self.ev(node.right)
            if is_unknown(a) or is_unknown(b) or isinstance(a, tuple) or isinstance(b, tuple):
                ca, cb = (const_of(a) if isinstance(a, F.Rat) else None), (const_of(b) if isinstance(b, F.Rat) else None)
                if isinstance(node.op, ast.BitAnd) and (ca == 0 or cb == 0):
                    return F.const(0)
                return a if is_unknown(a) else b
            if isinstance(node.op, ast.BitAnd):
                return need(a) * need(b)
            return need(a) + need(b) - need(a) * need(b)
        if isinstance(node, ast.Attribute) and node.attr == "size":
            v = self.ev(node.value)
            c = const_of(v) if isinstance(v, F.Rat) else None
            if c is not None and c in (0, 1):
                return v
        return super()._evr(node)

    def _ev(self, node):
        if isinstance(node, (ast.Compare, ast.UnaryOp)) or (isinstance(node, ast.BinOp) and isinstance(node.op, (ast.BitAnd, ast.BitOr))):
            return self.plain(self._evr(node))
        return super()._ev(node)

    def selector(self, sl):
        """truth value of a selector expression: 1 / 0, else None"""
        if isinstance(sl, ast.Constant) or isinstance(sl, (ast.Tuple, ast.Slice)):
            return None
        v = self.ev(sl)
        c = const_of(v) if isinstance(v, F.Rat) else None
        if c is not None and c in (0, 1):
            return int(c)
        raise Unsupported(f"selector `{ast.unparse(sl)[:60]}` is not decided for the generic mode: {v!r}"[:200])

    def scalar_subscript(self, node, base):
        sl = node.slice
        if isinstance(sl, ast.Constant) and isinstance(sl.value, int):
            return base           # element of a per-mode array: the generic mode
        s = self.selector(sl)
        if s is None:
            return base
        return base if s else Unknown("empty selection")

    def scalar_store(self, target, base_unused, v, st, aug):
        try:
            s = self.selector(target.slice)
        except Unsupported as e:
            s, v = None, Unknown(str(e))
        tv = target.value
        if isinstance(tv, ast.Name):
            box = self.env.get(tv.id)
            if not isinstance(box, Box):
                box = Box(box if box is not None else Unknown(f"store into the unbound {tv.id}"))
                self.env[tv.id] = box
        else:
            box = self.evr(tv)
            if not isinstance(box, Box):
                return
        v = self.plain(v)
        self.sel_stores.append((box, s, v, st))
        if s is None or s:
            box.v = v

    def _evr_name_box(self, node):
        v = self.env.get(node.id)
        if isinstance(v, Box):
            return v
        if v is None or isinstance(v, tuple) or isinstance(v, REFS):
            return None
        b = Box(v)
        self.env[node.id] = b
        return b

    def _boxed_elts(self, node):
        out = []
        for e in node.elts:
            if isinstance(e, ast.Name) and e.id in self.env and not isinstance(self.env[e.id], REFS) and isinstance(self.env[e.id], F.Rat):
                out.append(self._evr_name_box(e))
            else:
                out.append(self.evr(e))
        return tuple(out)

    def builtin_call(self, d, node):
        args = node.args
        if d in ("np.any", "any") and len(args) == 1:
            return self.ev(args[0])
        if isinstance(node.func, ast.Attribute) and node.func.attr == "any" and not args:
            return self.ev(node.func.value)
        if (d in ("np.all", "all") and len(args) == 1) or (isinstance(node.func, ast.Attribute) and node.func.attr == "all" and not args):
            # the generic mode is one of many: all(x) is false when x fails for it, and open (it depends on the other modes) when x holds for it
            v = self.ev(args[0] if args else node.func.value)
            c = const_of(v) if isinstance(v, F.Rat) else None
            if c is not None and c == 0:
                return F.const(0)
            if c is not None:
                return F.sym("<holds for the generic mode; depends on the other modes>")
            return v
        if isinstance(node.func, ast.Attribute) and node.func.attr == "nonzero" and not args:
            return (self.ev(node.func.value),)
        if d in ("np.nonzero", "np.where") and len(args) == 1:
            return (self.ev(args[0]),)
        if d == "np.flatnonzero" and len(args) == 1:
            return self.ev(args[0])
        if d == "np.logical_not" and len(args) == 1:
            v = self.ev(args[0])
            c = const_of(v) if isinstance(v, F.Rat) else None
            if c is not None and c in (0, 1):
                return F.const(1 - int(c))
            return NotImplemented
        if d in ("abs", "np.abs", "np.absolute") and len(args) == 1:
            v = self.ev(args[0])
            if is_unknown(v) or isinstance(v, tuple):
                return v
            c = const_of(v)
            if c is not None:
                return F.const(abs(c))
            if self.abs_hook is not None:
                r = self.abs_hook(need(v), self)
                if r is not None:
                    return r
            return F.fn("abs", need(v))
        if d == "len" and len(args) == 1:
            v = self.evr(args[0])
            if not isinstance(v, (tuple, DictV)) and as_str(v) is None:
                return F.sym("<n>")
        if d in ("np.zeros", "np.zeros_like", "np.empty", "np.empty_like"):
            return F.const(0)
        if d in ("np.ones", "np.ones_like"):
            return F.const(1)
        return super().builtin_call(d, node)


# ---------------------------------------------------------------------------------------------------------------- rule-side wrapper
class Sem01(Sem):
    def __init__(self, ctx, fn, ev_cls=Ev01, cond=None, pinned=None, call=None, binop=None, env=None, run=True, subscript=None, inline=None, erase_T=False,
                 loop_unroll=0, forward_stores=False, consts=None, nonnull=(), truth=None, distinct=(), nt=None, fancy_copy=False, cmp=None, abs_hook=None):
        self.ctx = ctx
        self.fn = fn
        self.ev = ev_cls(fn, src=ctx.src, cond=cond, pinned=pinned, call=call, binop=binop, env=env, subscript=subscript)
        ev = self.ev
        ev.inl = {k: v for k, v in (inline or {}).items() if v is not fn}
        ev.erase_T = erase_T
        ev.loop_unroll = loop_unroll
        ev.forward_stores = forward_stores
        ev.module_consts = consts
        ev.nonnull = set(nonnull)
        ev.truth = dict(truth or {})
        ev.distinct = set(distinct)
        ev.nt = nt
        ev.fancy_copy = fancy_copy
        ev.cmp_hook = cmp
        if abs_hook is not None:
            ev.abs_hook = abs_hook
        if run:
            ev.run(fn.body)


def helpers(ctx, *specs, exclude=()):
    """inline table over several modules / classes: specs are (rel, cls or None).  A method is reachable as `self.name` whatever class of the
    hierarchy defines it; module-level functions by bare name."""
    from .sem import module_funcs
    out = {}
    for rel, cls in specs:
        for k, v in module_funcs(ctx, rel, cls=cls).items():
            if k not in exclude and k.split(".")[-1] not in exclude:
                out.setdefault(k, v)
    return out
