"""C01 helper: a wider abstract interpreter on top of e2_eval.AutoEvaluator.

`Ev01` understands the spellings that behaviour-preserving clean-ups of the ODE package use and that the shared evaluator leaves opaque:

  * tests are decided on *values* when the rule's oracle is silent (constants, `x is None` on a value known to be None / not None, identity of
    distinct objects such as two helper functions or two string literals), so inverted tests, swapped arms, guard clauses and early returns
    need no oracle entry keyed on their text;
  * `for` over literal tuples / evaluated tuples / `zip` / `enumerate(..., start=)` / `dict.items()` / strings, generator expressions and list
    comprehensions over the same iterables, `while` loops whose test is decided on constants, `continue` / `break`;
  * Python strings as values: concatenation, f-strings of strings, `getattr` / `setattr` / `vars(x).update(...)` with built attribute names;
  * `*args`, `**kwargs` in calls (expanded into positional / keyword values before hooks, inlining and recording see the call), dicts built
    by `dict(zip(...))`, `dict(k=v)`, `{...}`, `slice(a, b)` objects;
  * helpers followed interprocedurally with *reference semantics* for arrays, calls through a variable that holds a helper function,
    attribute assignments on `self` made by a helper visible to the caller;
  * `Hist`: a 2-D history array (rows = equations, columns = the samples of a short generic history).  A `Hist` is an object with identity:
    row blocks (`d[kdof]`, `d[rb]`) are views or copies that share / copy its storage, `X[:, i]` reads or writes column i of the block, and a
    helper that receives a block writes into the caller's array.  A rule therefore reads the computed history out of *the arrays it created*,
    whatever the local names, aliases and helper boundaries in between;
  * a tuple is a history of column values: `X[:, a:b]` slices samples, `X[rows]`, `X[rows, i]` select rows elementwise (`idx(value, rows)`),
    `.T` / `np.transpose` of a history is the history (iterating it yields the columns), `.real` / `.imag` map over the columns.

Second pass (neutral patches N9-N16):

  * callables are values (`FuncV`): nested `def` / `lambda` closures (free names read from the defining scope), `functools.partial` (local or bound
    at module level), `operator.attrgetter / itemgetter`, `operator.add ...`; a variable, conditional expression, table lookup or call that yields a
    helper, a bound method (`adv = self.E.dot`) or a library function is called under that function's name, so hooks and inlining see it;
    `reduce`, `map`, `itertools.accumulate`, `iter` / `next` (`IterV`); helpers imported from sibling modules are followed (`imported_funcs`);
  * `self.pc.Ae` read directly and through `pc = self.pc` are the same value; `SimpleNamespace(...)` / dict / `vars(x).update(...)` objects are
    `DictV` with identity (fields by reference); `np.matmul / np.dot / .dot / np.multiply ...`, `np.real / np.imag`, `np.newaxis`, named slices
    (`slice(None, k)`, `np.s_[...]`, also module-level) are the operators / literal subscripts they stand for;
  * `X.T` / `np.transpose(X)` of a history array is the sequence of its column *views* (`Cols`, `ColRef`): iterating / zipping them and
    `col[:] = value` read and write the array;
  * flags: a comparison / `not` / `bool(...)` whose truth is decided is the value True / False, `a or b` / `a and b` the operand Python returns;
  * soundness of what is NOT executed: a region behind an undecided test or inside a loop that cannot be enumerated, and a helper that cannot be
    followed, *poison* the arrays they store into (`skip`, `poison_args`): the rule reports ANALYSIS-ERROR, never a value that silently kept its old
    content; at an undecided test an arm after which every path raises is not the path of a result, so the other arm is taken (`run`);
    `with` bodies and the exception-free path of `try` are executed.

Third pass (neutral patches N19 / N20; the defect behind N20 was a *soundness hole*: a store made through a construct the evaluator did not follow left
the array at its old content, which was then compared):

  * nothing that may write is ever skipped silently: a closure that cannot be applied poisons its arguments and every array it reaches through its
    free names (`poison_closure`); `setattr` with a computed name, `vars(x).update(<unknown>)`, `exec / eval / locals()`, opaque library calls known
    to write in place (`np.add.at`, `x.sort()`, `ufunc(..., out=x)` ...), stores through computed destinations (`tab[k][rows] = v`), `del`, statements the
    evaluator does not execute (`match` with an undecided case, async / class bodies) and loops that cannot be enumerated whose variables may be views
    of arrays named in the iterable all leave *unknown* content (ANALYSIS-ERROR at worst); `np.empty` content is unknown until a followed store fills it;
    a lazy iterator nobody consumes (`map(...)` as a statement) is not executed;
  * taught so that the result is silence: `*args / **kwargs` parameters of helpers and closures (the surplus keywords are a dict with identity);
    closures share the defining scope (an array that gets its identity inside the closure keeps it outside); one array under several names
    (`pc.Fe = Fe = np.exp(...)`, `x = y`) whatever the order of binding and filling; `x += y` in place on arrays / column views, `ufunc(a, b, out=x)`,
    `X.T[i] = col`, `np.add.accumulate / np.cumsum(axis=1)` and `np.column_stack` on histories, `.reshape(-1, 1)`, index tuples held in a name
    (`as_column = (slice(None), np.newaxis)`), `np.full_like`, `np.einsum` for the plain products, `itertools.pairwise`, `match` on values,
    generator functions (`yield`) evaluated eagerly when they hold no reference to an array the consumer writes, `collections.namedtuple`
    classes (fields by name and position, `_asdict`, `_replace`), row views unpacked from a uniform 2-D table;
  * ModeEv: an *empty* selection (`Empty`: `X[sel]` with sel false, `np.arange(0)`, also module-level) selects nothing as a selector, has size 0
    and is unknown as a value - so regimes kept as a dict of index vectors (`iel[rat >= c]`, `regimes.get("under", _NOROWS)`) are decided like masks.

Fourth pass (neutral patch N24: a FALSE VIOLATION - `Gp = np.array(F)`, a copy, had been read as another name of F, so the stores into Gp landed in F):

  * array identity is answered per construct, never assumed: a call that makes an array from ONE array is a *copy* (np.array, np.copy, .copy(), .astype()),
    the operand itself or a *view* of it (np.asarray / np.asanyarray without dtype, np.atleast_1d, .view(), .squeeze(), X[:], X[...], X[:, None]) or *either,
    depending on dtype / memory layout* (np.asarray(x, dtype=...), np.array(x, copy=False), np.ascontiguousarray, np.ravel / .ravel(), .astype(copy=False)).
    In the last case the result gets its own identity and is *linked* with the operand (`Box.link`): a write into one leaves the other unknown - for good,
    the links are not dissolved (history arrays: the operand is given up at once);
  * masked stores spelled as library calls (np.place / np.putmask / np.put / x.put / np.copyto(where=) / ufunc(out=, where=), positional or keyword) are
    placed on the functions' signatures; a form that cannot be placed gives up its destination (also when the destination is a keyword, also the
    positional out operand of a ufunc).  How these functions pair VALUES with selected entries is a question of operand spaces: C01-R7 types it
    (c01_masks.masked_store_call) and reports a call it cannot type as ANALYSIS-ERROR; a store through a slice of the mode axis and np.split of a
    per-mode array are unknown for the generic mode (its position relative to the cut is not known);
  * np.split / np.array_split / np.vsplit / np.hsplit with a list of cut positions are the slices they stand for (np.hsplit needs the number of axes:
    `ndims` declared by the rule, history arrays, slicing); np.take / .take / np.compress / .compress / np.extract are subscripts; np.copyto(x, v) and
    ufunc(out=view) are stores also on history arrays;
  * the library under the importing module's names: `import numpy as xp`, `import numpy`, `from numpy import exp as _exp`, `import scipy.linalg`,
    `from itertools import accumulate as acc` (module or function level) are canonicalised before hooks, models and inlining see a call (`import_aliases`);
  * loop index sources: integer np.arange, np.ndindex, itertools.islice, itertools.count under zip / islice, chain, repeat.

`ModeEv` evaluates mask-partitioned per-mode code (`get_su_coef`) for ONE generic mode of a given regime: every per-mode array is the scalar
of that mode, a mask or index vector is the truth value "this mode is selected" (0 / 1), `X[sel]` is X or an empty selection, `X[sel] = v`
stores or is a no-op, `np.any(sel)` is the truth value itself.  Arrays are boxes with identity, so a store through an alias (`for dest, row in
zip((F, G, ...), rows): dest[pv] = row`) reaches the array; every array in a reference position (element of a display / dict, argument of a helper)
gets its identity there, so helpers that receive the coefficient arrays directly, in a tuple, in a dict or in a namespace and fill them in place all
reach the returned arrays; a store whose destination cannot be identified is recorded in `lost` (ANALYSIS-ERROR).  `np.bitwise_and / logical_and /
operator.and_ ...`, `np.place / putmask / copyto(where=)` are the mask operators / masked stores.  Ordering comparisons are decided by the rule's
regime oracle and logged with the values of both operands.
"""
from __future__ import annotations

import ast

from fractions import Fraction

from . import e2_formula as F
from .core import Unsupported
from .e1_srcmodel import dotted
from .e2_eval import AutoEvaluator, Unknown, is_unknown, need
from .sem import Sem, unfn  # noqa: F401  (unfn re-exported for the rule modules)

NONE = F.sym("None")
ALL = F.sym("<all rows>")
OTHERS = "<holds for the generic mode; depends on the other modes>"     # np.all(x) for one mode of many: open unless the rule fixes it through `truth`


# ---------------------------------------------------------------------------------------------------------------- small value helpers
def unsym(v):
    """name of a value that is exactly one symbol, else None"""
    if not isinstance(v, F.Rat):
        return None
    try:
        if not v.d.is_const() or v.d.const_value() != 1 or len(v.n.t) != 1:
            return None
        (m, c), = v.n.t.items()
        if c != 1 or len(m) != 1 or m[0][1] != 1:
            return None
        d = F.atom_desc(m[0][0])
    except Exception:  # noqa
        return None
    return d[1] if d[0] == "s" else None


def as_str(v):
    """the Python string a value stands for (AutoEvaluator keeps string literals as the symbol of their repr), else None"""
    n = unsym(v)
    if n and len(n) >= 2 and n[0] in "'\"" and n[-1] == n[0]:
        try:
            s = ast.literal_eval(n)
        except Exception:  # noqa
            return None
        return s if isinstance(s, str) else None
    return None


def mk_str(s):
    return F.sym(repr(s))


def const_of(v):
    """Fraction of a constant value, else None"""
    if isinstance(v, F.Rat) and v.is_const():
        return v.const_value()
    return None


def is_full_slice(n):
    return isinstance(n, ast.Slice) and n.lower is None and n.upper is None and n.step is None


def always_raises(stmts):
    """every path through the statement list ends in `raise` (no return, no normal end) - decided on the shape of the code"""
    for st in stmts:
        if isinstance(st, ast.Raise):
            return True
        if isinstance(st, ast.Return):
            return False
        if isinstance(st, ast.If) and always_raises(st.body) and always_raises(st.orelse):
            return True
        if isinstance(st, (ast.For, ast.While, ast.Try, ast.With, ast.Continue, ast.Break)):
            if isinstance(st, ast.With) and always_raises(st.body):
                return True
            if isinstance(st, (ast.Continue, ast.Break)):
                return False
    return False


class _Continue(Exception):
    pass


class _Break(Exception):
    pass


class _Lit(ast.Name):
    """an already evaluated value in argument position (used when *args / **kwargs are expanded)"""


def lit(v):
    n = _Lit(id="<value>", ctx=ast.Load())
    n.v = v
    return n


def _dotted_node(name, at=None):
    """the expression node of a dotted name `a.b.c` (identifiers only), else None"""
    parts = name.split(".")
    if not parts or not all(p.isidentifier() for p in parts):
        return None
    n = ast.Name(id=parts[0], ctx=ast.Load())
    for p in parts[1:]:
        n = ast.Attribute(value=n, attr=p, ctx=ast.Load())
    if at is not None:
        for x in ast.walk(n):
            ast.copy_location(x, at)
    return n


class DictV:
    """a dict with constant keys: key (str / Fraction) -> value (possibly a reference)"""

    def __init__(self, d):
        self.d = dict(d)

    def __repr__(self):
        return "DictV(%s)" % ", ".join(f"{k!r}: {v!r}" for k, v in self.d.items())


class NamedV(DictV):
    """an instance of a collections.namedtuple class: fields by name (a DictV) and, in field order, by position (unpacking, iteration, [k])"""

    def __repr__(self):
        return "NamedV(%s)" % ", ".join(f"{k}={v!r}" for k, v in self.d.items())


# ---------------------------------------------------------------------------------------------------------------- history arrays
class Hist:
    """2-D array: `nt` columns (samples), rows addressed in blocks by an evaluated row selector.  Unstored columns read as `fill` (np.zeros)
    or as the symbol col(label, rows, i) (the content the array had on entry)."""

    def __init__(self, label, nt, fill=None):
        self.label, self.nt, self.fill = label, nt, fill
        self.blocks = {}       # rowkey -> {col: value}
        self.stores = []       # (rowkey, col, value, stmt)
        self.bad = []          # accesses that could not be modelled
        self.poisoned = None   # why the content is not known any more (a store in a region the evaluator could not execute)

    def initial(self, rowkey, rowval, col):
        if self.fill is not None:
            return self.fill
        return F.fn("col", F.sym(self.label), rowval, F.const(col))

    def block(self, rowkey, rowval, copy=False):
        return Block(self, rowkey, rowval, dict(self.blocks.get(rowkey, {})) if copy else None)

    def root(self):
        return Block(self, "", ALL, None)

    def __repr__(self):
        return f"Hist({self.label})"


class Block:
    """the rows `rowval` of a Hist: a view (cols is None: reads and writes go to the Hist) or a private copy (cols: own column table)"""

    def __init__(self, hist, rowkey, rowval, cols):
        self.hist, self.rowkey, self.rowval, self.cols = hist, rowkey, rowval, cols

    def get(self, col):
        if self.hist.poisoned is not None:
            return Unknown(self.hist.poisoned)
        tab = self.cols if self.cols is not None else self.hist.blocks.get(self.rowkey, {})
        if col in tab:
            return tab[col]
        return self.hist.initial(self.rowkey, self.rowval, col)

    def put(self, col, v, st=None):
        if self.cols is not None:
            self.cols[col] = v
        else:
            self.hist.blocks.setdefault(self.rowkey, {})[col] = v
            self.hist.stores.append((self.rowkey, col, v, st))

    def columns(self):
        return tuple(self.get(i) for i in range(self.hist.nt))

    def __repr__(self):
        return f"Block({self.hist.label}[{self.rowkey}]{' copy' if self.cols is not None else ''})"


class Cols:
    """the transposed view `X.T` of a Hist / Block: a sequence of column views"""

    def __init__(self, block):
        self.block = block

    def refs(self):
        return [ColRef(self.block, i) for i in range(self.block.hist.nt)]

    def __repr__(self):
        return f"Cols({self.block!r})"


class ColRef:
    """one column of a Hist / Block as a view: read when used, `c[:] = v` writes the column"""

    def __init__(self, block, col):
        self.block, self.col = block, col

    def __repr__(self):
        return f"ColRef({self.block!r}, {self.col})"


class IterV:
    """an iterator (itertools.accumulate, iter(...), zip / enumerate kept in a variable): the remaining items; next() and `for` consume them"""

    def __init__(self, items):
        self.items = list(items)
        self.pos = 0

    def rest(self):
        r = self.items[self.pos:]
        self.pos = len(self.items)
        return r

    def __repr__(self):
        return f"IterV({len(self.items) - self.pos} left)"


class _Count:
    """itertools.count(start, step): an unbounded arithmetic sequence of integer constants"""

    def __init__(self, start, step):
        self.start, self.step = start, step

    def take(self, n):
        return [F.const(self.start + k * self.step) for k in range(n)]


class Empty(Unknown):
    """ModeEv: a selection that does not contain the generic mode (`X[sel]` with sel false, `np.arange(0)`, an index vector cut by a mask the mode fails).
    As a value it is unknown (there is no element to speak of); as a selector it selects nothing; its size is 0"""

    def __init__(self, why="empty selection"):
        super().__init__(why)


class Uninit(Unknown):
    """ModeEv: the content of an array created by np.empty / np.empty_like that NO store has reached for the generic mode.  Every construct that may
    write and is not followed replaces it by a plain Unknown (poison), so a value that is still `Uninit` when the array is published was provably
    never assigned on the evaluated path: uninitialised memory - a definite defect, not a lowering gap"""


class Box:
    """a per-mode array of ModeEv: a value with identity (aliases share it)"""

    arr = False      # known to be an array (created by a constructor that returns one, or stored into through a subscript): `x += y` is in place
    links = None     # boxes that MAY share this array's memory (np.asarray(x, dtype=...), np.ascontiguousarray(x), x.ravel(), np.array(x, copy=False)):
                     # whether the call returned its operand or a converted copy depends on dtypes / strides the evaluator does not track

    def __init__(self, v, arr=False):
        self.v = v
        if arr:
            self.arr = True

    def set(self, v):
        """a write into the array: every box that may share its memory (directly or through a chain of such boxes) is not known afterwards - it changed
        if it is the same array, it did not if it is a copy; never a guess.  The links stay: a later write into one of the others puts THIS box in doubt"""
        self.v = v
        if self.links:
            seen, work = {id(self)}, list(self.links)
            while work:
                o = work.pop()
                if id(o) in seen:
                    continue
                seen.add(id(o))
                o.v = Unknown("may share its memory with an array that was written afterwards (the call that made it returns its operand or a copy, "
                              "depending on dtype / memory layout)")
                work.extend(o.links or [])

    def link(self, other):
        if other is self:
            return
        self.links = (self.links or []) + [other]
        other.links = (other.links or []) + [self]

    def __repr__(self):
        return f"Box({self.v!r})"


class FuncV:
    """a callable value.  kind: 'closure' (a nested def / lambda together with the scope it was created in), 'partial' (functools.partial: callee +
    bound positional / keyword values), 'attrgetter' / 'itemgetter' (operator module), 'op' (operator.add ...: an ast operator)"""

    def __init__(self, kind, **kw):
        self.kind = kind
        self.__dict__.update(kw)

    def __repr__(self):
        return f"FuncV({self.kind})"


REFS = (Hist, Block, Box, DictV, FuncV, Cols, ColRef, IterV)

LIBRARY_ROOTS = {"np", "numpy", "la", "scipy", "math", "operator", "functools", "itertools", "linalg", "expmint", "ytools"}
OPERATOR_FUNCS = {"add": ast.Add, "sub": ast.Sub, "mul": ast.Mult, "truediv": ast.Div, "matmul": ast.MatMult, "pow": ast.Pow, "and_": ast.BitAnd,
                  "or_": ast.BitOr, "xor": ast.BitXor}
PURE_BUILTINS = {"len", "abs", "min", "max", "sum", "any", "all", "range", "zip", "enumerate", "reversed", "tuple", "list", "dict", "set", "sorted", "map",
                 "filter", "isinstance", "issubclass", "type", "int", "float", "complex", "bool", "str", "repr", "print", "getattr", "hasattr", "id", "iter",
                 "next", "slice", "round", "divmod", "pow", "ValueError", "TypeError", "RuntimeError", "NotImplementedError", "SimpleNamespace", "reduce",
                 "partial", "attrgetter", "itemgetter", "format", "vars"}
UFUNC2 = {"np.add": ast.Add, "np.subtract": ast.Sub, "np.multiply": ast.Mult, "np.divide": ast.Div, "np.true_divide": ast.Div, "np.power": ast.Pow,
          "np.matmul": ast.MatMult, "np.dot": ast.MatMult, "numpy.matmul": ast.MatMult, "numpy.dot": ast.MatMult}
# array-from-array library functions: does the result share the memory of the operand?  "copy": never (new memory); "alias": the operand itself or a view
# of it; "maybe": the operand when no conversion is needed, else a copy - decided by dtypes / strides the evaluator does not track
ARRAY_FROM = {"np.copy": "copy", "np.array": "copy", "np.asarray": "alias", "np.asanyarray": "alias", "np.atleast_1d": "alias", "np.atleast_2d": "alias",
              "np.atleast_3d": "alias", "np.squeeze": "alias", "np.ascontiguousarray": "maybe", "np.asfortranarray": "maybe", "np.require": "maybe",
              "np.ravel": "maybe", "np.asarray_chkfinite": "maybe"}
ARRAY_FROM.update({"numpy" + k[2:]: v for k, v in list(ARRAY_FROM.items())})
SPLIT_FUNCS = {"np.split": None, "np.array_split": None, "np.vsplit": 0, "np.hsplit": 1, "numpy.split": None, "numpy.array_split": None, "numpy.vsplit": 0,
               "numpy.hsplit": 1}


def has_ref(v):
    return isinstance(v, REFS) or (isinstance(v, tuple) and any(has_ref(x) for x in v))


CANON_MODULES = {"numpy": "np", "scipy.linalg": "la", "numpy.linalg": "np.linalg", "scipy": "scipy", "math": "math", "operator": "operator",
                 "functools": "functools", "itertools": "itertools", "types": "types", "collections": "collections"}


def import_aliases(mod):
    """{local name: canonical dotted name} for the library names a module imports under another spelling: `import numpy` / `import numpy as xp` ->
    np, `import scipy.linalg [as sla]` / `from scipy import linalg` -> la, `from numpy import exp as _exp` -> np.exp, `from scipy.linalg import lu_solve`
    -> la.lu_solve, `from math import sqrt` -> math.sqrt, `from functools import reduce as fold` -> reduce.  The evaluators key the library on the
    canonical spellings (np.exp, la.lu_solve, reduce); which name the module binds them to is not behaviour"""
    if mod is None:
        return {}
    cache = getattr(mod, "_c01_import_aliases", None)
    if cache is not None:
        return cache
    out = {}
    for st in ast.walk(mod.tree):
        if isinstance(st, ast.Import):
            for al in st.names:
                canon = CANON_MODULES.get(al.name)
                if canon is None:
                    continue
                if al.asname:
                    if al.asname != canon:
                        out[al.asname] = canon
                elif al.name != canon:
                    out[al.name] = canon                  # `import numpy`: numpy.exp; `import scipy.linalg`: scipy.linalg.solve
        elif isinstance(st, ast.ImportFrom) and st.level == 0 and st.module:
            for al in st.names:
                local = al.asname or al.name
                full = f"{st.module}.{al.name}"
                if full in CANON_MODULES:                 # from scipy import linalg [as sla]
                    if local != CANON_MODULES[full]:
                        out[local] = CANON_MODULES[full]
                    continue
                canon = CANON_MODULES.get(st.module)
                if canon is None:
                    continue
                if st.module in ("functools", "itertools", "operator", "types", "collections"):
                    target = al.name if st.module != "operator" else f"operator.{al.name}"      # the evaluators know reduce / accumulate / partial by bare name
                else:
                    target = f"{canon}.{al.name}"
                if local != target:
                    out[local] = target
    try:
        mod._c01_import_aliases = out
    except Exception:  # noqa
        pass
    return out


def canon_dotted(d, aliases):
    """canonical spelling of a dotted library name under the module's import aliases (longest aliased prefix), else d"""
    if not d or not aliases:
        return d
    parts = d.split(".")
    for k in range(len(parts), 0, -1):
        pre = ".".join(parts[:k])
        if pre in aliases:
            return ".".join([aliases[pre]] + parts[k:])
    return d


# ---------------------------------------------------------------------------------------------------------------- the evaluator
class Ev01(AutoEvaluator):
    LIMIT = 64
    compare_value = True     # a comparison whose truth is decided is the value True / False (ModeEv: 1 / 0, see there)

    def __init__(self, fn=None, **kw):
        super().__init__(fn, **kw)
        self.nonnull = set()     # names of symbols that stand for objects that are not None
        self.truth = {}          # symbol name -> truthiness of the object it stands for
        self.distinct = set()    # names of symbols that stand for pairwise distinct objects
        self.inl = {}            # {dotted callee: FunctionDef}: helpers followed interprocedurally (own implementation, reference semantics)
        self.depth = 0
        self.nt = None           # number of samples of the generic history: np.zeros((rows, nt)) creates a Hist
        self.fancy_copy = False  # `X[rows]` of a Hist is a copy (index vectors) instead of a view (slices)
        self.cmp_hook = None     # (node, L, R, ev) -> True / False / None for ordering comparisons that are not between constants
        self.cmp_log = []        # (node, L, R, result)
        self._recorded = None
        self.raised = None       # the `raise` statement that ended the evaluated path, if any
        self.hists = []          # history arrays created by the evaluated code itself (np.zeros / np.empty with nt columns), shared with helpers
        self.fn = fn
        self._forced = {}        # id(If statement) -> truth taken because the other arm only leads to `raise`
        self.yields = None       # values yielded so far when the evaluated function is a generator
        self.yield_lost = False  # a `yield` sits in a region that was not executed / in a form that is not modelled
        self.skipped = []        # (statement, reason): regions with stores that were not executed (undecided test, loop that could not be enumerated)
        self.ndims = {}          # symbol name -> number of axes of the array it stands for, where the rule knows it (`E`: a matrix)

    # ---- configuration inherited by the evaluator of an inlined helper
    def spawn(self, fn, env):
        sub = type(self)(fn, env=env, cond=self.cond, src=self.src, subscript=self.subscript, call=self.call_hook, binop=self.binop_hook)
        for a in ("nonnull", "truth", "distinct", "inl", "nt", "fancy_copy", "cmp_hook", "cmp_log", "loop_unroll", "loop_once", "forward_stores", "erase_T", "ndims"):
            setattr(sub, a, getattr(self, a))
        if hasattr(self, "module_consts"):
            sub.module_consts = self.module_consts
        sub.depth = self.depth + 1
        sub.seq = self.seq
        sub.hists = self.hists
        sub.skipped = self.skipped
        return sub

    # ------------------------------------------------------------------------------------------------ tests
    def decide(self, test):
        r = super().decide(test)
        if r is not None:
            return r
        try:
            return self.value_truth(test)
        except Unsupported:
            return None

    def _known_object(self, v):
        """the value certainly denotes an object that is not None"""
        if isinstance(v, (tuple,) + REFS):
            return True
        if not isinstance(v, F.Rat) or v.equals(NONE):
            return False
        n = unsym(v)
        if n is None:
            return not v.depends_on("None")
        if "." in n and n.split(".")[0] in LIBRARY_ROOTS:
            return True          # a library function / constant (np.multiply, la.lu_solve)
        return n in self.nonnull or n in self.distinct or as_str(v) is not None or n in self.inl or n in ("True", "False", "float", "complex", "int", "bool")

    def _atomic(self, v):
        """a key that identifies the object when the value denotes one of a family of pairwise distinct objects, else None"""
        if isinstance(v, F.Rat):
            c = const_of(v)
            if c is not None:
                return ("c", c)
            n = unsym(v)
            if n is not None and (n in self.distinct or n in self.inl or as_str(v) is not None or n in ("None", "True", "False", "float", "complex", "int", "bool")):
                return ("s", n)
        return None

    def value_truth(self, test):
        if isinstance(test, ast.Compare) and len(test.ops) == 1:
            op = test.ops[0]
            a, b = self.evr(test.left), self.evr(test.comparators[0])
            a, b = (a.v if isinstance(a, Box) else a), (b.v if isinstance(b, Box) else b)      # a boxed value is compared by its content
            if isinstance(op, (ast.Eq, ast.NotEq, ast.Is, ast.IsNot)):
                pos = isinstance(op, (ast.Eq, ast.Is))
                if is_unknown(a) or is_unknown(b):
                    return None
                r = None
                for x, y in ((a, b), (b, a)):
                    if isinstance(y, F.Rat) and y.equals(NONE) and not (isinstance(x, F.Rat) and x.equals(NONE)):
                        if self._known_object(x):
                            r = False
                if r is None and isinstance(a, F.Rat) and isinstance(b, F.Rat):
                    if a.equals(b):
                        r = True
                    else:
                        ka, kb = self._atomic(a), self._atomic(b)
                        if ka is not None and kb is not None:
                            r = ka == kb
                if r is None:
                    return None
                return r if pos else (not r)
            if isinstance(op, (ast.Lt, ast.LtE, ast.Gt, ast.GtE)):
                a, b = self.plain(a), self.plain(b)
                if is_unknown(a) or is_unknown(b) or isinstance(a, tuple) or isinstance(b, tuple):
                    return None
                return self.order_truth(test, op, a, b)
            return None
        if isinstance(test, (ast.BoolOp, ast.UnaryOp)) and not isinstance(getattr(test, "op", None), (ast.USub, ast.UAdd, ast.Invert)):
            return None                # composed by Evaluator.decide
        v = self.evr(test)
        return self.truthiness(v)

    def order_truth(self, node, op, a, b):
        ca, cb = const_of(a), const_of(b)
        if ca is not None and cb is not None:
            r = {ast.Lt: ca < cb, ast.LtE: ca <= cb, ast.Gt: ca > cb, ast.GtE: ca >= cb}[type(op)]
            return r
        if self.cmp_hook is not None:
            r = self.cmp_hook(node, op, a, b, self)
            self.cmp_log.append((node, op, a, b, r))
            return r
        return None

    def truthiness(self, v):
        if is_unknown(v):
            return None
        if isinstance(v, tuple):
            return len(v) > 0
        if isinstance(v, DictV):
            return len(v.d) > 0
        if isinstance(v, FuncV):
            return True
        if isinstance(v, REFS):
            v = self.plain(v)
            if isinstance(v, tuple) or is_unknown(v):
                return None
        c = const_of(v)
        if c is not None:
            return c != 0
        n = unsym(v)
        if n is not None:
            if n == "None" or n == "False":
                return False
            if n == "True":
                return True
            s = as_str(v)
            if s is not None:
                return len(s) > 0
            if n in self.truth:
                return self.truth[n]
            if n in self.inl:
                return True
        return None

    # ------------------------------------------------------------------------------------------------ expressions
    def plain(self, v):
        if isinstance(v, Hist):
            return v.root().columns()
        if isinstance(v, Block):
            return v.columns()
        if isinstance(v, Cols):
            return v.block.columns()
        if isinstance(v, ColRef):
            return v.block.get(v.col)
        if isinstance(v, Box):
            return v.v
        return v

    def transposed(self, b):
        """X.T of a history array is the sequence of its column views; of that sequence, the array again"""
        if isinstance(b, Hist):
            return Cols(b.root())
        if isinstance(b, Block):
            return Cols(b)
        if isinstance(b, Cols):
            return b.block
        return b

    def evr(self, node):
        """value of an expression with references (arrays with identity) kept"""
        try:
            return self._evr(node)
        except Unsupported as e:
            return Unknown(str(e))

    def ref_of(self, node):
        """value of an expression in a position that keeps a reference to an array (element of a display, argument of a helper, value of a dict /
        namespace entry): the same as evr here; ModeEv gives a bare array name an identity at this point"""
        return self.evr(node)

    def _evr(self, node):
        if isinstance(node, _Lit):
            return node.v
        if isinstance(node, ast.Name):
            v = self.env.get(node.id)
            if has_ref(v):
                return v
            if v is None and node.id not in self.buffers:
                mv = self.module_callable(node.id)
                if mv is not None:
                    return mv
            return super()._ev(node)
        if isinstance(node, ast.BoolOp):
            for i, x in enumerate(node.values):
                if i == len(node.values) - 1:
                    return self._evr(x)
                t = self.decide(x)
                if t is None:
                    break
                if t == isinstance(node.op, ast.Or):
                    return self._evr(x)            # `a or b` is a when a is true; `a and b` is a when a is false
        if ((isinstance(node, ast.Compare) and len(node.ops) == 1) or (isinstance(node, ast.UnaryOp) and isinstance(node.op, ast.Not))) \
                and type(self).compare_value:
            t = self.decide(node)
            if t is not None:
                return F.sym("True" if t else "False")
        if isinstance(node, ast.Lambda):
            f = ast.FunctionDef(name="<lambda>", args=node.args, body=[ast.copy_location(ast.Return(value=node.body), node)], decorator_list=[], returns=None,
                                type_comment=None, type_params=[])
            ast.copy_location(f, node)
            ast.fix_missing_locations(f)
            return FuncV("closure", fn=f, scope=self.env, owner=self)
        if isinstance(node, ast.Attribute):
            d = dotted(node)
            if d is not None and d not in self.env:
                c = self.canon_name(d)
                if c != d:
                    cn = _dotted_node(c, node)          # xp.newaxis, numpy.pi, a library function passed as a value under the module's alias
                    if cn is not None:
                        return self._evr(cn)
            if d is not None:
                v = self.env.get(d)
                if has_ref(v):
                    return v
                rootv = self.env.get(d.split(".")[0])
                # `self.pc.Ae` read directly and `pc = self.pc; pc.Ae` are the same value attr:Ae(self.pc): a chain below `self.x` that is not itself
                # bound is the attribute of the value of its prefix, not a symbol of its own spelling
                deep = d.count(".") >= 2 and d.startswith("self.") and d not in self.env and "self" not in self.env
                if not deep and not has_ref(rootv) and not isinstance(rootv, tuple) and not (node.attr == "T" and not self.erase_T):
                    return super()._ev(node)             # a plain dotted chain: the shared evaluator's reading
            b = self._evr(node.value)                      # evaluated once (calls inside are recorded once)
            if is_unknown(b):
                return b
            if isinstance(b, (Hist, Block, Cols)) and node.attr == "T":
                return self.transposed(b)
            if isinstance(b, (Hist, Block, Cols, ColRef)):
                b = self.plain(b)
            if node.attr == "T" and isinstance(b, (tuple,) + REFS):
                return b
            if isinstance(b, tuple) and not has_ref(b):
                if node.attr in ("real", "imag"):
                    return tuple(x if is_unknown(x) else (F.fn("attr:" + node.attr, need(x)) if not isinstance(x, tuple) else Unknown("nested")) for x in b)
                if node.attr == "shape":
                    return (F.sym("<rows>"), F.const(len(b)))
                if node.attr == "ndim":
                    return F.const(2)
            if isinstance(b, NamedV) and node.attr == "_fields":
                return tuple(mk_str(k_) for k_ in b.d)
            if isinstance(b, DictV):
                if node.attr in b.d:
                    return b.d[node.attr]          # a namespace object (SimpleNamespace(**fields)) with identity
                return Unknown(f"attribute {node.attr} not set on the namespace")
            if isinstance(b, Box):
                b = b.v
            if not isinstance(b, F.Rat):
                return Unknown(f"attribute {node.attr} of {type(b).__name__}")
            if node.attr == "T":
                return b if self.erase_T else F.fn("attr:T", b)
            return F.fn("attr:" + node.attr, b)
        if isinstance(node, ast.NamedExpr) and isinstance(node.target, ast.Name):
            v = self._evr(node.value)
            self._assign(node.target, v, node)
            return v
        if isinstance(node, (ast.Tuple, ast.List)):
            out = []
            for e in node.elts:
                if isinstance(e, ast.Starred):
                    v = self.evr(e.value)
                    if not isinstance(v, tuple):
                        return Unknown("starred element that is not a tuple")
                    out.extend(v)
                else:
                    out.append(self.evr(e))
            return tuple(out)
        if isinstance(node, ast.Dict):
            d = {}
            for k, v in zip(node.keys, node.values):
                if k is None:
                    m = self.evr(v)
                    if not isinstance(m, DictV):
                        return Unknown("** of a value that is not a literal dict")
                    d.update(m.d)
                    continue
                kk = self.key_of(self.evr(k))
                if kk is None:
                    return Unknown("dict key that is not a constant")
                d[kk] = self.ref_of(v)
            return DictV(d)
        if isinstance(node, ast.IfExp):
            c = self.decide(node.test)
            if c is True:
                return self._evr(node.body)
            if c is False:
                return self._evr(node.orelse)
            return Unknown(f"undecided conditional {ast.unparse(node.test)}")
        if isinstance(node, (ast.GeneratorExp, ast.ListComp, ast.SetComp, ast.DictComp)):
            return self.comprehension(node)
        if isinstance(node, ast.Subscript):
            return self.subscript_value(node)
        if isinstance(node, ast.Call):
            return self._call(node)
        if isinstance(node, ast.JoinedStr):
            parts = []
            for v in node.values:
                if isinstance(v, ast.Constant) and isinstance(v.value, str):
                    parts.append(v.value)
                elif isinstance(v, ast.FormattedValue) and v.format_spec is None and v.conversion == -1:
                    s = as_str(self.evr(v.value))
                    if s is None:
                        return super()._ev(node)
                    parts.append(s)
                else:
                    return super()._ev(node)
            return mk_str("".join(parts))
        if isinstance(node, ast.BinOp) and isinstance(node.op, ast.Add):
            a, b = self.evr(node.left), self.evr(node.right)
            sa, sb = as_str(a), as_str(b)
            if sa is not None and sb is not None:
                return mk_str(sa + sb)
            if isinstance(a, tuple) and isinstance(b, tuple) and (has_ref(a) or has_ref(b)):
                return a + b
        return super()._ev(node)

    REFNODES = (ast.BoolOp, ast.Compare, ast.UnaryOp, _Lit, ast.Name, ast.Attribute, ast.NamedExpr, ast.Tuple, ast.List, ast.Dict, ast.IfExp, ast.GeneratorExp, ast.ListComp, ast.Subscript, ast.Call,
                ast.JoinedStr, ast.Lambda, ast.SetComp, ast.DictComp)

    # ---- callables
    def module_callable(self, name):
        """the callable a free name is bound to at the top level of the module that defines the evaluated function: `NAME = partial(f, ...)`,
        `NAME = lambda ...`, `NAME = attrgetter(...)` (a constant-like binding a clean-up may have moved out of a function), else None"""
        mod = getattr(self.fn, "_vmod", None)
        if mod is None:
            return None
        cache = mod.__dict__.setdefault("_c01_callables", {})
        if name in cache:
            node = cache[name]
        else:
            node, n = None, 0
            for st in mod.tree.body:
                tg = st.targets if isinstance(st, ast.Assign) else ([st.target] if isinstance(st, (ast.AnnAssign, ast.AugAssign)) else [])
                for t in tg:
                    for x in ast.walk(t):
                        if isinstance(x, ast.Name) and x.id == name:
                            n += 1
                            node = st.value if isinstance(st, (ast.Assign, ast.AnnAssign)) and isinstance(t, ast.Name) else None
                if isinstance(st, (ast.FunctionDef, ast.ClassDef)) and st.name == name:
                    n += 2
            if n != 1 or not isinstance(node, (ast.Call, ast.Lambda, ast.Dict, ast.Tuple, ast.List, ast.Subscript)):
                node = None
            cache[name] = node
        if node is None or name in self._folding:
            return None
        sub = type(self)(None, env={}, cond=self.cond, src=self.src)      # module scope: none of the function's locals is visible
        sub.fn = self.fn
        sub.inl, sub.module_consts = self.inl, self.module_consts
        sub._folding = set(self._folding) | {name}
        sub.depth = self.depth + 1
        v = sub.evr(node)

        def usable(x):
            if isinstance(x, (FuncV, DictV)):
                return True
            if isinstance(x, tuple):
                return all(usable(y) or (isinstance(y, F.Rat) and not y.depends_on("call")) for y in x)
            u = unfn(x) if isinstance(x, F.Rat) else None
            return bool(u) and u[0] in ("slice", "tuple")
        if isinstance(v, Empty):
            return v             # a module-level empty index vector (`_NOROWS = np.arange(0)`)
        if isinstance(node, ast.Call) and not isinstance(v, FuncV) and not isinstance(v, DictV):
            return None          # an arbitrary module-level call is not evaluated
        return v if usable(v) else None

    def callee_value(self, f):
        """the FuncV a callee expression denotes, else None"""
        if isinstance(f, _Lit):
            return f.v if isinstance(f.v, FuncV) else None
        if isinstance(f, ast.Name):
            v = self.env.get(f.id)
            if isinstance(v, FuncV):
                return v
            if v is None and f.id not in self.buffers:
                if f.id in OPERATOR_FUNCS and f.id not in self.inl:
                    return None
                return self.module_callable(f.id)
            return None
        if isinstance(f, ast.Attribute):
            d = dotted(f)
            if d is not None and d.startswith("operator.") and d.split(".", 1)[1] in OPERATOR_FUNCS:
                return FuncV("op", op=OPERATOR_FUNCS[d.split(".", 1)[1]])
            if d is not None:
                v = self.env.get(d)
                return v if isinstance(v, FuncV) else None
            return None
        if isinstance(f, (ast.Call, ast.Lambda, ast.IfExp, ast.Subscript, _Lit)):
            v = self.evr(f)
            return v if isinstance(v, FuncV) else None
        return None

    def apply(self, fv, node):
        """call of a callable value with the arguments of `node`"""
        args, kws = list(node.args), list(node.keywords)
        if fv.kind == "partial":
            new = ast.Call(func=fv.func, args=[lit(x) for x in fv.args] + args, keywords=[ast.keyword(arg=k, value=lit(v)) for k, v in fv.kw.items()
                                                                                         if k not in {q.arg for q in kws}] + kws)
            ast.copy_location(new, node)
            ast.fix_missing_locations(new)
            if isinstance(fv.func, _Lit):
                return self.apply(fv.func.v, new)
            return self._call(new)
        if fv.kind in ("attrgetter", "itemgetter") and len(args) == 1 and not kws:
            out = []
            for it in fv.items:
                if fv.kind == "attrgetter":
                    x = args[0]
                    for part in it.split("."):
                        x = ast.copy_location(ast.Attribute(value=x, attr=part, ctx=ast.Load()), node)
                else:
                    x = ast.copy_location(ast.Subscript(value=args[0], slice=lit(it), ctx=ast.Load()), node)
                ast.fix_missing_locations(x)
                out.append(self.evr(x))
            return out[0] if len(out) == 1 else tuple(out)
        if fv.kind == "namedtuple":
            if len(args) > len(fv.fields) or any(isinstance(a, ast.Starred) for a in args) or any(k.arg is None or k.arg not in fv.fields for k in kws):
                return Unknown("call of a namedtuple class with arguments the evaluator cannot place")
            vals = {}
            for n_, a in zip(fv.fields, args):
                vals[n_] = self.ref_of(a)
            for k in kws:
                if k.arg in vals:
                    return Unknown("namedtuple field given twice")
                vals[k.arg] = self.ref_of(k.value)
            if set(vals) != set(fv.fields):
                return Unknown("namedtuple field missing")
            return NamedV({n_: vals[n_] for n_ in fv.fields})
        if fv.kind == "op" and len(args) == 2 and not kws:
            x = ast.copy_location(ast.BinOp(left=args[0], op=fv.op(), right=args[1]), node)
            ast.fix_missing_locations(x)
            return self.evr(x)
        if fv.kind == "closure" and self.depth < 6:
            r = self.inline_call(node, fv.fn.name, fv.fn, scope=fv.scope)
            if r is not NotImplemented:
                return r
        why = f"call of a {fv.kind} value that the evaluator cannot apply"
        if fv.kind == "closure":
            # what is not executed is not "unchanged": the closure may store into its arguments and into every array of the scope it was created in
            self.poison_closure(fv, why + f" (line {getattr(node, 'lineno', '?')})")
        self.poison_args(node, why)
        return Unknown(why)

    def poison_closure(self, fv, why):
        """a nested function that is called but not followed: the arrays it can reach through its free names are not known afterwards"""
        local = {x.arg for x in fv.fn.args.posonlyargs + fv.fn.args.args + fv.fn.args.kwonlyargs}
        stored, used = set(), set()
        for n in ast.walk(fv.fn):
            if isinstance(n, ast.Name) and n.id not in local:
                used.add(n.id)
            if isinstance(n, (ast.Subscript, ast.Attribute)) and isinstance(n.ctx, ast.Store):
                r = n
                while isinstance(r, (ast.Subscript, ast.Attribute)):
                    r = r.value
                if isinstance(r, ast.Name) and r.id not in local:
                    stored.add(r.id)
        scope = fv.scope if isinstance(fv.scope, dict) else {}
        for nm in sorted(used):
            v = scope.get(nm)
            if has_ref(v) and not isinstance(v, FuncV):
                self.poison(v, None, why, fv.fn)
            elif nm in stored and nm in scope and nm not in self.pinned:
                scope[nm] = Unknown(why)

    def call_with(self, fnode, values, at):
        """call of the function the expression `fnode` denotes on already evaluated values"""
        c = ast.copy_location(ast.Call(func=fnode, args=[lit(v) for v in values], keywords=[]), at)
        return self.evr(ast.fix_missing_locations(c))

    def make_callable(self, d, node):
        """functools.partial / operator.attrgetter / operator.itemgetter objects"""
        args, kws = node.args, node.keywords
        if d in ("partial", "functools.partial") and args:
            f = args[0]
            fv = self.callee_value(f)
            if fv is not None:
                f = lit(fv)
            elif isinstance(f, ast.Name) and f.id in self.env:
                n = unsym(self.env[f.id])
                if n is None:
                    return NotImplemented
                f = _dotted_node(n, node) or f
            elif not isinstance(f, (ast.Name, ast.Attribute)) or dotted(f) is None:
                return NotImplemented
            return FuncV("partial", func=f, args=[self.evr(a) for a in args[1:]], kw={k.arg: self.evr(k.value) for k in kws if k.arg is not None})
        if d in ("namedtuple", "collections.namedtuple") and len(args) == 2 and not kws:
            fv = self.evr(args[1])
            names = as_str(fv)
            if names is not None:
                names = names.replace(",", " ").split()
            elif isinstance(fv, tuple) and all(as_str(x) is not None for x in fv):
                names = [as_str(x) for x in fv]
            if not names or not all(n_.isidentifier() for n_ in names) or len(set(names)) != len(names):
                return NotImplemented
            return FuncV("namedtuple", fields=list(names))
        if d in ("attrgetter", "operator.attrgetter", "itemgetter", "operator.itemgetter") and args and not kws:
            vals = [self.evr(a) for a in args]
            if d.endswith("attrgetter"):
                items = [as_str(v) for v in vals]
                if any(i is None or not all(p.isidentifier() for p in i.split(".")) for i in items):
                    return NotImplemented
            else:
                items = vals
                if any(is_unknown(v) for v in vals):
                    return NotImplemented
            return FuncV(d.split(".")[-1], items=items)
        return NotImplemented

    def _ev(self, node):
        if isinstance(node, self.REFNODES) or (isinstance(node, ast.BinOp) and isinstance(node.op, ast.Add)):
            v = self._evr(node)
            v = self.plain(v)
            if isinstance(v, tuple) and has_ref(v):
                v = tuple(self.plain(x) for x in v)
            return v
        return super()._ev(node)

    def key_of(self, v):
        s = as_str(v)
        if s is not None:
            return s
        c = const_of(v)
        if c is not None:
            return c
        n = unsym(v)
        if n in ("True", "False"):
            return Fraction(1 if n == "True" else 0)       # True == 1 and False == 0 as dict keys
        return None

    def key_value(self, k):
        return mk_str(k) if isinstance(k, str) else F.const(k)

    # ---- iteration
    def iter_items(self, node):
        """the items a `for` / comprehension iterates over, or None"""
        if isinstance(node, ast.Call):
            d = dotted(node.func)
            if d == "range" and 1 <= len(node.args) <= 3 and not node.keywords:
                cs = [const_of(self.ev(a)) for a in node.args]
                if all(c is not None and c.denominator == 1 for c in cs):
                    return [F.const(k) for k in range(*[int(c) for c in cs])]
                return None
            d = self.canon_name(d)
            if d == "zip" and node.args and all(k.arg == "strict" for k in node.keywords):
                its = [self.count_items(a) or self.iter_items(a) for a in node.args]
                if any(i is None for i in its):
                    return None
                fin = [i for i in its if not isinstance(i, _Count)]
                if not fin:
                    return None          # only unbounded counters
                n_ = min(len(i) for i in fin)
                return [tuple(x) for x in zip(*[(i.take(n_) if isinstance(i, _Count) else i) for i in its])]
            if d in ("np.arange", "numpy.arange") and 1 <= len(node.args) <= 3 and all(k.arg == "dtype" for k in node.keywords):
                cs = [const_of(self.ev(a)) for a in node.args]
                if all(c is not None and c.denominator == 1 for c in cs):
                    return [F.const(k) for k in range(*[int(c) for c in cs])]          # integer np.arange: the same positions as range
                return None
            if d in ("np.ndindex", "numpy.ndindex") and node.args and not node.keywords:
                shp = node.args[0].elts if len(node.args) == 1 and isinstance(node.args[0], (ast.Tuple, ast.List)) else node.args
                cs = [const_of(self.ev(a)) for a in shp]
                if cs and all(c is not None and c.denominator == 1 and c >= 0 for c in cs):
                    import itertools as _it
                    out = [tuple(F.const(k) for k in ix) for ix in _it.product(*[range(int(c)) for c in cs])]
                    return out if len(out) <= self.LIMIT else None
                return None
            if d in ("islice", "itertools.islice") and 2 <= len(node.args) <= 4 and not node.keywords:
                bs = []
                for a in node.args[1:]:
                    if isinstance(a, ast.Constant) and a.value is None:
                        bs.append(None)
                        continue
                    c = const_of(self.ev(a))
                    if c is None or c.denominator != 1 or c < 0:
                        return None
                    bs.append(int(c))
                sl = slice(*bs) if len(bs) > 1 else slice(bs[0])
                cnt = self.count_items(node.args[0])
                if cnt is not None:
                    if sl.stop is None:
                        return None
                    return cnt.take(sl.stop)[sl]
                it = self.iter_items(node.args[0])
                return None if it is None else list(it)[sl]
            if d in ("chain", "itertools.chain") and not node.keywords:
                its = [self.iter_items(a) for a in node.args]
                return None if any(i is None for i in its) else [x for i in its for x in i]
            if d in ("repeat", "itertools.repeat") and len(node.args) == 2 and not node.keywords:
                c = const_of(self.ev(node.args[1]))
                if c is not None and c.denominator == 1 and 0 <= c <= self.LIMIT:
                    return [self.evr(node.args[0])] * int(c)
                return None
            if d == "enumerate" and 1 <= len(node.args) <= 2:
                it = self.iter_items(node.args[0])
                st = node.args[1] if len(node.args) == 2 else next((k.value for k in node.keywords if k.arg == "start"), None)
                s0 = 0
                if st is not None:
                    c = const_of(self.ev(st))
                    if c is None or c.denominator != 1:
                        return None
                    s0 = int(c)
                if it is None:
                    return None
                return [(F.const(s0 + i), x) for i, x in enumerate(it)]
            if d == "reversed" and len(node.args) == 1:
                it = self.iter_items(node.args[0])
                return None if it is None else list(reversed(it))
            if isinstance(node.func, ast.Attribute) and node.func.attr in ("items", "keys", "values") and not node.args:
                b = self.evr(node.func.value)
                if isinstance(b, DictV):
                    if node.func.attr == "items":
                        return [(self.key_value(k), v) for k, v in b.d.items()]
                    if node.func.attr == "keys":
                        return [self.key_value(k) for k in b.d]
                    return list(b.d.values())
                return None
        v = self.evr(node)
        if isinstance(v, IterV):
            return v.rest()
        if isinstance(v, Cols):
            return v.refs()    # the column views of the array, one per sample
        if isinstance(v, (Hist, Block)):
            return None        # iterating a 2-D array walks its rows: not a history
        if isinstance(v, tuple):
            return list(v)
        if isinstance(v, NamedV):
            return list(v.d.values())
        if isinstance(v, DictV):
            return [self.key_value(k) for k in v.d]
        s = as_str(v)
        if s is not None:
            return [mk_str(ch) for ch in s]
        return None

    def count_items(self, node):
        """itertools.count(start=0, step=1) with integer constants: an unbounded counter (bounded by zip / islice), else None"""
        if not (isinstance(node, ast.Call) and self.canon_name(dotted(node.func)) in ("count", "itertools.count") and len(node.args) <= 2):
            return None
        got = dict(zip(("start", "step"), node.args))
        for k in node.keywords:
            if k.arg not in ("start", "step") or k.arg in got:
                return None
            got[k.arg] = k.value
        cs = {k: const_of(self.ev(v)) for k, v in got.items()}
        if any(c is None or c.denominator != 1 for c in cs.values()):
            return None
        return _Count(int(cs.get("start", 0)), int(cs.get("step", 1)))

    def bind(self, target, item):
        if isinstance(target, ast.Name):
            if target.id not in self.pinned:
                self.env[target.id] = item
            return True
        if isinstance(target, (ast.Tuple, ast.List)):
            if isinstance(item, tuple) and len(item) == len(target.elts):
                return all([self.bind(t, x) for t, x in zip(target.elts, item)])
            for t in target.elts:
                self.bind(t, Unknown("unpacking of a non-tuple"))
            return False
        return False

    def comprehension(self, node):
        out = []

        def rec(k):
            if k == len(node.generators):
                if isinstance(node, ast.DictComp):
                    kk = self.key_of(self.evr(node.key))
                    if kk is None:
                        return False
                    out.append((kk, self.ref_of(node.value)))
                else:
                    out.append(self.evr(node.elt))
                return True
            g = node.generators[k]
            items = self.iter_items(g.iter)
            if items is None or len(items) > self.LIMIT:
                return False
            for it in items:
                self.bind(g.target, it)
                ok = True
                for c in g.ifs:
                    t = self.decide(c)
                    if t is None:
                        return False
                    ok = ok and t
                if ok and not rec(k + 1):
                    return False
            return True
        if not rec(0):
            return Unknown(f"comprehension over an iterable the evaluator cannot enumerate: {ast.unparse(node)[:80]}")
        if isinstance(node, ast.DictComp):
            return DictV(dict(out))
        return tuple(out)

    # ---- subscripts
    def const_int(self, node):
        if node is None:
            return None
        c = const_of(self.ev(node))
        if c is None or c.denominator != 1:
            raise Unsupported("non-constant bound")
        return int(c)

    def colsel(self, c, nt):
        """column index / slice -> int | list of ints | None"""
        try:
            if isinstance(c, ast.Slice):
                return list(range(nt))[slice(self.const_int(c.lower), self.const_int(c.upper), self.const_int(c.step))]
            k = self.const_int(c)
        except Unsupported:
            return None
        if k < 0:
            k += nt
        return k if 0 <= k < nt else None

    def rowsel(self, node):
        v = self._index_value(node)
        return repr(v), v

    def slice_node(self, sl):
        """a subscript written through a name / call whose value is a slice object or a tuple of them (`rows = slice(None, k)`, `np.s_[:, 1:]`,
        a module-level constant) -> the literal ast.Slice / ast.Tuple it stands for; any other subscript unchanged"""
        def conv(e):
            if isinstance(e, (ast.Slice, ast.Constant)) or isinstance(e, _Lit) and not isinstance(e.v, F.Rat):
                return e
            if isinstance(e, ast.Tuple):
                elts = [conv(x) for x in e.elts]
                if any(a is not b for a, b in zip(elts, e.elts)):
                    return ast.copy_location(ast.Tuple(elts=elts, ctx=ast.Load()), e)
                return e
            if isinstance(e, (ast.Name, ast.Attribute, ast.Call, ast.Subscript, ast.NamedExpr)):
                if isinstance(e, ast.Name) and not isinstance(e, _Lit) and e.id in self.env and isinstance(self.env[e.id], REFS):
                    return e
                v = self.evr(e)
                if isinstance(v, tuple) and v and all(isinstance(x, F.Rat) for x in v) and any((unfn(x) or ("",))[0] == "slice" for x in v):
                    # a Python tuple of slice objects / np.newaxis held in a name: `as_column = (slice(None), np.newaxis); b[as_column]`
                    return ast.copy_location(ast.Tuple(elts=[conv(lit(x)) for x in v], ctx=ast.Load()), e)
                u = unfn(v) if isinstance(v, F.Rat) else None
                if u and u[0] == "slice" and len(u[1]) == 3 and not any(isinstance(x, str) for x in u[1]):
                    parts = [None if x.equals(NONE) else lit(x) for x in u[1]]
                    return ast.copy_location(ast.Slice(lower=parts[0], upper=parts[1], step=parts[2]), e)
                if u and u[0] == "tuple" and not any(isinstance(x, str) for x in u[1]) and any((unfn(x) or ("",))[0] == "slice" for x in u[1]):
                    return ast.copy_location(ast.Tuple(elts=[conv(lit(x)) for x in u[1]], ctx=ast.Load()), e)
            return e
        try:
            new = conv(sl)
        except Unsupported:
            return sl
        if new is not sl:
            ast.fix_missing_locations(new)
        return new

    def subscript_value(self, node):
        sl2 = self.slice_node(node.slice)
        if sl2 is not node.slice:
            node = ast.copy_location(ast.Subscript(value=node.value, slice=sl2, ctx=ast.Load()), node)
        if self.subscript is not None:
            r = self.subscript(node, self)
            if r is not NotImplemented:
                return r
        if isinstance(node.value, ast.Attribute) and dotted(node.value) in ("np.s_", "np.index_exp", "numpy.s_", "numpy.index_exp") and "np" not in self.env:
            try:
                return self._index_value(node.slice)          # np.s_[a:b] is the slice object itself
            except Unsupported as e:
                return Unknown(str(e))
        base = self._evr(node.value)
        sl = node.slice
        if is_unknown(base):
            return base
        if isinstance(base, (Hist, Block)):
            return self.hist_load(base, sl)
        if isinstance(base, Cols):
            r = self.tuple_index(tuple(base.refs()), sl) if not isinstance(sl, ast.Tuple) else NotImplemented
            if r is NotImplemented or (not isinstance(r, ColRef) and not (isinstance(r, tuple) and all(isinstance(x, ColRef) for x in r))):
                base.block.hist.bad.append(("load", ast.unparse(sl)))
                return Unknown(f"subscript {ast.unparse(node)[:60]} of a transposed history array")
            return r
        if isinstance(base, ColRef):
            if is_full_slice(sl) or (isinstance(sl, ast.Constant) and sl.value is Ellipsis):
                return base
            v = base.block.get(base.col)
            if is_unknown(v) or not isinstance(v, F.Rat):
                return v
            try:
                return F.fn("idx", v, self._index_value(sl))
            except Unsupported as e:
                return Unknown(str(e))
        if isinstance(base, NamedV):
            r = self.tuple_index(tuple(base.d.values()), sl) if isinstance(sl, (ast.Slice, ast.Constant, ast.UnaryOp, ast.Name)) else NotImplemented
            return r if r is not NotImplemented else Unknown(f"subscript {ast.unparse(node)[:60]} of a namedtuple")
        if isinstance(base, DictV):
            kv = self.evr(sl)
            k = self.key_of(kv)
            if k is None and base.d and all(isinstance(q, Fraction) and q in (0, 1) for q in base.d):
                t = self.truthiness(kv)          # a table keyed by True / False, looked up with a flag of the object
                k = None if t is None else Fraction(1 if t else 0)
            if k is None or k not in base.d:
                return Unknown(f"key of {ast.unparse(node)[:60]} not in the dict")
            return base.d[k]
        if isinstance(base, (Box, F.Rat)) and (is_full_slice(sl) or (isinstance(sl, ast.Constant) and sl.value is Ellipsis) or self.is_newaxis_only(sl)):
            r = self.whole_view(node.value, base)          # X[:], X[...], X[:, None]: a view of the whole array - the array itself, not a copy
            if r is not None:
                return r
        if isinstance(base, Box):
            base = base.v
        if isinstance(base, tuple):
            r = self.tuple_index(base, sl)
            if r is not NotImplemented:
                return r
            return Unknown(f"subscript {ast.unparse(node)[:60]} of a tuple")
        if self.is_newaxis_only(sl):
            return base
        return self.scalar_subscript(node, base)

    def whole_view(self, node, base):
        """hook (ModeEv): the array object the expression `node` denotes, for a subscript that selects all of it"""
        return None

    def scalar_subscript(self, node, base):
        # decided on the *value* of the index: only full slices / None / np.newaxis (however the tuple was built) reshape, they select nothing
        try:
            ix = self._index_value(node.slice)
            u = unfn(ix)
            parts = u[1] if u and u[0] == "tuple" else [ix]
            full = F.fn("slice", NONE, NONE, NONE)
            if not any(isinstance(x, str) for x in parts) and any(unsym(x) in ("None", "np.newaxis", "numpy.newaxis") for x in parts) and \
                    all(unsym(x) in ("None", "np.newaxis", "numpy.newaxis", "Ellipsis") or x.equals(full) for x in parts):
                return base
        except Unsupported:
            pass
        return super()._ev(node)

    def is_newaxis_only(self, sl):
        elts = sl.elts if isinstance(sl, ast.Tuple) else [sl]
        seen_none = False
        for e in elts:
            if (isinstance(e, ast.Constant) and e.value is None) or (isinstance(e, ast.Attribute) and dotted(e) in ("np.newaxis", "numpy.newaxis")) \
                    or (isinstance(e, _Lit) and isinstance(e.v, F.Rat) and unsym(e.v) in ("None", "np.newaxis", "numpy.newaxis")):
                seen_none = True
            elif is_full_slice(e) or (isinstance(e, ast.Constant) and e.value is Ellipsis):
                pass
            else:
                return False
        return seen_none

    def tuple_index(self, base, sl):
        """a tuple is either a Python sequence (constant index / slice) or a history of columns (row selectors act on every column)"""
        n = len(base)

        def rows(x, rv):
            if is_unknown(x) or isinstance(x, tuple) or isinstance(x, REFS):
                return Unknown("row selection of a nested value")
            return F.fn("idx", need(x), rv)
        if self.is_newaxis_only(sl):
            return base
        if isinstance(sl, ast.Tuple) and len(sl.elts) == 2:
            r, c = sl.elts
            cols = self.colsel(c, n)
            if cols is None:
                return NotImplemented
            picked = base[cols] if isinstance(cols, int) else tuple(base[j] for j in cols)
            if is_full_slice(r) or (isinstance(r, ast.Constant) and r.value is Ellipsis):
                return picked
            try:
                rv = self._index_value(r)
            except Unsupported:
                return NotImplemented
            return rows(picked, rv) if isinstance(cols, int) else tuple(rows(x, rv) for x in picked)
        if isinstance(sl, ast.Tuple):
            return NotImplemented
        cols = self.colsel(sl, n) if not is_full_slice(sl) else list(range(n))
        if cols is not None:
            return base[cols] if isinstance(cols, int) else tuple(base[j] for j in cols)
        try:
            rv = self._index_value(sl)
        except Unsupported:
            return NotImplemented
        return tuple(rows(x, rv) for x in base)

    def hist_load(self, base, sl):
        H = base if isinstance(base, Hist) else base.hist
        blk = base.root() if isinstance(base, Hist) else base
        if isinstance(sl, ast.Tuple) and len(sl.elts) == 2:
            r, c = sl.elts
            if not (is_full_slice(r) or (isinstance(r, ast.Constant) and r.value is Ellipsis)):
                if not isinstance(base, Hist):
                    H.bad.append(("load", ast.unparse(sl)))
                    return Unknown("row selection inside a row block")
                try:
                    blk = H.block(*self.rowsel(r))
                except Unsupported as e:
                    return Unknown(str(e))
            cols = self.colsel(c, H.nt)
            if cols is None:
                H.bad.append(("load", ast.unparse(sl)))
                return Unknown(f"column selector {ast.unparse(c)} of a history array")
            return blk.get(cols) if isinstance(cols, int) else tuple(blk.get(j) for j in cols)
        if is_full_slice(sl) or (isinstance(sl, ast.Constant) and sl.value is Ellipsis):
            return base
        if isinstance(sl, ast.Tuple):
            H.bad.append(("load", ast.unparse(sl)))
            return Unknown("index of a history array")
        if isinstance(base, Hist):
            try:
                return H.block(*self.rowsel(sl), copy=self.fancy_copy)
            except Unsupported as e:
                return Unknown(str(e))
        H.bad.append(("load", ast.unparse(sl)))
        return Unknown("row selection inside a row block")

    def hist_store(self, base, sl, v, st):
        H = base if isinstance(base, Hist) else base.hist
        blk = base.root() if isinstance(base, Hist) else base
        v = self.plain(v)
        cols = None
        if isinstance(sl, ast.Tuple) and len(sl.elts) == 2:
            r, c = sl.elts
            if not (is_full_slice(r) or (isinstance(r, ast.Constant) and r.value is Ellipsis)):
                if not isinstance(base, Hist):
                    H.bad.append(("store", ast.unparse(sl)))
                    return
                try:
                    blk = H.block(*self.rowsel(r))
                except Unsupported:
                    H.bad.append(("store", ast.unparse(sl)))
                    return
            cols = self.colsel(c, H.nt)
            if cols is None:
                H.bad.append(("store", ast.unparse(sl)))
                return
        elif is_full_slice(sl) or (isinstance(sl, ast.Constant) and sl.value is Ellipsis):
            cols = list(range(H.nt))
        elif not isinstance(sl, ast.Tuple) and isinstance(base, Hist):
            try:
                blk = H.block(*self.rowsel(sl))
            except Unsupported:
                H.bad.append(("store", ast.unparse(sl)))
                return
            cols = list(range(H.nt))
        else:
            H.bad.append(("store", ast.unparse(sl)))
            return
        if isinstance(cols, int):
            blk.put(cols, v if not isinstance(v, tuple) else Unknown("a history stored into one column"), st)
            return
        if isinstance(v, tuple):
            if len(v) != len(cols):
                for j in cols:
                    blk.put(j, Unknown("shape mismatch in a store into a history array"), st)
                return
            for j, x in zip(cols, v):
                blk.put(j, x, st)
        else:
            for j in cols:
                blk.put(j, v, st)

    # ------------------------------------------------------------------------------------------------ statements
    def run(self, stmts):
        """a block.  The evaluated result is the one the function delivers when it delivers one: at a test that cannot be decided, an arm after which
        every path ends in `raise` is not the path of a result, so the other arm is taken (guard clauses `if ok: return` ... `raise`, validation
        blocks `if bad: raise`)"""
        for i, st in enumerate(stmts):
            if self.done:
                break
            if isinstance(st, ast.If) and id(st) not in self._forced:
                rest = list(stmts[i + 1:])
                r1, r2 = always_raises(list(st.body) + rest), always_raises(list(st.orelse) + rest)
                if r1 != r2 and self.decide(st.test) is None:
                    self._forced[id(st)] = r2          # body raises -> test taken as False; else-path raises -> True
                    try:
                        self.stmt(st)
                    finally:
                        self._forced.pop(id(st), None)
                    continue
            self.stmt(st)

    def stmt(self, st):
        if self.done:
            return
        if isinstance(st, ast.Continue):
            raise _Continue()
        if isinstance(st, ast.Break):
            raise _Break()
        if isinstance(st, ast.Raise):
            self.raised = st           # the path ends here
            self.done = True
            return
        if isinstance(st, ast.Assign):
            v = self.evr(st.value)
            for t in st.targets:
                self._assign(t, v, st)
            return
        if isinstance(st, ast.AnnAssign) and st.value is not None:
            self._assign(st.target, self.evr(st.value), st)
            return
        if isinstance(st, ast.AugAssign) and isinstance(st.target, (ast.Name, ast.Attribute)) and dotted(st.target) is not None \
                and isinstance(self.env.get(dotted(st.target)), (Hist, Block, ColRef, Box)):
            # `x += y` on an array is in place: every other name of the same array sees it
            return self.aug_in_place(st, self.env[dotted(st.target)])
        if isinstance(st, ast.Return):
            if st.value is None:
                v = None
            else:
                v = self.evr(st.value) if self.depth else self.ev(st.value)
            self.returns.append((v, st))
            self.done = True
            return
        if isinstance(st, ast.FunctionDef):
            self.env[st.name] = FuncV("closure", fn=st, scope=self.env, owner=self)      # a local helper: called through its name
            return
        if isinstance(st, ast.With):
            for it in st.items:
                v = self.evr(it.context_expr)
                if it.optional_vars is not None:
                    self._assign(it.optional_vars, v, st)
            self.run(st.body)
            return
        if isinstance(st, ast.Try):
            # the path without an exception: body, else, finally
            self.run(st.body)
            self.run(st.orelse)
            self.run(st.finalbody)
            return
        if isinstance(st, ast.If):
            c = self._forced[id(st)] if id(st) in self._forced else self.decide(st.test)
            if any(isinstance(x, ast.NamedExpr) for x in ast.walk(st.test)):
                self.ev(st.test)          # bind the walrus targets of the test
            if c is True:
                self.run(st.body)
            elif c is False:
                self.run(st.orelse)
            else:
                from .e2_eval import _assigned_names
                why = f"assigned under undecided test {ast.unparse(st.test)[:80]}"
                for nm in _assigned_names(st):
                    if nm not in self.pinned:
                        self.env[nm] = Unknown(why)
                self.skip(st.body + st.orelse, why)
            return
        if isinstance(st, ast.For):
            items = self.iter_items(st.iter)
            if items is None:
                self.poison_loop_views(st)
            if items is None and not (self.loop_once or self.loop_unroll):
                self.skip(st.body + st.orelse, f"stored inside a loop over `{ast.unparse(st.iter)[:60]}` that could not be enumerated")
            if items is not None and len(items) <= self.LIMIT:
                for it in items:
                    self.bind(st.target, it)
                    try:
                        self.run(st.body)
                    except _Continue:
                        pass
                    except _Break:
                        break
                    if self.done:
                        break
                else:
                    self.run(st.orelse)
                return
            try:
                return super().stmt(st)
            except (_Continue, _Break):
                return
        if isinstance(st, ast.While):
            c = self.decide(st.test)
            if c is None and not self.loop_unroll:
                self.skip(st.body + st.orelse, f"stored inside a loop `while {ast.unparse(st.test)[:60]}` that could not be unrolled")
            if c is None:
                try:
                    return super().stmt(st)
                except (_Continue, _Break):
                    return
            n = 0
            while c is True:
                n += 1
                if n > self.LIMIT:
                    c = None
                    break
                try:
                    self.run(st.body)
                except _Continue:
                    pass
                except _Break:
                    break
                if self.done:
                    return
                c = self.decide(st.test)
            if c is None:
                from .e2_eval import _assigned_names
                for nm in _assigned_names(st):
                    if nm not in self.pinned:
                        self.env[nm] = Unknown("assigned inside a while loop that could not be unrolled")
                self.skip(st.body, "stored inside a while loop that could not be unrolled")
            return
        if isinstance(st, ast.Expr) and (isinstance(st.value, ast.GeneratorExp) or isinstance(st.value, ast.Call) and
                                         dotted(st.value.func) in ("map", "filter", "zip", "starmap", "itertools.starmap", "iter", "reversed", "enumerate")):
            return          # a lazy iterator that nobody consumes: Python runs none of it (the evaluator must not be more eager than the language)
        if isinstance(st, ast.Expr) and isinstance(st.value, (ast.Yield, ast.YieldFrom)):
            # the body of a generator function that is being evaluated eagerly (see inline_call): the yielded values in order
            if self.yields is None:
                return
            if isinstance(st.value, ast.Yield):
                self.yields.append(self.evr(st.value.value) if st.value.value is not None else NONE)
            else:
                items = self.iter_items(st.value.value)
                if items is None:
                    self.yield_lost = True
                else:
                    self.yields.extend(items)
            return
        if isinstance(st, ast.Match):
            return self.match_stmt(st)
        if isinstance(st, ast.Delete):
            for t in st.targets:
                d_ = dotted(t) if isinstance(t, (ast.Name, ast.Attribute)) else None
                if d_ is not None and d_ not in self.pinned:
                    self.env[d_] = Unknown(f"{d_} was deleted")
                elif isinstance(t, ast.Subscript):
                    self.poison_expr(t.value, f"`{ast.unparse(st)[:60]}`", st, whole=True)
            return
        if isinstance(st, (ast.AsyncFor, ast.AsyncWith, ast.ClassDef)) or type(st).__name__ in ("TryStar",):
            # a compound statement the evaluator does not execute: what it assigns / stores into is not known afterwards
            from .e2_eval import _assigned_names
            why = f"assigned inside a {type(st).__name__} statement, which the evaluator does not execute"
            for nm in _assigned_names(st):
                if nm not in self.pinned:
                    self.env[nm] = Unknown(why)
            self.skip([st] if not isinstance(st, ast.ClassDef) else [], why)
            return
        return super().stmt(st)

    def pattern_match(self, pat, subj):
        """does the (evaluated) subject match the pattern?  True / False / None; capture names are bound.  Literal, dotted-constant, singleton, wildcard,
        capture and or-patterns are decided on values; sequence / mapping / class patterns are left open"""
        if isinstance(pat, ast.MatchAs):
            if pat.pattern is not None:
                r = self.pattern_match(pat.pattern, subj)
                if r is not True:
                    return r
            if pat.name is not None and pat.name not in self.pinned:
                self.env[pat.name] = subj
            return True
        if isinstance(pat, ast.MatchOr):
            rs = [self.pattern_match(p_, subj) for p_ in pat.patterns]
            if any(r is True for r in rs):
                return True
            return False if all(r is False for r in rs) else None
        if isinstance(pat, (ast.MatchValue, ast.MatchSingleton)):
            val = pat.value if isinstance(pat, ast.MatchValue) else ast.Constant(value=pat.value)
            test = ast.Compare(left=lit(subj), ops=[ast.Eq() if isinstance(pat, ast.MatchValue) else ast.Is()], comparators=[val])
            ast.copy_location(test, pat)
            ast.fix_missing_locations(test)
            return self.decide(test)
        return None

    def match_stmt(self, st):
        from .e2_eval import _assigned_names
        subj = self.evr(st.subject)
        for k_, case in enumerate(st.cases):
            r = None if is_unknown(subj) else self.pattern_match(case.pattern, subj)
            if r is True and case.guard is not None:
                r = self.decide(case.guard)
            if r is True:
                self.run(case.body)
                return
            if r is None:
                why = f"assigned under the undecided case `{ast.unparse(case.pattern)[:60]}` of a match statement"
                rest = st.cases[k_:]
                for c_ in rest:
                    for b_ in c_.body:
                        for nm in _assigned_names(b_):
                            if nm not in self.pinned:
                                self.env[nm] = Unknown(why)
                    self.skip(list(c_.body), why)
                return

    def poison_loop_views(self, st):
        """a loop that cannot be enumerated whose variables may be views of arrays named in the iterable (`for prev, cur in pairwise(d.T): cur[:] = ...`):
        a store through a loop variable writes into those arrays"""
        tg = {n.id for n in ast.walk(st.target) if isinstance(n, ast.Name)}
        hit = False
        for n in ast.walk(ast.Module(body=list(st.body), type_ignores=[])):
            if isinstance(n, (ast.Subscript, ast.Attribute)) and isinstance(n.ctx, ast.Store):
                r = n
                while isinstance(r, (ast.Subscript, ast.Attribute)):
                    r = r.value
                hit = hit or (isinstance(r, ast.Name) and r.id in tg)
            elif isinstance(n, ast.AugAssign) and isinstance(n.target, ast.Name) and n.target.id in tg:
                hit = True
            elif isinstance(n, ast.Call) and any(isinstance(a, ast.Name) and a.id in tg for a in list(n.args) + [k.value for k in n.keywords]):
                hit = True
        if not hit:
            return
        why = f"written through the variables of a loop over `{ast.unparse(st.iter)[:60]}` that could not be enumerated"
        for n in ast.walk(st.iter):
            if isinstance(n, (ast.Name, ast.Attribute)) and dotted(n) is not None:
                v = self.env.get(dotted(n))
                if has_ref(v) and not isinstance(v, FuncV):
                    self.poison(v, None, why, st)

    def aug_in_place(self, st, ref):
        import copy
        cur = self.plain(ref)
        load = copy.copy(st.target)
        load.ctx = ast.Load()
        x = ast.copy_location(ast.BinOp(left=lit(cur), op=st.op, right=st.value), st)
        nv = self.ev(ast.fix_missing_locations(x))
        if isinstance(ref, Box):
            return self.box_update(st, ref, nv)
        full = ast.Slice(lower=None, upper=None, step=None)
        t = ast.copy_location(ast.Subscript(value=load, slice=full, ctx=ast.Store()), st)
        self._assign(ast.fix_missing_locations(t), nv, st)

    def box_update(self, st, box, nv):
        box.set(nv)

    # ---- regions that are not executed: what they store into is not known afterwards (never "unchanged")
    INPLACE_FIRST = {"np.put", "np.place", "np.putmask", "np.copyto", "np.fill_diagonal", "np.put_along_axis", "numpy.put", "numpy.place", "numpy.putmask",
                     "numpy.copyto", "numpy.fill_diagonal"}
    INPLACE_METHODS = {"fill", "sort", "put", "itemset", "resize", "partition", "update", "append", "extend", "setdefault", "pop", "clear", "insert", "remove"}

    def skip(self, stmts, why):
        work = list(stmts)
        while work:
            n = work.pop()
            if isinstance(n, (ast.FunctionDef, ast.AsyncFunctionDef, ast.Lambda, ast.ClassDef)):
                continue
            if isinstance(n, (ast.Yield, ast.YieldFrom)):
                self.yield_lost = True
            tg = []
            if isinstance(n, ast.Assign):
                tg = list(n.targets)
            elif isinstance(n, (ast.AugAssign, ast.AnnAssign)):
                tg = [n.target]
            elif isinstance(n, ast.Call):
                d = dotted(n.func)
                try:
                    fvv = self.callee_value(n.func) if isinstance(n.func, (ast.Name, ast.Attribute)) else None
                except Unsupported:
                    fvv = None
                if d in self.inl or fvv is not None:
                    self.poison_args(n, why)
                    if fvv is not None and fvv.kind == "closure":
                        self.poison_closure(fvv, why)
                elif d in self.INPLACE_FIRST and n.args:
                    self.poison_expr(n.args[0], why, n)
                elif d == "setattr" and n.args:
                    self.poison_expr(n.args[0], why, n, whole=True)
                elif isinstance(n.func, ast.Attribute) and n.func.attr in self.INPLACE_METHODS:
                    self.poison_expr(n.func.value, why, n, whole=True)
                for k in n.keywords:
                    if k.arg == "out":
                        self.poison_expr(k.value, why, n)
            while tg:
                t = tg.pop()
                if isinstance(t, (ast.Tuple, ast.List)):
                    tg.extend(t.elts)
                elif isinstance(t, ast.Starred):
                    tg.append(t.value)
                elif isinstance(t, ast.Subscript) and isinstance(t.value, (ast.Name, ast.Attribute)) and dotted(t.value) is not None:
                    nm = dotted(t.value)
                    self.skipped.append((n, why))
                    v = self.env.get(nm)
                    if isinstance(v, (Hist, Block, Box, DictV, Cols, ColRef)):
                        self.poison(v, t, why, n)
                    else:
                        self.poison_name(nm, t, why, n)
                elif isinstance(t, ast.Subscript):
                    # a store through a computed destination (`co[name][rows] = v`, `tab["F"][pv] = v`, `f(x)[i] = v`)
                    self.skipped.append((n, why))
                    self.poison_expr(t.value, why, n, target=t)
                elif isinstance(t, ast.Attribute):
                    d_ = dotted(t)
                    b = self.env.get(dotted(t.value) or "")
                    if isinstance(b, DictV):
                        b.d[t.attr] = Unknown(why)
                    elif d_ is not None and d_ not in self.pinned:
                        self.env[d_] = Unknown(why)
            work.extend(ast.iter_child_nodes(n))

    def poison_expr(self, node, why, st, target=None, whole=False):
        """the array / container an expression of a region that is not executed denotes is not known afterwards.  The expression is resolved without
        being evaluated when it is a name; otherwise it is evaluated for its reference, and when that fails the container at its root is given up"""
        if isinstance(node, (ast.Name, ast.Attribute)) and dotted(node) is not None:
            nm = dotted(node)
            v = self.env.get(nm)
            if has_ref(v) and not isinstance(v, FuncV):
                self.poison(v, target, why, st)
            elif target is not None:
                self.poison_name(nm, target, why, st)
            elif nm in self.env and nm not in self.pinned and not isinstance(v, FuncV):
                self.env[nm] = Unknown(why)
            return
        v = None
        if isinstance(node, ast.Subscript) and not whole:
            try:
                v = self.evr(node)
            except Exception:  # noqa
                v = None
        if isinstance(v, (Hist, Block, Box, Cols, ColRef)):
            self.poison(v, target, why, st)
            return
        r = node
        while isinstance(r, (ast.Subscript, ast.Attribute, ast.Call)):
            r = r.func if isinstance(r, ast.Call) else r.value
        if isinstance(r, ast.Name) and r is not node:
            self.poison_expr(r, why, st, whole=True)

    def poison_args(self, node, why):
        """arrays handed to a helper the evaluator could not follow: the helper may have written into them"""
        for a in list(node.args) + [k.value for k in node.keywords]:
            if isinstance(a, ast.Starred):
                a = a.value
            if isinstance(a, (ast.Name, ast.Attribute)) and not isinstance(a, _Lit):
                v = self.env.get(dotted(a) or "")
            elif isinstance(a, _Lit):
                v = a.v
            else:
                continue
            for x in (v if isinstance(v, tuple) else (v,)):
                if has_ref(x) and not isinstance(x, (FuncV, IterV)):
                    self.poison(x, None, why, node)

    def poison(self, v, target, why, st, _seen=None):
        if isinstance(v, (Hist, Block, Cols, ColRef)):
            if isinstance(v, (Cols, ColRef)):
                v = v.block
            H = v if isinstance(v, Hist) else v.hist
            H.poisoned = why
            H.bad.append(("skipped store", why))
        elif isinstance(v, Box):
            v.set(Unknown(why))
        elif isinstance(v, (DictV, tuple)):
            # a container: every array it holds by reference, and (dict) every entry
            _seen = _seen if _seen is not None else set()
            if id(v) in _seen:
                return
            _seen.add(id(v))
            if isinstance(v, DictV):
                for k_, x in list(v.d.items()):
                    if has_ref(x) and not isinstance(x, FuncV):
                        self.poison(x, None, why, st, _seen)
                    elif not isinstance(x, FuncV):
                        v.d[k_] = Unknown(why)
            else:
                for x in v:
                    if has_ref(x) and not isinstance(x, FuncV):
                        self.poison(x, None, why, st, _seen)

    def poison_name(self, nm, target, why, st):
        if nm in self.buffers:
            self.seq += 1
            self.cell_seq.append(self.seq)
            self.cells.append((nm, Unknown(why), Unknown(why), st))

    def _assign(self, target, v, st, aug=False):
        if isinstance(target, ast.Name):
            old = self.env.get(target.id)
            if has_ref(v) or has_ref(old):
                if target.id not in self.pinned:
                    self.env[target.id] = v
                return
            return super()._assign(target, v, st, aug)
        if isinstance(target, ast.Subscript):
            sl2 = self.slice_node(target.slice)
            if sl2 is not target.slice:
                target = ast.copy_location(ast.Subscript(value=target.value, slice=sl2, ctx=ast.Store()), target)
            base = self.evr(target.value)
            if isinstance(base, (Hist, Block)):
                self.hist_store(base, target.slice, v, st)
                return
            if isinstance(base, ColRef):
                sl = target.slice
                v = self.plain(v)
                if (is_full_slice(sl) or (isinstance(sl, ast.Constant) and sl.value is Ellipsis)) and not isinstance(v, tuple):
                    base.block.put(base.col, v, st)
                else:
                    base.block.hist.bad.append(("store", ast.unparse(target)))
                    base.block.put(base.col, Unknown(f"store `{ast.unparse(target)[:60]}` into a part of a column view"), st)
                return
            if isinstance(base, Cols):
                # `X.T[i] = column`, `X.T[a:b] = columns`: the transposed view writes the columns of the array
                sl = target.slice
                r = self.tuple_index(tuple(base.refs()), sl) if not isinstance(sl, ast.Tuple) else NotImplemented
                v = self.plain(v)
                if isinstance(r, ColRef) and not isinstance(v, tuple):
                    r.block.put(r.col, v, st)
                elif isinstance(r, tuple) and all(isinstance(x, ColRef) for x in r) and (not isinstance(v, tuple) or len(v) == len(r)):
                    for k_, x in enumerate(r):
                        x.block.put(x.col, v[k_] if isinstance(v, tuple) else v, st)
                else:
                    base.block.hist.bad.append(("store", ast.unparse(target)))
                    base.block.hist.poisoned = f"store `{ast.unparse(target)[:60]}` through a transposed view"
                return
            if isinstance(base, DictV):
                k = self.key_of(self.evr(target.slice))
                if k is not None:
                    base.d[k] = v
                return
            return self.scalar_store(target, base, v, st, aug)
        if isinstance(target, ast.Starred):
            return
        if isinstance(target, ast.Attribute) and not aug:
            d_ = dotted(target.value)
            b = self.env.get(d_) if d_ is not None else None
            if isinstance(b, DictV):
                b.d[target.attr] = v
                return
        if isinstance(target, (ast.Tuple, ast.List)) and isinstance(v, NamedV):
            v = tuple(v.d.values())
        if isinstance(target, (ast.Tuple, ast.List)) and isinstance(v, tuple) and len(v) == len(target.elts):
            for t, x in zip(target.elts, v):
                self._assign(t, x, st)
            return
        return super()._assign(target, self.plain(v) if not isinstance(target, ast.Attribute) else v, st, aug)

    def scalar_store(self, target, base, v, st, aug):
        return super()._assign(target, self.plain(v), st, aug)

    # ------------------------------------------------------------------------------------------------ calls
    def _record_call(self, node):
        if self._recorded is node:
            return
        super()._record_call(node)

    def normalise_call(self, node):
        if not any(isinstance(a, ast.Starred) for a in node.args) and not any(k.arg is None for k in node.keywords):
            return node
        args, kws = [], []
        for a in node.args:
            if isinstance(a, ast.Starred):
                v = self.evr(a.value)
                if not isinstance(v, tuple):
                    return Unknown("*args of a value that is not a tuple")
                args.extend(lit(x) for x in v)
            else:
                args.append(a)
        for k in node.keywords:
            if k.arg is None:
                v = self.evr(k.value)
                if not isinstance(v, DictV) or not all(isinstance(x, str) for x in v.d):
                    return Unknown("**kwargs of a value that is not a dict with string keys")
                kws.extend(ast.keyword(arg=kk, value=lit(vv)) for kk, vv in v.d.items())
            else:
                kws.append(k)
        new = ast.Call(func=node.func, args=args, keywords=kws)
        ast.copy_location(new, node)
        for a in ("_vmod", "_vparent", "_vqual"):
            if hasattr(node, a):
                setattr(new, a, getattr(node, a))
        return new

    def _call(self, node):
        orig = node
        node = self.normalise_call(node)
        if is_unknown(node):
            why = f"passed to a call whose arguments could not be expanded: {node.why}"[:160]
            self.poison_args(orig, why)
            fv0 = self.callee_value(orig.func) if isinstance(orig.func, ast.Name) else None
            if fv0 is not None and fv0.kind == "closure":
                self.poison_closure(fv0, why)
            self.inplace_unmodelled(dotted(orig.func), orig)
            f_ = orig.func
            if isinstance(f_, ast.Attribute) and f_.attr == "update":
                if isinstance(f_.value, ast.Call) and dotted(f_.value.func) == "vars" and len(f_.value.args) == 1:
                    self.poison_attrs(f_.value.args[0], why)
                elif isinstance(f_.value, ast.Attribute) and f_.value.attr == "__dict__":
                    self.poison_attrs(f_.value.value, why)
                else:
                    self.poison_expr(f_.value, why, orig, whole=True)
            return node
        node = self.canon_call(node)
        # the callee as a value: a local closure / lambda, functools.partial, attrgetter(...)(x), operator.add -> applied here; a variable, a
        # conditional expression, a table lookup or a call that yields a function (helper, bound method, library function) -> called by its name
        fv = self.callee_value(node.func)
        if fv is not None:
            return self.apply(fv, node)
        fx = node.func
        val = None
        if isinstance(fx, _Lit):
            val = fx.v
        elif isinstance(fx, ast.Name):
            if fx.id in self.env and fx.id not in self.buffers:
                val = self.env[fx.id]
        elif not isinstance(fx, ast.Attribute):
            val = self.evr(fx)
        if isinstance(val, FuncV):
            return self.apply(val, node)
        f = None
        if isinstance(val, F.Rat):
            n = unsym(val)
            if n is not None and not (isinstance(fx, ast.Name) and not isinstance(fx, _Lit) and n == fx.id):
                f = _dotted_node(n, node)
            if f is None:
                # a bound method held in a variable: `advance = self.E.dot; advance(x)` is `self.E.dot(x)`
                u = unfn(val)
                if u and u[0].startswith("attr:") and len(u[1]) == 1 and not isinstance(u[1][0], str) and u[0][5:].isidentifier():
                    f = ast.copy_location(ast.Attribute(value=lit(u[1][0]), attr=u[0][5:], ctx=ast.Load()), node)
                    ast.fix_missing_locations(f)
        if f is not None:
            new = ast.Call(func=f, args=node.args, keywords=node.keywords)
            ast.copy_location(new, node)
            for a in ("_vmod", "_vparent", "_vqual"):
                if hasattr(node, a):
                    setattr(new, a, getattr(node, a))
            node = new
        super()._record_call(node)
        self._recorded = node
        if self.call_hook is not None:
            r = self.call_hook(node, self)
            if r is not NotImplemented:
                return r
        d = dotted(node.func)
        r = self.builtin_call(d, node)
        if r is not NotImplemented:
            return r
        if d in self.inl:
            r = self.inline_call(node, d, self.inl[d]) if self.depth < 4 else NotImplemented
            if r is not NotImplemented:
                return r
            self.poison_args(node, f"passed to the helper {d} which could not be followed")
        self.unfollowed(d, node)
        self.inplace_unmodelled(d, node)
        hook, inl = self.call_hook, self.inline
        self.call_hook, self.inline = None, None
        try:
            return super()._call(node)
        finally:
            self.call_hook, self.inline = hook, inl

    def canon_name(self, d):
        """a dotted library name in the canonical spelling (import aliases of the module that defines the evaluated function), unless its root is a
        local of the function or a followed helper"""
        if not d:
            return d
        root = d.split(".")[0]
        if root in self.env or root in self.buffers or d in self.inl or root in self.inl:
            return d
        return canon_dotted(d, import_aliases(getattr(self.fn, "_vmod", None)))

    def canon_call(self, node):
        f = node.func
        if isinstance(f, _Lit) or not isinstance(f, (ast.Name, ast.Attribute)):
            return node
        d = dotted(f)
        c = self.canon_name(d)
        if c == d or c is None:
            return node
        nf = _dotted_node(c, node)
        if nf is None:
            return node
        new = ast.Call(func=nf, args=node.args, keywords=node.keywords)
        ast.copy_location(new, node)
        for a in ("_vmod", "_vparent", "_vqual"):
            if hasattr(node, a):
                setattr(new, a, getattr(node, a))
        return new

    def unfollowed(self, d, node):
        """hook: a call that is neither modelled nor followed is about to be kept as an opaque application (ModeEv: see there)"""

    def inplace_unmodelled(self, d, node):
        """a library call / method the evaluator keeps opaque but that is known to write into one of its operands (np.put, np.add.at, x.fill, x.sort,
        operator.setitem, setattr with a computed name, ufunc(..., out=x) ...): the operand is not known afterwards - never "unchanged" """
        why = f"written in place by `{ast.unparse(node)[:60]}`, which the evaluator does not model"
        for k in node.keywords:
            if k.arg == "out" and not (isinstance(k.value, ast.Constant) and k.value.value is None):
                for o in (k.value.elts if isinstance(k.value, ast.Tuple) else [k.value]):
                    self.poison_expr(o, why, node)
            elif k.arg in ("arr", "a", "dst") and d in self.INPLACE_FIRST:
                self.poison_expr(k.value, why, node)          # the destination given by keyword: np.place(arr=F, mask=pv, vals=x)
        nin = 2 if d in UFUNC2 else (1 if d in self.funcs and d is not None and d.split(".")[0] in ("np", "numpy") else 0)
        if nin and len(node.args) > nin:
            self.poison_expr(node.args[nin], why, node)       # the positional out operand of a ufunc: np.multiply(a, b, x, where=m)
        if d is not None and (d in self.INPLACE_FIRST or d.endswith(".at") and d.split(".")[0] in ("np", "numpy") or d in ("operator.setitem", "operator.delitem",
                              "operator.iadd", "operator.imul", "operator.isub", "operator.itruediv", "np.random.shuffle")) and node.args:
            self.poison_expr(node.args[0], why, node)
        elif d in ("setattr", "delattr") and node.args:
            self.poison_attrs(node.args[0], why)
        elif d in ("exec", "eval", "locals", "globals") or (d == "vars" and not node.args):
            # code the evaluator cannot see / the frame's name table handed out: every local array may be written
            why = f"`{ast.unparse(node)[:40]}` can reach every local of the function"
            for k_, v_ in list(self.env.items()):
                if has_ref(v_) and not isinstance(v_, FuncV):
                    self.poison(v_, None, why, node)
                elif k_ not in self.pinned and isinstance(v_, F.Rat) and not k_.startswith("<") and (self.depth or k_ not in self._params()):
                    self.env[k_] = Unknown(why)
        elif isinstance(node.func, ast.Attribute) and (node.func.attr in ("fill", "sort", "put", "itemset", "resize", "partition", "byteswap", "setfield", "setflags")
                                                       or node.func.attr.startswith("__set") or node.func.attr.startswith("__i")):
            self.poison_expr(node.func.value, why, node, whole=True)

    def _params(self):
        a = getattr(self.fn, "args", None)
        return {x.arg for x in (a.posonlyargs + a.args + a.kwonlyargs)} if a is not None else set()

    def poison_attrs(self, obj, why):
        """an object whose attributes were set through a construct the evaluator could not follow (setattr with a computed name, vars(x).update(unknown)):
        none of its attributes is known afterwards"""
        v = self.evr(obj) if isinstance(obj, (ast.Name, ast.Attribute)) else None
        if isinstance(v, DictV):
            self.poison(v, None, why, obj)
        d_ = dotted(obj) if isinstance(obj, (ast.Name, ast.Attribute)) else None
        if d_ is not None:
            for k_ in list(self.env):
                if k_.startswith(d_ + ".") and k_ not in self.pinned:
                    self.env[k_] = Unknown(why)
            self.env[f"<attrs of {d_} unknown>"] = Unknown(why)

    def builtin_call(self, d, node):
        args, kws = node.args, node.keywords
        if isinstance(node.func, ast.Attribute) and node.func.attr in ("_asdict", "_replace") and not args:
            b = self.evr(node.func.value)
            if isinstance(b, NamedV):
                if node.func.attr == "_asdict" and not kws:
                    return DictV(dict(b.d))
                if node.func.attr == "_replace" and all(k.arg in b.d for k in kws):
                    new_ = dict(b.d)
                    new_.update({k.arg: self.ref_of(k.value) for k in kws})
                    return NamedV(new_)
        if d in ("partial", "functools.partial", "attrgetter", "operator.attrgetter", "itemgetter", "operator.itemgetter", "namedtuple", "collections.namedtuple"):
            r = self.make_callable(d, node)
            if r is not NotImplemented:
                return r
        if d in UFUNC2 and len(args) == 2 and not kws:
            x = ast.copy_location(ast.BinOp(left=args[0], op=UFUNC2[d](), right=args[1]), node)
            return self.evr(ast.fix_missing_locations(x))
        uf = self.ufunc_parts(d, node)
        if uf is not None:
            # np.multiply(a, b, out=x) / np.exp(a, out=x) [/ where=mask]: the result is written into x (in place) and x is returned
            ins, out, where = uf
            if len(ins) == 2:
                call = ast.copy_location(ast.BinOp(left=ins[0], op=UFUNC2[d](), right=ins[1]), node)
            else:
                call = ast.copy_location(ast.Call(func=node.func, args=[ins[0]], keywords=[]), node)
            v = self.evr(ast.fix_missing_locations(call))
            if out is None and where is None:
                return v
            if out is None:
                return Unknown(f"`{ast.unparse(node)[:60]}`: without out= the entries where the mask is false are uninitialised")
            self.store_into(out, v, node, where)
            return self.evr(out)
        if isinstance(node.func, ast.Attribute) and node.func.attr == "reshape" and args and not kws:
            shp = [const_of(self.ev(a)) for a in (args[0].elts if len(args) == 1 and isinstance(args[0], (ast.Tuple, ast.List)) else args)]
            if shp and all(c is not None and c in (1, -1) for c in shp) and sum(1 for c in shp if c == -1) == 1:
                return self.evr(node.func.value)          # x.reshape(-1, 1) is x[:, None]: axes added, nothing selected
        if d in ("np.add.accumulate", "np.cumsum", "numpy.cumsum") and len(args) == 1 and [k.arg for k in kws] == ["axis"] and const_of(self.ev(kws[0].value)) in (1, -1):
            v = self.plain(self.evr(args[0]))
            if isinstance(v, tuple) and v and not any(isinstance(x, tuple) for x in v):
                out = []
                for x in v:                                # running sum over the samples of a history
                    if is_unknown(x) or (out and is_unknown(out[-1])):
                        out.append(x if is_unknown(x) else out[-1])
                    else:
                        out.append(need(x) if not out else out[-1] + need(x))
                return tuple(out)
            return NotImplemented
        if isinstance(node.func, ast.Attribute) and node.func.attr == "dot" and len(args) == 1 and not kws and d not in ("np.dot", "numpy.dot"):
            x = ast.copy_location(ast.BinOp(left=node.func.value, op=ast.MatMult(), right=args[0]), node)
            return self.evr(ast.fix_missing_locations(x))
        if d in ("np.negative",) and len(args) == 1 and not kws:
            return self.evr(ast.fix_missing_locations(ast.copy_location(ast.UnaryOp(op=ast.USub(), operand=args[0]), node)))
        if d in ("np.square",) and len(args) == 1 and not kws:
            return self.evr(ast.fix_missing_locations(ast.copy_location(ast.BinOp(left=args[0], op=ast.Mult(), right=args[0]), node)))
        if d in ("np.reciprocal",) and len(args) == 1 and not kws:
            return self.evr(ast.fix_missing_locations(ast.copy_location(ast.BinOp(left=ast.Constant(value=1), op=ast.Div(), right=args[0]), node)))
        if d in ("np.real", "np.imag", "numpy.real", "numpy.imag") and len(args) == 1 and not kws:
            return self.evr(ast.fix_missing_locations(ast.copy_location(ast.Attribute(value=args[0], attr=d.split(".")[1], ctx=ast.Load()), node)))
        kind = self.array_from_kind(d, node)
        if kind is not None:
            src = args[0] if d in ARRAY_FROM else node.func.value
            if kind == "alias":
                r = self.ref_of(src)
                if isinstance(r, Box):
                    r.arr = True          # np.asarray(x) / x.view() is an ndarray (0-d for a number): `y += 1` on it is in place
                return r if r is not None else self.evr(src)
            if kind == "copy":
                return self.copied(self.evr(src))
            return self.maybe_alias(src, node)
        if d in ("accumulate", "itertools.accumulate") and 1 <= len(args) <= 2 and all(k.arg in ("func", "initial") for k in kws):
            items = self.iter_items(args[0])
            fnode = args[1] if len(args) == 2 else next((k.value for k in kws if k.arg == "func"), None)
            init = next((k.value for k in kws if k.arg == "initial"), None)
            if items is not None and len(items) <= self.LIMIT:
                seq = ([self.evr(init)] if init is not None and not (isinstance(init, ast.Constant) and init.value is None) else []) + list(items)
                out = []
                for x in seq:
                    if not out:
                        out.append(x)
                    elif fnode is None:
                        out.append(self.evr(ast.fix_missing_locations(ast.copy_location(ast.BinOp(left=lit(out[-1]), op=ast.Add(), right=lit(x)), node))))
                    else:
                        out.append(self.call_with(fnode, [out[-1], x], node))
                return IterV(out)
            return NotImplemented
        if d in ("np.einsum", "numpy.einsum") and len(args) == 3 and not kws:
            spec = as_str(self.evr(args[0]))
            if spec is not None:
                spec = spec.replace(" ", "")
                ins, _, out = spec.partition("->")
                ops = ins.split(",")
                if len(ops) == 2 and all(o.isalpha() and len(set(o)) == len(o) for o in ops):
                    a_, b_ = ops
                    op = None
                    if a_ and b_ and a_[-1] == b_[0] and not (set(a_[:-1]) & set(b_[1:])) and (out == a_[:-1] + b_[1:] or (not _ and sorted(a_[:-1] + b_[1:]) == list(a_[:-1] + b_[1:]))):
                        op = ast.MatMult()          # 'ij,j->i', 'ij,jk->ik', 'i,i->': the matrix product
                    elif a_ == b_ and out == a_:
                        op = ast.Mult()             # 'i,i->i', 'ij,ij->ij': elementwise
                    if op is not None:
                        x = ast.copy_location(ast.BinOp(left=args[1], op=op, right=args[2]), node)
                        return self.evr(ast.fix_missing_locations(x))
            return NotImplemented
        if d in ("pairwise", "itertools.pairwise") and len(args) == 1 and not kws:
            items = self.iter_items(args[0])
            return tuple((a_, b_) for a_, b_ in zip(items, items[1:])) if items is not None else NotImplemented
        if d == "iter" and len(args) == 1 and not kws:
            items = self.iter_items(args[0])
            return IterV(items) if items is not None else NotImplemented
        if d == "next" and 1 <= len(args) <= 2 and not kws:
            it = self.evr(args[0])
            if isinstance(it, IterV):
                if it.pos < len(it.items):
                    it.pos += 1
                    return it.items[it.pos - 1]
                return self.evr(args[1]) if len(args) == 2 else Unknown("next() of an exhausted iterator")
            return NotImplemented
        if d in ("reduce", "functools.reduce") and 2 <= len(args) <= 3 and not kws:
            items = self.iter_items(args[1])
            if items is not None and len(items) <= self.LIMIT:
                items = ([self.evr(args[2])] if len(args) == 3 else []) + list(items)
                if items:
                    acc = items[0]
                    for x in items[1:]:
                        acc = self.call_with(args[0], [acc, x], node)
                    return acc
            return NotImplemented
        if d in ("map", "itertools.starmap", "starmap") and len(args) >= 2 and not kws:
            its = [self.iter_items(a) for a in args[1:]]
            if all(i is not None and len(i) <= self.LIMIT for i in its):
                if d == "map":
                    return tuple(self.call_with(args[0], list(xs), node) for xs in zip(*its))
                if len(its) == 1 and all(isinstance(x, tuple) for x in its[0]):
                    return tuple(self.call_with(args[0], list(xs), node) for xs in its[0])
            return NotImplemented
        if isinstance(node.func, ast.Attribute) and node.func.attr in ("append", "extend") and len(args) == 1 and not kws and isinstance(node.func.value, ast.Name):
            cur = self.env.get(node.func.value.id)
            if isinstance(cur, tuple) and node.func.value.id not in self.pinned:
                x = self.ref_of(args[0])
                if node.func.attr == "extend":
                    if not isinstance(x, tuple):
                        return NotImplemented
                    self.env[node.func.value.id] = cur + x
                else:
                    self.env[node.func.value.id] = cur + (x,)
                return NONE
        if (d == "np.column_stack" and len(args) == 1 and not kws) or (d == "np.stack" and len(args) == 1 and [k.arg for k in kws] == ["axis"]
                                                                        and const_of(self.ev(kws[0].value)) in (1, -1)):
            v = self.evr(args[0])
            if isinstance(v, tuple) and self.nt is not None and len(v) == self.nt and not any(isinstance(self.plain(x), tuple) for x in v):
                return tuple(self.plain(x) for x in v)          # columns put side by side: the history of those columns
            if isinstance(v, tuple) and self.nt is not None and d == "np.column_stack" and any(isinstance(self.plain(x), tuple) for x in v):
                out = []                                        # single columns and blocks of columns side by side
                for x in v:
                    x = self.plain(x)
                    out.extend(x if isinstance(x, tuple) else (x,))
                return tuple(out) if not any(isinstance(x, tuple) for x in out) else NotImplemented
            return NotImplemented
        sel = self.selection_call(d, node)
        if sel is not None:
            # np.take(x, i) / x.take(i) / np.compress(c, x) / x.compress(c) / np.extract(c, x): the subscript x[i] / x[c] (1-D operands; axis= for the others)
            x, ix, axis = sel
            if axis is None and not self.one_d(x):
                return NotImplemented          # without axis= these functions flatten a 2-D operand first: not a row / column selection
            if axis:
                ix = ast.Tuple(elts=[ast.Slice(lower=None, upper=None, step=None) for _ in range(axis)] + [ix], ctx=ast.Load())
            sub = ast.copy_location(ast.Subscript(value=x, slice=ix, ctx=ast.Load()), node)
            return self.evr(ast.fix_missing_locations(sub))
        if isinstance(node.func, ast.Attribute) and node.func.attr == "put" and d not in ("np.put", "numpy.put") and not self.is_library_root(node.func.value):
            # x.put(ind, v) is np.put(x, ind, v)
            new = ast.copy_location(ast.Call(func=_dotted_node("np.put", node), args=[node.func.value] + list(args), keywords=kws), node)
            r = self.builtin_call("np.put", ast.fix_missing_locations(new))
            if r is not NotImplemented:
                return r
        if d in ("np.copyto", "numpy.copyto"):
            got = dict(zip(("dst", "src"), args))
            got.update({k.arg: k.value for k in kws if k.arg in ("dst", "src") and k.arg not in got})
            rest = {k.arg for k in kws} - {"dst", "src", "casting"}
            if len(args) <= 2 and set(got) == {"dst", "src"} and not rest and isinstance(got["dst"], (ast.Name, ast.Attribute, ast.Subscript)):
                self.store_into(got["dst"], self.evr(got["src"]), node)          # np.copyto(x, v) / np.copyto(X[:, i], v): x[...] = v
                return NONE
        if d in SPLIT_FUNCS and len(args) >= 2 and all(k.arg == "axis" for k in kws):
            return self.split_call(d, node)
        if d in ("SimpleNamespace", "types.SimpleNamespace") and not args:
            return DictV({k.arg: self.ref_of(k.value) for k in kws if k.arg is not None})       # a namespace object: fields by reference
        if d == "getattr" and len(args) in (2, 3) and not kws:
            s = as_str(self.evr(args[1]))
            if s is not None and s.isidentifier():
                return self._evr(ast.copy_location(ast.Attribute(value=args[0], attr=s, ctx=ast.Load()), node))
            return NotImplemented
        if d == "setattr" and len(args) == 3 and not kws:
            s = as_str(self.evr(args[1]))
            if s is not None and s.isidentifier():
                self._assign(ast.copy_location(ast.Attribute(value=args[0], attr=s, ctx=ast.Store()), node), self.evr(args[2]), node)
                return NONE
            return NotImplemented
        if isinstance(node.func, ast.Attribute) and node.func.attr == "update" and isinstance(node.func.value, (ast.Call, ast.Attribute)) \
                and ((isinstance(node.func.value, ast.Call) and dotted(node.func.value.func) == "vars" and len(node.func.value.args) == 1)
                     or (isinstance(node.func.value, ast.Attribute) and node.func.value.attr == "__dict__")) and len(args) <= 1:
            obj = node.func.value.args[0] if isinstance(node.func.value, ast.Call) else node.func.value.value
            pairs = []
            if args:
                m = self.evr(args[0])
                if isinstance(m, DictV):
                    pairs = list(m.d.items())
                else:
                    items = self.iter_items(args[0])
                    if items is None or not all(isinstance(it, tuple) and len(it) == 2 and as_str(it[0]) is not None for it in items):
                        self.poison_attrs(obj, "set by vars(...).update(x) with an x the evaluator cannot enumerate")
                        return Unknown("vars(...).update(x) with an x the evaluator cannot enumerate")
                    pairs = [(as_str(k_), v_) for k_, v_ in items]
            pairs += [(k.arg, self.evr(k.value)) for k in kws if k.arg is not None]
            if any(k.arg is None for k in kws) or any(not isinstance(k_, str) or not k_.isidentifier() for k_, _ in pairs):
                self.poison_attrs(obj, "set by vars(...).update with keys the evaluator cannot enumerate")
                return Unknown("vars(...).update with a key that is not an attribute name")
            for k_, v_ in pairs:
                self._assign(ast.copy_location(ast.Attribute(value=obj, attr=k_, ctx=ast.Store()), node), v_, node)
            return NONE
        if d == "dict":
            out = {}
            if len(args) == 1:
                items = self.iter_items(args[0])
                if items is None:
                    return NotImplemented
                for it in items:
                    if not (isinstance(it, tuple) and len(it) == 2):
                        return NotImplemented
                    k = self.key_of(it[0])
                    if k is None:
                        return NotImplemented
                    out[k] = it[1]
            elif args:
                return NotImplemented
            for k in kws:
                out[k.arg] = self.ref_of(k.value)
            return DictV(out)
        if d in ("zip", "enumerate", "reversed", "tuple", "list") and args:
            items = self.iter_items(node if d in ("zip", "enumerate", "reversed") else args[0])
            if items is None:
                return NotImplemented
            return tuple(items)
        if d == "slice" and 1 <= len(args) <= 3 and not kws:
            vals = [self.ev(a) for a in args]
            if any(is_unknown(v) or isinstance(v, tuple) for v in vals):
                return NotImplemented
            if len(vals) == 1:
                vals = [NONE, vals[0], NONE]
            elif len(vals) == 2:
                vals = vals + [NONE]
            return F.fn("slice", *[need(v) for v in vals])
        if d in ("np.transpose", "numpy.transpose") and len(args) == 1 and not kws:
            b = self.evr(args[0])
            if isinstance(b, (Hist, Block, Cols)):
                return self.transposed(b)
            if isinstance(b, (tuple,) + REFS) or is_unknown(b) or self.erase_T:
                return b
            return F.fn("attr:T", need(b))
        if isinstance(node.func, ast.Attribute) and node.func.attr == "transpose" and not args and not kws:
            b = self.evr(node.func.value)
            if isinstance(b, (Hist, Block, Cols)):
                return self.transposed(b)
            if isinstance(b, (tuple,) + REFS) or is_unknown(b) or self.erase_T:
                return b
            return F.fn("attr:T", need(b))
        if d == "len" and len(args) == 1:
            b = self.evr(args[0])
            if isinstance(b, tuple):
                return F.const(len(b))
            if isinstance(b, DictV):
                return F.const(len(b.d))          # (also a namedtuple: its number of fields)
            s = as_str(b)
            if s is not None:
                return F.const(len(s))
            return NotImplemented
        if isinstance(node.func, ast.Attribute) and node.func.attr in ("items", "keys", "values") and not args:
            items = self.iter_items(node)
            if items is not None:
                return tuple(items)
            return NotImplemented
        if isinstance(node.func, ast.Attribute) and node.func.attr == "get" and 1 <= len(args) <= 2 and not kws:
            b = self.evr(node.func.value)
            if isinstance(b, DictV):
                k = self.key_of(self.evr(args[0]))
                if k is None:
                    return Unknown("dict.get with a key that is not a constant")
                if k in b.d:
                    return b.d[k]
                return self.evr(args[1]) if len(args) == 2 else NONE
        if d == "bool" and len(args) == 1 and not kws:
            t = self.decide(args[0])
            if t is not None:
                return F.sym("True" if t else "False")
            return NotImplemented
        if d in ("np.zeros", "np.empty") and self.nt is not None and args and isinstance(args[0], (ast.Tuple, ast.List)) and len(args[0].elts) == 2:
            c = const_of(self.ev(args[0].elts[1]))
            if c is not None and c == self.nt:
                H = Hist(f"<new{len(self.hists) + 1}>", self.nt, F.const(0) if d == "np.zeros" else None)
                self.hists.append(H)
                return H
        return NotImplemented

    def is_library_root(self, n):
        return isinstance(n, ast.Name) and n.id in LIBRARY_ROOTS and n.id not in self.env

    def one_d(self, node):
        """the array the expression denotes is known to have one axis (ModeEv: every per-mode array)"""
        return self.ndim_of(self.evr(node)) == 1

    def selection_call(self, d, node):
        """(array node, selector node, axis or None) of a selection spelled as a library call, else None"""
        args, kws = node.args, {k.arg: k.value for k in node.keywords}
        if None in kws or any(isinstance(a, ast.Starred) for a in args):
            return None
        f = node.func
        meth = f.attr if isinstance(f, ast.Attribute) and not self.is_library_root(f.value) else None
        sig = None
        if d in ("np.take", "numpy.take"):
            sig, want = ("a", "indices", "axis"), ("a", "indices")
        elif d in ("np.compress", "numpy.compress"):
            sig, want = ("condition", "a", "axis"), ("a", "condition")
        elif d in ("np.extract", "numpy.extract"):
            sig, want = ("condition", "arr"), ("arr", "condition")
        elif meth == "take":
            sig, want = ("indices", "axis"), (None, "indices")
        elif meth == "compress":
            sig, want = ("condition", "axis"), (None, "condition")
        if sig is None or len(args) > len(sig):
            return None
        got = dict(zip(sig, args))
        for k_, v_ in kws.items():
            if k_ not in sig or k_ in got:
                return None          # mode= / out= ...: not this plain selection
            got[k_] = v_
        x = f.value if want[0] is None else got.get(want[0])
        ix = got.get(want[1])
        if x is None or ix is None:
            return None
        axis = None
        if "axis" in got and not (isinstance(got["axis"], ast.Constant) and got["axis"].value is None):
            c = const_of(self.ev(got["axis"]))
            if c is None or c.denominator != 1 or not 0 <= c <= 2:
                return None
            axis = int(c)
        return x, ix, axis

    def ufunc_parts(self, d, node):
        """(input nodes, out node or None, where node or None) of a ufunc call with an out / where operand, when every argument is placed; else None
        (the call is then kept opaque and its out= operand given up by `inplace_unmodelled`)"""
        nin = 2 if d in UFUNC2 else (1 if d in self.funcs and d.split(".")[0] in ("np", "numpy") else 0)
        if not nin or any(isinstance(a, ast.Starred) for a in node.args):
            return None
        args, kws = node.args, {k.arg: k.value for k in node.keywords}
        if None in kws or set(kws) - {"out", "where"} or not (nin <= len(args) <= nin + 1) or (len(args) == nin + 1 and "out" in kws):
            return None
        if len(args) == nin and not kws:
            return None          # the plain function: handled as an operator
        out = args[nin] if len(args) == nin + 1 else kws.get("out")
        if isinstance(out, ast.Tuple) and len(out.elts) == 1:
            out = out.elts[0]          # out=(x,)
        if isinstance(out, ast.Constant) and out.value is None:
            out = None
        where = kws.get("where")
        if isinstance(where, ast.Constant) and where.value is True:
            where = None
        if out is not None and not isinstance(out, (ast.Name, ast.Attribute, ast.Subscript)):
            return None
        return list(args[:nin]), out, where

    def store_into(self, dst, v, node, where=None):
        """a library call writes `v` into the array / view the expression `dst` denotes (out=x, out=X[:, i], np.copyto(x, v)); `where`: only the
        entries selected by that mask - which this evaluator does not model (ModeEv does): the destination is not known afterwards"""
        if where is not None:
            self.poison_expr(dst, f"written under a mask by `{ast.unparse(node)[:60]}`, which the evaluator does not model", node)
            return
        if isinstance(dst, ast.Subscript):
            t = ast.copy_location(ast.Subscript(value=dst.value, slice=dst.slice, ctx=ast.Store()), node)       # out=X[:, i]: written through that view
        else:
            t = ast.copy_location(ast.Subscript(value=dst, slice=ast.Slice(lower=None, upper=None, step=None), ctx=ast.Store()), node)
        self._assign(ast.fix_missing_locations(t), v, node)

    def ndim_of(self, v):
        """number of axes of an array value when the evaluator can tell (history arrays and their column tuples are 2-D; a symbol the rule declared in
        `ndims`; slicing keeps the axes, an integer index removes one), else None"""
        if isinstance(v, (Hist, Block, Cols)):
            return 2
        if isinstance(v, ColRef):
            return 1
        if isinstance(v, Box):
            v = v.v
        if isinstance(v, tuple):
            return 2 if v and all(isinstance(x, F.Rat) or is_unknown(x) for x in v) and self.nt is not None and len(v) <= self.nt else None
        if not isinstance(v, F.Rat):
            return None
        n = unsym(v)
        if n is not None:
            return getattr(self, "ndims", {}).get(n)
        u = unfn(v)
        if u and u[0] == "idx" and len(u[1]) == 2 and not any(isinstance(x, str) for x in u[1]):
            nb = self.ndim_of(u[1][0])
            if nb is None:
                return None
            ui = unfn(u[1][1])
            parts = list(ui[1]) if ui and ui[0] == "tuple" else [u[1][1]]
            if any(isinstance(x, str) for x in parts):
                return None
            for x in parts:
                ux = unfn(x)
                if ux and ux[0] == "slice":
                    continue
                if const_of(x) is not None:
                    nb -= 1
                    continue
                return None          # an index array, np.newaxis, Ellipsis ...: not decided here
            return nb if nb >= 0 else None
        if u and u[0] in ("attr:T",) and len(u[1]) == 1 and not isinstance(u[1][0], str):
            return self.ndim_of(u[1][0])
        return None

    def split_call(self, d, node):
        """np.split / np.array_split / np.vsplit / np.hsplit (x, [k1, k2, ...]): the pieces x[:k1], x[k1:k2], ..., x[kn:] along the axis (views of x).  A
        number of equal sections needs the length of the axis and np.hsplit the number of axes (it cuts axis 0 of a 1-D array): when the evaluator
        does not know them the pieces are unknown"""
        args, kws = node.args, node.keywords
        axis = SPLIT_FUNCS[d]
        ax_node = next((k.value for k in kws), None) if kws else (args[2] if len(args) == 3 else None)
        if len(args) > 3 or (ax_node is not None and axis is not None):
            return Unknown(f"`{ast.unparse(node)[:60]}`: arguments the evaluator cannot place")
        if axis is None:
            axis = 0
            if ax_node is not None:
                c = const_of(self.ev(ax_node))
                if c is None or c.denominator != 1:
                    return Unknown(f"`{ast.unparse(node)[:60]}`: the axis is not a constant")
                axis = int(c)
        sec = self.evr(args[1])
        if not isinstance(sec, tuple) or not sec or any(not isinstance(x, F.Rat) for x in sec):
            return Unknown(f"`{ast.unparse(node)[:60]}`: the cut positions are not a list of values (a number of equal sections depends on the length of the axis)")
        base = self.evr(args[0])
        if is_unknown(base):
            return base
        nd = self.ndim_of(base)
        if d.endswith("hsplit"):
            if nd is None:
                return Unknown(f"`{ast.unparse(node)[:60]}`: np.hsplit cuts axis 0 of a 1-D array and axis 1 otherwise, and the number of axes of the operand is not known")
            axis = 0 if nd == 1 else 1
        if axis < 0:
            if nd is None:
                return Unknown(f"`{ast.unparse(node)[:60]}`: a negative axis of an array whose number of axes is not known")
            axis += nd
        if axis < 0 or (nd is not None and axis >= nd) or axis > 2:
            return Unknown(f"`{ast.unparse(node)[:60]}`: axis out of range")
        bounds = [None] + list(sec) + [None]
        out = []
        for lo, hi in zip(bounds, bounds[1:]):
            sl = ast.Slice(lower=None if lo is None else lit(lo), upper=None if hi is None else lit(hi), step=None)
            ix = sl if axis == 0 else ast.Tuple(elts=[ast.Slice(lower=None, upper=None, step=None) for _ in range(axis)] + [sl], ctx=ast.Load())
            sub = ast.copy_location(ast.Subscript(value=lit(base), slice=ix, ctx=ast.Load()), node)
            out.append(self.evr(ast.fix_missing_locations(sub)))
        return tuple(out)

    def array_from_kind(self, d, node):
        """"alias" / "copy" / "maybe" for a call that makes an array from ONE array (np.array(x), np.asarray(x, dtype=...), x.ravel() ...), else None"""
        args, kws = node.args, node.keywords
        names = {k.arg for k in kws}
        if None in names or any(isinstance(a, ast.Starred) for a in args):
            return None
        if d in ARRAY_FROM:
            if not args:
                return None
            kind = ARRAY_FROM[d]
            base = d.split(".", 1)[1]
            if base in ("atleast_1d", "atleast_2d", "atleast_3d", "squeeze", "ravel", "copy"):
                if len(args) != 1 and base.startswith("atleast"):
                    return None                    # several arrays in, a list out
                return kind
            if base == "array":
                ck = next((k.value for k in kws if k.arg == "copy"), None)
                if ck is not None and not (isinstance(ck, ast.Constant) and ck.value is True):
                    return "maybe"                 # copy=False / None: the operand itself when no conversion is needed
                return "copy"
            if base in ("asarray", "asanyarray"):
                # without dtype / order the operand itself (an ndarray in, the same ndarray out); with them a converted copy when the operand differs
                return "alias" if len(args) == 1 and not (names - {"like"}) else "maybe"
            return kind
        f = node.func
        if isinstance(f, ast.Attribute) and not (isinstance(f.value, ast.Name) and f.value.id in LIBRARY_ROOTS and f.value.id not in self.env):
            if f.attr in ("view", "squeeze") and not args and not kws:
                return "alias"
            if f.attr == "ravel" and not kws and len(args) <= 1:
                return "maybe"                     # a view when the memory is contiguous, else a copy
            if f.attr == "astype" and "copy" in names:
                ck = next(k.value for k in kws if k.arg == "copy")
                if not (isinstance(ck, ast.Constant) and ck.value is True):
                    return "maybe"
        return None

    def copied(self, v):
        """the value of a new array with the content of v (np.array(x), np.copy(x)): no memory shared with any array of the evaluated code"""
        if isinstance(v, (Hist, Block, Cols, ColRef, Box)):
            return self.plain(v)
        if isinstance(v, tuple):
            return tuple(self.copied(x) for x in v)
        return v

    def maybe_alias(self, src, node):
        """the operand itself or a converted copy (np.asarray(x, dtype=...), np.ascontiguousarray(x), x.ravel()): which one is not decided here, so the
        operand's array is given up - a later store through either name must not be judged on a guess"""
        v = self.evr(src)
        hit = [x for x in (v if isinstance(v, tuple) else (v,)) if isinstance(x, (Hist, Block, Cols, ColRef))]
        if hit:
            why = f"`{ast.unparse(node)[:60]}` returns its operand or a copy of it (depends on dtype / memory layout): the array may be written through the result"
            for x in hit:
                self.poison(x, None, why, node)
            return Unknown(why)
        return self.copied(v)

    def inline_call(self, node, name, fn, scope=None):
        """evaluate the body of `fn` on the argument values (reference semantics for arrays).  `scope`: the environment a closure was created in - its
        free names are read from there (late binding, as in Python)"""
        a = fn.args
        params = [x.arg for x in a.posonlyargs + a.args]
        method = name.startswith("self.") and scope is None
        deco = {dotted(x) for x in fn.decorator_list}
        if method and "staticmethod" not in deco and params:
            params = params[1:]
        if len(node.args) > len(params) and not a.vararg:
            return NotImplemented
        env = {}
        for p_, x in zip(params, node.args):
            env[p_] = self.ref_of(x)
        if a.vararg:
            env[a.vararg.arg] = tuple(self.ref_of(x) for x in node.args[len(params):])       # *args: the surplus positional values
        kwonly = [x.arg for x in a.kwonlyargs]
        extra = {}
        for k in node.keywords:
            if k.arg in env or k.arg in extra:
                return NotImplemented
            if k.arg not in params and k.arg not in kwonly:
                if not a.kwarg:
                    return NotImplemented
                extra[k.arg] = self.ref_of(k.value)                                        # **kwargs: the surplus keywords, a dict with identity
                continue
            env[k.arg] = self.ref_of(k.value)
        if a.kwarg:
            env[a.kwarg.arg] = DictV(extra)
        dflt = dict(zip(params[::-1], (a.defaults or [])[::-1]))
        for p_ in params:
            if p_ not in env:
                if p_ in dflt:
                    env[p_] = self.ev(dflt[p_])
                else:
                    return NotImplemented
        for p_, dd in zip(kwonly, a.kw_defaults):
            if p_ not in env and dd is not None:
                env[p_] = self.ev(dd)
        shared = {}
        if scope is not None:
            local = set(params) | set(kwonly)
            env = {**{k: v for k, v in scope.items() if k not in local}, **env}
        if method:
            for k, v in self.env.items():
                if k.startswith("self."):
                    env[k] = v
                    shared[k] = v
        sub = self.spawn(fn, env)
        if scope is not None:
            sub.fn = self.fn         # module-level names are those of the enclosing function's module
        from .e1_srcmodel import walk_no_nested as _wnn
        is_gen = any(isinstance(n, (ast.Yield, ast.YieldFrom)) for n in _wnn(fn))
        if is_gen:
            # a generator function: its values are produced lazily, interleaved with the consumer.  Evaluating it eagerly is the same thing only when it
            # holds no reference to an array the consumer may write between two steps: every argument must be a plain value (a snapshot)
            used_ = {n.id for n in _wnn(fn) if isinstance(n, ast.Name)}
            if any(has_ref(v) and not isinstance(v, FuncV) for k_, v in env.items() if k_ in used_) or \
                    any(isinstance(n, ast.Attribute) and isinstance(n.ctx, ast.Store) for n in _wnn(fn)) or \
                    any(isinstance(n, (ast.Yield, ast.YieldFrom)) and not isinstance(getattr(n, "_vparent", None), ast.Expr) for n in _wnn(fn) if hasattr(n, "_vparent")):
                return NotImplemented
            sub.yields = []
        try:
            sub.run(fn.body)
        except (_Continue, _Break):
            return Unknown(f"continue / break outside a loop in {name}")
        except RecursionError:
            return Unknown(f"recursion in {name}")
        if scope is not None:
            # a closure cannot rebind a free name (without `nonlocal`): whatever the evaluation changed under a free name stands for an effect on the
            # object itself (the array got an identity through a store, or is not known any more) and belongs to the defining scope
            bound = set(params) | set(kwonly) | ({a.vararg.arg} if a.vararg else set()) | ({a.kwarg.arg} if a.kwarg else set())
            nonlocal_ = set()
            for n_ in _wnn(fn):
                if isinstance(n_, ast.Name) and isinstance(n_.ctx, ast.Store):
                    bound.add(n_.id)
                elif isinstance(n_, (ast.Nonlocal, ast.Global)):
                    nonlocal_.update(n_.names)
                elif isinstance(n_, (ast.FunctionDef, ast.ClassDef)) and n_ is not fn:
                    bound.add(n_.name)
            bound -= nonlocal_
            for k_ in list(scope):
                if k_ not in bound and k_ in sub.env and sub.env[k_] is not scope[k_] and k_ not in self.pinned:
                    scope[k_] = sub.env[k_]
        if sub.raised is not None:
            self.raised = sub.raised
            self.done = True
        self.calls.extend(sub.calls)
        self.call_seq.extend(sub.call_seq)
        self.cells.extend(sub.cells)
        self.cell_seq.extend(sub.cell_seq)
        self.seq = sub.seq
        if method:
            for k, v in sub.env.items():
                if k.startswith("self.") and shared.get(k) is not v:
                    self.env[k] = v
        if is_gen:
            if sub.yield_lost or sub.raised is not None or any(is_unknown(x) and "could not be enumerated" in getattr(x, "why", "") for x in sub.yields):
                return Unknown(f"the values yielded by the generator {name} could not be enumerated")
            return IterV(sub.yields)
        if not sub.returns:
            return NONE
        v = sub.returns[0][0]
        if v is None:
            return NONE
        if isinstance(v, F.Rat):
            for b in sub.buffers:
                if v.equals(F.sym(b)) and not any(c[0] == b for c in sub.cells) and f"<init:{b}>" in sub.env:
                    v = sub.env[f"<init:{b}>"]
        return v


# ---------------------------------------------------------------------------------------------------------------- one generic mode
class ModeEv(Ev01):
    """per-mode code for one generic mode: masks / index vectors are the truth value 0 / 1 of "this mode is selected" (see module docstring)"""

    def __init__(self, fn=None, **kw):
        super().__init__(fn, **kw)
        self.buffers = set()
        self.sel_stores = []     # (array box, selector value, stored value, stmt)
        self.abs_hook = None
        self.lost = []           # (stmt, why): stores / in-place calls whose destination array could not be identified

    def spawn(self, fn, env):
        sub = super().spawn(fn, env)
        sub.buffers = set()
        sub.sel_stores = self.sel_stores
        sub.abs_hook = self.abs_hook
        sub.lost = self.lost
        return sub

    def ref_of(self, node):
        if isinstance(node, ast.Name) and not isinstance(node, _Lit) and isinstance(self.env.get(node.id), Unknown) and not isinstance(self.env.get(node.id), Empty) \
                and node.id not in self.pinned:
            return self._evr_name_box(node)          # an array whose content is not known: still an object that a helper may fill
        if isinstance(node, ast.Name) and not isinstance(node, _Lit) and isinstance(self.env.get(node.id), F.Rat) and node.id not in self.pinned:
            v = self.env[node.id]
            n = unsym(v)
            if n in ("None", "True", "False") or as_str(v) is not None or (n is not None and n in self.inl):
                return v                              # not an array
            return self._evr_name_box(node)          # a bare array name in a reference position: the array itself
        v = self.evr(node)
        if isinstance(v, F.Rat) and not isinstance(node, (ast.Name, ast.Constant)):
            n = unsym(v)
            if not (n in ("None", "True", "False") or as_str(v) is not None or (n is not None and (n in self.inl or "." in n)) or unfn(v) is not None and
                    unfn(v)[0] in ("slice", "tuple")):
                return Box(v)                         # an array computed in place (`A / 2`, `F.copy()`): a new array with its own identity
        return v

    def maybe_alias(self, src, node):
        b = self.ref_of(src)
        if isinstance(b, Box):
            nb = Box(b.v, arr=True)          # its own identity; linked: a write into either leaves the other unknown
            nb.link(b)
            return nb
        return super().maybe_alias(src, node)

    def stmt(self, st):
        # one array object under several names: `pc.Fe = Fe = np.exp(...)` (chained targets), `pc.Fe = Fe` / `dest = F` (a bare name on the right) bind
        # the *same* array, so a later in-place store through one name is seen through the other - whatever the order of binding and filling
        if isinstance(st, ast.Assign) and not self.done and (len(st.targets) > 1 or (isinstance(st.value, ast.Name) and not isinstance(st.value, _Lit))):
            if all(isinstance(t, (ast.Name, ast.Attribute)) for t in st.targets):
                try:
                    v = self.ref_of(st.value)
                except Unsupported as e:
                    v = Unknown(str(e))
                if v is None:
                    v = self.evr(st.value)
                if is_unknown(v) and len(st.targets) > 1:
                    v = Box(v)          # an array whose content is not known yet (np.empty): still ONE object under all its names
                for t in st.targets:
                    self._assign(t, v, st)
                return
        return super().stmt(st)

    def box_update(self, st, box, nv):
        """`x += y` where x is one of several names of a value: in place for an array (all names change), a rebinding for a Python number (only x
        changes) - the evaluator cannot tell which, so the other names are not known afterwards"""
        n = [0]

        def scan(v, depth=0):
            if v is box:
                n[0] += 1
            elif isinstance(v, tuple) and depth < 4:
                for x in v:
                    scan(x, depth + 1)
            elif isinstance(v, DictV) and depth < 4:
                for x in v.d.values():
                    scan(x, depth + 1)
        for v in self.env.values():
            scan(v)
        if n[0] <= 1 or box.arr:
            box.set(nv)          # one name only, or certainly an array: in place
            return
        box.set(Unknown(f"a value bound to several names was updated in place through `{ast.unparse(st)[:60]}`"))
        if isinstance(st.target, ast.Name) and st.target.id not in self.pinned:
            self.env[st.target.id] = Box(nv)

    def unfollowed(self, d, node):
        """a call of a function of the analysed module / class that is not followed: it may fill its array arguments in place"""
        if d is None or not (d.startswith("self.") or ("." not in d and d not in PURE_BUILTINS)):
            return
        why = f"passed to {d}(...), which the evaluator does not follow"
        for a in list(node.args) + [k.value for k in node.keywords]:
            v = a.v if isinstance(a, _Lit) else (self.env.get(a.id) if isinstance(a, ast.Name) else (self.evr(a) if isinstance(a, (ast.Tuple, ast.List)) else None))
            for x in (v if isinstance(v, tuple) else (v,)):
                if isinstance(x, Box):
                    x.set(Unknown(why))
                elif isinstance(a, ast.Name) and isinstance(x, F.Rat) and a.id not in self.pinned and not x.is_const() and unsym(x) is None:
                    self.env[a.id] = Unknown(why)

    def _evr(self, node):
        if isinstance(node, (ast.Tuple, ast.List)) and not any(isinstance(e, ast.Starred) for e in node.elts):
            return self._boxed_elts(node)       # a bare array name inside a display is a reference to the array
        if isinstance(node, ast.Compare) and len(node.ops) == 1:
            t = self.value_truth(node)
            if t is not None:
                return F.const(1 if t else 0)
            return super()._evr(node)
        if isinstance(node, ast.UnaryOp) and isinstance(node.op, (ast.Invert, ast.Not)):
            v = self.ev(node.operand)
            c = const_of(v)
            if c is not None and c in (0, 1):
                return F.const(1 - int(c))
            return super()._evr(node)
        if isinstance(node, ast.BinOp) and isinstance(node.op, (ast.BitAnd, ast.BitOr, ast.BitXor)):
            return self.mask_op({ast.BitAnd: "and", ast.BitOr: "or", ast.BitXor: "xor"}[type(node.op)], self.ev(node.left), self.ev(node.right))
        if isinstance(node, ast.Attribute) and node.attr == "size":
            v = self.ev(node.value)
            if isinstance(v, Empty):
                return F.const(0)
            c = const_of(v) if isinstance(v, F.Rat) else None
            if c is not None and c in (0, 1):
                return v
        return super()._evr(node)

    def _ev(self, node):
        if isinstance(node, (ast.Compare, ast.UnaryOp)) or (isinstance(node, ast.BinOp) and isinstance(node.op, (ast.BitAnd, ast.BitOr, ast.BitXor))):
            return self.plain(self._evr(node))
        return super()._ev(node)

    def mask_op(self, kind, a, b):
        """`&`, `|`, `^` of two truth values (operator or np.bitwise_* / np.logical_* / operator.* function)"""
        if is_unknown(a) or is_unknown(b) or isinstance(a, tuple) or isinstance(b, tuple):
            ca, cb = (const_of(a) if isinstance(a, F.Rat) else None), (const_of(b) if isinstance(b, F.Rat) else None)
            if kind == "and" and (ca == 0 or cb == 0):
                return F.const(0)
            if kind == "or" and (ca == 1 or cb == 1):
                return F.const(1)
            return a if is_unknown(a) else (b if is_unknown(b) else Unknown("mask operation on a tuple"))
        a, b = need(a), need(b)
        if kind == "and":
            return a * b
        if kind == "or":
            return a + b - a * b
        return a + b - 2 * a * b

    MASK_FUNCS = {"np.bitwise_and": "and", "np.logical_and": "and", "operator.and_": "and", "operator.__and__": "and", "and_": "and",
                  "np.bitwise_or": "or", "np.logical_or": "or", "operator.or_": "or", "operator.__or__": "or", "or_": "or",
                  "np.bitwise_xor": "xor", "np.logical_xor": "xor", "operator.xor": "xor", "xor": "xor"}

    def selector(self, sl):
        """truth value of a selector expression: 1 / 0, else None"""
        if isinstance(sl, ast.Constant) or isinstance(sl, (ast.Tuple, ast.Slice)):
            return None
        v = self.ev(sl)
        if isinstance(v, Empty):
            return 0              # an empty index vector selects nothing
        c = const_of(v) if isinstance(v, F.Rat) else None
        if c is not None and c in (0, 1):
            return int(c)
        raise Unsupported(f"selector `{ast.unparse(sl)[:60]}` is not decided for the generic mode: {v!r}"[:200])

    def scalar_subscript(self, node, base):
        sl = node.slice
        if isinstance(sl, ast.Constant) and isinstance(sl.value, int):
            return base           # element of a per-mode array: the generic mode
        s = self.selector(sl)
        if s is None:
            return base
        return base if s else Empty()

    def _assign(self, target, v, st, aug=False):
        if isinstance(target, (ast.Tuple, ast.List)) and isinstance(v, (F.Rat, Box)) and not any(isinstance(e, ast.Starred) for e in target.elts) \
                and all(isinstance(e, ast.Name) for e in target.elts) and isinstance(st, ast.Assign) and target in st.targets:
            # `F, G, A, ... = table` with `table = np.zeros((8, n))` / np.ones / np.full: the rows of a 2-D table whose entries are all the same - each
            # row is an array of its own (a view: the table itself is not followed any further)
            pv = self.plain(v)
            if isinstance(pv, F.Rat) and pv.is_const():
                for e in target.elts:
                    super()._assign(e, Box(pv), st)
                if isinstance(st.value, ast.Name) and st.value.id not in self.pinned:
                    self.env[st.value.id] = Unknown(f"the rows of {st.value.id} were handed out as views")
                return
        return super()._assign(target, v, st, aug)

    def scalar_store(self, target, base_unused, v, st, aug):
        try:
            s = self.selector(target.slice)
        except Unsupported as e:
            s, v = None, Unknown(str(e))
        sl_ = target.slice
        if isinstance(sl_, ast.Slice) and not is_full_slice(sl_):
            # a store through a part of the mode axis given by positions (`X[:k] = v`, `X[1:] = v`): whether the generic mode is inside is not known
            v = Unknown(f"store `{ast.unparse(target)[:60]}` through a slice of the mode axis: whether the generic mode is inside is not known")
        tv = target.value
        if isinstance(tv, ast.Name):
            box = self.env.get(tv.id)
            if not isinstance(box, Box):
                box = Box(box if box is not None else Unknown(f"store into the unbound {tv.id}"))
                self.env[tv.id] = box
        else:
            box = self.evr(tv)
            if not isinstance(box, Box):
                if s is None or s:
                    self.lost.append((st, f"store through `{ast.unparse(tv)[:60]}`, which is not bound to an array the evaluator follows"))
                return
        v = self.plain(v)
        self.sel_stores.append((box, s, v, st))
        box.arr = True
        if s is None or s:
            box.set(v)

    def poison(self, v, target, why, st, _seen=None):
        if isinstance(v, Box) and target is not None:
            try:
                if self.selector(target.slice) == 0:
                    return             # the generic mode is not selected by this store
            except Unsupported:
                pass
        return super().poison(v, target, why, st, _seen)

    def poison_name(self, nm, target, why, st):
        try:
            if self.selector(target.slice) == 0:
                return
        except Unsupported:
            pass
        if nm not in self.pinned and "." not in nm:
            self.env[nm] = Unknown(why)

    def _evr_name_box(self, node):
        v = self.env.get(node.id)
        if isinstance(v, Box):
            return v
        if v is None or isinstance(v, tuple) or isinstance(v, REFS):
            return None
        b = Box(v)
        self.env[node.id] = b
        return b

    def _boxed_elts(self, node):
        return tuple(self.ref_of(e) for e in node.elts)

    def masked_store(self, arr, mask, val, node):
        """np.place / np.putmask / np.put / np.copyto(where=): the subscript store arr[mask] = val"""
        t = ast.copy_location(ast.Subscript(value=arr, slice=mask, ctx=ast.Store()), node)
        ast.fix_missing_locations(t)
        self._assign(t, self.evr(val), node)
        return NONE

    def one_d(self, node):
        return True          # the per-mode arrays of mask-partitioned code (one entry per mode)

    def split_call(self, d, node):
        """a per-mode array cut at positions: on which side of a cut the generic mode lies is not known, and the pieces are views through which the
        array may be written"""
        why = f"`{ast.unparse(node)[:60]}`: the position of the generic mode relative to the cut is not known"
        if node.args:
            self.poison_expr(node.args[0], why, node)
        return Unknown(why)

    def whole_view(self, node, base):
        if isinstance(base, Box):
            return base
        if isinstance(node, ast.Name) and not isinstance(node, _Lit):
            b = self.ref_of(node)
            return b if isinstance(b, Box) else None
        return None

    def store_into(self, dst, v, node, where=None):
        if where is not None and not isinstance(dst, ast.Subscript):
            return self.masked_store(dst, where, lit(v), node)          # ufunc(a, b, out=x, where=mask): x[mask] = (a op b)[mask]
        return super().store_into(dst, v, node, where)

    # masked stores spelled as library calls: for ONE generic mode all of them are `arr[sel] = value of that mode`.  How they pair the values with the
    # selected entries (np.place: the first N values; np.putmask: by position; np.put: positions, not a mask) is a question of operand spaces, which
    # C01-R7 (c01_masks.masked_store_call) types - a call it cannot type is an ANALYSIS-ERROR there
    MASKED_SIGS = {"np.place": ("arr", "mask", "vals"), "np.putmask": ("a", "mask", "values"), "np.put": ("a", "ind", "v"), "np.copyto": ("dst", "src"),
                   "operator.setitem": ("a", "b", "c")}
    MASKED_SIGS.update({"numpy" + k[2:]: v for k, v in list(MASKED_SIGS.items()) if k.startswith("np.")})

    def masked_call(self, d, node):
        """(destination, selector or None, value) nodes of a masked-store library call when every argument is placed on the signature, else None"""
        sig = self.MASKED_SIGS[d]
        if len(node.args) > len(sig) or any(isinstance(a, ast.Starred) for a in node.args):
            return None
        got = dict(zip(sig, node.args))
        extra = {}
        for k in node.keywords:
            if k.arg in sig and k.arg not in got and not d.startswith("operator."):
                got[k.arg] = k.value
            else:
                extra[k.arg] = k.value
        if set(got) != set(sig):
            return None
        if d.endswith(".copyto"):
            where = extra.pop("where", None)
            extra.pop("casting", None)
            if isinstance(where, ast.Constant) and where.value is True:
                where = None
            return None if extra else (got["dst"], where, got["src"])
        if d.endswith(".put"):
            extra.pop("mode", None)          # out-of-range positions only
        if extra:
            return None
        return got[sig[0]], got[sig[1]], got[sig[2]]

    def builtin_call(self, d, node):
        args = node.args
        full = ast.Slice(lower=None, upper=None, step=None)
        if d in self.MASKED_SIGS:
            mc = self.masked_call(d, node)
            if mc is not None:
                return self.masked_store(mc[0], mc[1] if mc[1] is not None else full, mc[2], node)
        if isinstance(node.func, ast.Attribute) and node.func.attr == "__setitem__" and len(args) == 2 and not node.keywords:
            return self.masked_store(node.func.value, args[0], args[1], node)
        if isinstance(node.func, ast.Attribute) and node.func.attr == "fill" and len(args) == 1 and not node.keywords \
                and isinstance(node.func.value, (ast.Name, ast.Subscript, ast.Attribute)):
            return self.masked_store(node.func.value, full, args[0], node)
        if d in ("np.any", "any", "np.count_nonzero", "np.size") and len(args) == 1:
            v = self.ev(args[0])
            return F.const(0) if isinstance(v, Empty) else v
        if isinstance(node.func, ast.Attribute) and node.func.attr == "any" and not args:
            v = self.ev(node.func.value)
            return F.const(0) if isinstance(v, Empty) else v
        if d in ("np.arange", "np.zeros", "np.empty", "np.ones", "range") and len(args) == 1 and const_of(self.ev(args[0])) == 0:
            return Empty("an array of length 0")
        if d in ("np.array", "np.asarray") and args and isinstance(args[0], (ast.List, ast.Tuple)) and not args[0].elts:
            return Empty("an array of length 0")
        if (d in ("np.all", "all") and len(args) == 1) or (isinstance(node.func, ast.Attribute) and node.func.attr == "all" and not args):
            # the generic mode is one of many: all(x) is false when x fails for it, and open (it depends on the other modes) when x holds for it
            v = self.ev(args[0] if args else node.func.value)
            c = const_of(v) if isinstance(v, F.Rat) else None
            if c is not None and c == 0:
                return F.const(0)
            if c is not None:
                return F.sym(OTHERS)
            return v
        if isinstance(node.func, ast.Attribute) and node.func.attr == "nonzero" and not args:
            return (self.ev(node.func.value),)
        if d in ("np.nonzero", "np.where") and len(args) == 1:
            return (self.ev(args[0]),)
        if d == "np.where" and len(args) == 3 and not node.keywords:
            c = self.ev(args[0])
            cc = const_of(c) if isinstance(c, F.Rat) else None
            if cc is not None and cc in (0, 1):
                return self.ev(args[1] if cc == 1 else args[2])       # the generic mode takes the value of its own arm
            return Unknown(f"np.where on a condition that is not decided for the generic mode: {c!r}"[:160])
        if d == "np.flatnonzero" and len(args) == 1:
            return self.ev(args[0])
        if d in self.MASK_FUNCS and len(args) == 2 and not node.keywords:
            return self.mask_op(self.MASK_FUNCS[d], self.ev(args[0]), self.ev(args[1]))
        if d in ("np.logical_not", "np.bitwise_not", "np.invert", "operator.not_", "operator.inv", "operator.invert") and len(args) == 1:
            v = self.ev(args[0])
            c = const_of(v) if isinstance(v, F.Rat) else None
            if c is not None and c in (0, 1):
                return F.const(1 - int(c))
            return NotImplemented
        if d in ("abs", "np.abs", "np.absolute") and len(args) == 1:
            v = self.ev(args[0])
            if is_unknown(v) or isinstance(v, tuple):
                return v
            c = const_of(v)
            if c is not None:
                return F.const(abs(c))
            if self.abs_hook is not None:
                r = self.abs_hook(need(v), self)
                if r is not None:
                    return r
            return F.fn("abs", need(v))
        if d == "len" and len(args) == 1:
            v = self.evr(args[0])
            if isinstance(v, Empty):
                return F.const(0)
            if not isinstance(v, (tuple, DictV)) and as_str(v) is None:
                return F.sym("<n>")
        if d in ("np.zeros", "np.zeros_like"):
            return F.const(0)
        if d in ("np.empty", "np.empty_like"):
            # an array with identity from its creation (helpers that receive it fill *this* object); its content is whatever followed stores put there
            return Box(Uninit(f"content of an array created by {d} that no store has filled for the generic mode"), arr=True)
        if d in ("np.ones", "np.ones_like"):
            return F.const(1)
        if d in ("np.full", "np.full_like") and len(args) >= 2:
            return self.ev(args[1])          # every mode holds the fill value
        if d in ("np.full", "np.full_like") and len(args) == 1 and any(k.arg == "fill_value" for k in node.keywords):
            return self.ev(next(k.value for k in node.keywords if k.arg == "fill_value"))
        return super().builtin_call(d, node)


# ---------------------------------------------------------------------------------------------------------------- rule-side wrapper
class Sem01(Sem):
    def __init__(self, ctx, fn, ev_cls=Ev01, cond=None, pinned=None, call=None, binop=None, env=None, run=True, subscript=None, inline=None, erase_T=False,
                 loop_unroll=0, forward_stores=False, consts=None, nonnull=(), truth=None, distinct=(), nt=None, fancy_copy=False, cmp=None, abs_hook=None, ndims=None):
        self.ctx = ctx
        self.fn = fn
        self.ev = ev_cls(fn, src=ctx.src, cond=cond, pinned=pinned, call=call, binop=binop, env=env, subscript=subscript)
        ev = self.ev
        ev.inl = {k: v for k, v in (inline or {}).items() if v is not fn}
        ev.erase_T = erase_T
        ev.loop_unroll = loop_unroll
        ev.forward_stores = forward_stores
        ev.module_consts = consts
        ev.nonnull = set(nonnull)
        ev.truth = dict(truth or {})
        ev.distinct = set(distinct)
        ev.nt = nt
        ev.fancy_copy = fancy_copy
        ev.cmp_hook = cmp
        ev.ndims = dict(ndims or {})
        if abs_hook is not None:
            ev.abs_hook = abs_hook
        if run:
            ev.run(fn.body)


def imported_funcs(ctx, rel):
    """{call name: FunctionDef} for the functions a module of the package imports from its sibling modules: `from ._utilities import f [as g]` -> g,
    `from . import _utilities [as u]` / `from pyyeti.ode import _utilities` -> u.f for every module-level f"""
    import os
    m = ctx.src.mod(rel)
    pkg = os.path.dirname(rel)
    out = {}

    def resolve(level, modname):
        base = pkg
        for _ in range(max(level - 1, 0)):
            base = os.path.dirname(base)
        if level == 0:
            base = ""
        path = os.path.join(base, *(modname.split(".") if modname else []))
        for cand in (path + ".py", os.path.join(path, "__init__.py")):
            if os.path.exists(os.path.join(ctx.src.repo, cand)):
                return cand
        return None

    for st in m.tree.body:
        if isinstance(st, ast.ImportFrom) and st.level >= 1:          # siblings of the same package only: library-like modules stay opaque
            src = resolve(st.level, st.module or "")
            for al in st.names:
                name = al.asname or al.name
                sub = resolve(st.level, ((st.module + ".") if st.module else "") + al.name)
                try:
                    if sub and sub.endswith(".py") and not sub.endswith("__init__.py"):
                        for q, f in ctx.src.mod(sub).funcs.items():
                            if "." not in q and "#" not in q:
                                out.setdefault(f"{name}.{q}", f)
                    elif src and src.endswith(".py"):
                        f = ctx.src.mod(src).funcs.get(al.name)
                        if f is not None:
                            out.setdefault(name, f)
                except Exception:  # noqa
                    continue
    return out


def helpers(ctx, *specs, exclude=()):
    """inline table over several modules / classes: specs are (rel, cls or None).  A method is reachable as `self.name` whatever class of the
    hierarchy defines it; module-level functions by bare name; functions imported from sibling modules of the package under their local name."""
    from .sem import module_funcs
    out = {}
    for rel, cls in specs:
        for k, v in module_funcs(ctx, rel, cls=cls).items():
            if k not in exclude and k.split(".")[-1] not in exclude:
                out.setdefault(k, v)
    for rel, cls in specs:
        for k, v in imported_funcs(ctx, rel).items():
            if k not in exclude and k.split(".")[-1] not in exclude:
                out.setdefault(k, v)
    return out
