"""C05 -- rainflow: C == Python == ASTM E1049 three-point stack algorithm."""
from __future__ import annotations

import ast
import os
import re
from fractions import Fraction

from . import e2_formula as F
from . import e7_rainir as R
from . import e7_sym as Y
from . import c05sem as SEM
from .core import AnchorError, Unsupported
from .e1_srcmodel import dotted, utext
from .e2_eval import is_unknown, need

CFILE = "pyyeti/rainflow/c_rain.c"
PYFILE = "pyyeti/rainflow/py_rain.py"
CYC = "pyyeti/cyclecount.py"


def _v(n):
    return ("var", n)


def _num(x):
    return ("num", Fraction(x))


# ---------------------------------------------------------------------------
def astm_reference(with_offsets):
    """ASTM E1049-85 section 5.4.4 (rainflow counting), steps 1-6, transcribed into the IR of e7_rainir.
       S = stack of reversals not yet counted (index j = top), X = range under consideration, Y = previous range.
         1  read next reversal (stop -> 6)
         2  fewer than three points -> 1
         3  X < Y -> 1
         4  Y does not contain the starting point: count Y as one cycle, discard its two points -> 2
         5  Y contains the starting point: count Y as one-half cycle, discard the first point -> 2
         6  count each remaining range as one-half cycle
       This is the one place a reference lives in the checker; it is the standard's procedure, not a copy of the code."""
    j, k, n, L, X, Y_ = _v("j"), _v("k"), _v("n"), _v("L"), _v("X"), _v("Y")
    S, P, rf, os_, peaks = _v("S"), _v("P"), _v("rf"), _v("os"), _v("peaks")
    s = lambda e: ("idx", S, e)                     # noqa: E731  stack of values
    p = lambda e: ("idx", P, e)                     # noqa: E731  their positions in the input
    jm = lambda d: ("bin", "-", j, _num(d))         # noqa: E731
    half = lambda e: ("bin", "/", e, _num(2))       # noqa: E731
    add = lambda a, b: ("bin", "+", a, b)           # noqa: E731
    inc = lambda v: ("set", v, add(v, _num(1)))     # noqa: E731

    def count(rng, a, b, pa, pb, weight):
        out = [("set", ("idx2", rf, n, _num(0)), half(rng)), ("set", ("idx2", rf, n, _num(1)), half(add(a, b))), ("set", ("idx2", rf, n, _num(2)), _num(weight))]
        if with_offsets:
            out += [("set", ("idx2", os_, n, _num(0)), pa), ("set", ("idx2", os_, n, _num(1)), pb)]
        return out + [inc(n)]

    def alloc(v, shape, dt=None):
        return ("set", v, ("call", "np.empty", [shape] + ([("sym", dt)] if dt else []), {}))
    rows = ("bin", "-", L, _num(1))
    prog = [alloc(S, L), alloc(rf, ("tuple", [rows, _num(3)]))]
    if with_offsets:
        prog += [alloc(P, L, "int"), alloc(os_, ("tuple", [rows, _num(2)]), "int")]
    step5 = count(Y_, s(_num(0)), s(_num(1)), p(_num(0)), p(_num(1)), "0.5") + [("set", s(_num(0)), s(_num(1))), ("set", s(_num(1)), s(_num(2)))]
    if with_offsets:
        step5 += [("set", p(_num(0)), p(_num(1))), ("set", p(_num(1)), p(_num(2)))]
    step5 += [("set", j, _num(1))]
    step4 = count(Y_, s(jm(2)), s(jm(1)), p(jm(2)), p(jm(1)), 1) + [("set", s(jm(2)), s(j))]
    if with_offsets:
        step4 += [("set", p(jm(2)), p(j))]
    step4 += [("set", j, jm(2))]
    inner = [("set", Y_, ("abs", ("bin", "-", s(jm(2)), s(jm(1))))),
             ("set", X, ("abs", ("bin", "-", s(jm(1)), s(j)))),
             ("if", ("cmp", "<", X, Y_), [("break",)], []),                         # step 3
             ("if", ("cmp", "==", j, _num(2)), step5, step4)]                       # the starting point is S[0]: Y contains it iff j == 2
    outer = [inc(j), ("set", s(j), ("idx", peaks, k))]                             # step 1
    if with_offsets:
        outer.append(("set", p(j), k))
    outer.append(("loop", ("cmp", ">", j, _num(1)), inner, []))                    # step 2
    k1 = add(k, _num(1))
    s6 = count(("abs", ("bin", "-", s(k), s(k1))), s(k), s(k1), p(k), p(k1), "0.5")
    prog += [("set", j, _num(-1)), ("set", n, _num(0)), ("set", k, _num(0)), ("loop", ("cmp", "<", k, L), outer, [inc(k)]),
             ("set", k, _num(0)), ("loop", ("cmp", "<", k, j), s6, [inc(k)])]
    ret = [("upto", rf, n)] + ([("upto", os_, n)] if with_offsets else [])
    prog.append(("return", ret[0] if len(ret) == 1 else ("tuple", ret)))
    return prog


class _CMod:
    def __init__(self, repo, rel):
        from .core import digest
        self.rel = rel
        self.digest = digest(os.path.join(repo, rel))


def _load(ctx):
    impl = SEM.implementations(ctx)
    ctx.src.mods.setdefault(CFILE, _CMod(ctx.repo, CFILE))
    return impl


def r1_equivalence(ctx):
    """C == Python, cut point by cut point and path by path (semantic: insensitive to temporaries, statement order, loop spelling, helper
    functions, local names and re-based counters)"""
    try:
        _load(ctx)
    except Y.Uninitialised as e:
        # Python: a name that is neither a parameter, a local bound on the way, a module-level name nor a builtin raises NameError /
        # UnboundLocalError on that path - the counter returns no table for the inputs that take it.  (C: undefined behaviour; left undecided.)
        import builtins
        label = str(e).split(":")[0]
        if label.startswith("py "):
            tree = ctx.src.mod(PYFILE).tree
            known = set(dir(builtins)) | {n.id for n in ast.walk(tree) if isinstance(n, ast.Name) and isinstance(n.ctx, ast.Store) and n.col_offset == 0}
            for st in tree.body:
                if isinstance(st, (ast.FunctionDef, ast.ClassDef)):
                    known.add(st.name)
                for x in ast.walk(st) if isinstance(st, (ast.Import, ast.ImportFrom, ast.Try, ast.If)) else ():
                    if isinstance(x, (ast.Import, ast.ImportFrom)):
                        known |= {(al.asname or al.name).split(".")[0] for al in x.names}
                    elif isinstance(x, ast.Name) and isinstance(x.ctx, ast.Store):
                        known.add(x.id)
            fn = ctx.src.func(PYFILE, label.split()[1])
            local = {x.id for x in ast.walk(fn) if isinstance(x, ast.Name) and isinstance(x.ctx, ast.Store)}
            if (e.name in local or e.name not in known) and not e.name.startswith("%"):
                ctx.fail(f"{label}: every name the kernel reads is bound on every path that reads it", fn,
                         {"name": e.name, "path": e.path, "consequence": "NameError / UnboundLocalError instead of a cycle table for every input that takes this path"},
                         key=f"C05-R1|{label}|unbound name")
                return
        raise
    SEM.r1_equivalence(ctx)


def r2_erasure(ctx):
    """rainflow1 is rainflow2 with the offset bookkeeping erased, on both sides"""
    _load(ctx)
    SEM.r2_erasure(ctx)


def r3_astm(ctx):
    """each of the four counters equals the ASTM E1049-85 5.4.4 automaton transcribed in astm_reference()"""
    _load(ctx)
    SEM.r3_astm(ctx, astm_reference)


def r5_lockstep(ctx):
    impl = _load(ctx)

    def entails(key, i, e):
        """does the invariant inferred for implementation `key` (C05-R4's analysis) at the source of its i-th prepared transition, together
        with the integer tests of that transition, entail e == 0?"""
        an = _analysis(ctx, key, impl[key])
        if an is None:
            return False
        sts = SEM.states_at(an, impl[key]["raw"], impl[key]["raw"].trans[i])
        return bool(sts) and all(st.entails_eq(e) for st in sts)
    SEM.r5_lockstep(ctx, entails)


def r6_value_flow(ctx):
    _load(ctx)
    SEM.r6_value_flow(ctx)


# ---------------------------------------------------------------------------
# R4: counter balance and buffer bounds by abstract interpretation (affine equalities + template inequalities)
def _returned(ret):
    """returned value -> [('view', array, stop Aff) | ('whole', array)] or None"""
    if ret is None:
        return None
    vals = list(ret[2:]) if ret[0] == "obj" and ret[1] == "tuple" else [ret]
    out = []
    for v in vals:
        if v[0] == "obj" and v[1] == "view":
            out.append(("view", v[2], SEM._ixaff(v[3])))
        elif v[0] == "ptr" and v[2] == Y.ZERO:
            out.append(("whole", v[1]))
        else:
            return None
    return out


def _analysis(ctx, key, a):
    return SEM.analysis(ctx, key, a)


def r4_counter_balance(ctx):
    """for every input of length L >= 2: every access to the stacks and to the input is within the allocated length, the stores into the output
    tables fill whole rows consecutively from row 0 and stay below the allocated capacity, the table handed back holds exactly the rows
    written (stated with the program's own exit expression, whatever counter it keeps), both tables have the same number of rows, and the
    counts sum to (L-1)/2.  Abstract interpretation (Karr's affine equalities + lower bounds + template inequalities, invariants inferred per
    program) of the transition system of each implementation.  What the inferred invariant does not yield is a VIOLATION when an input of the
    finite world of c05_world breaks it (the witness is reported), and undecided otherwise."""
    from .e8_karr import V
    from . import c05_world as W
    impl = _load(ctx)
    cache = ctx.__dict__.setdefault("_c05world", {})
    for (side, nm), a in impl.items():
        ts = a["raw0"]
        ex = ts.ex
        where = a["where"]
        tag = f"{side} {nm}"
        Ln = ex.params[1]
        L = V(Ln)
        need_ = {"pts", "rf"} | ({"cycle_index", "os"} if a["offsets"] else set())
        if not need_ <= set(ts.allocs):
            ctx.error(f"{tag}: no allocation found for {sorted(need_ - set(ts.allocs))}", where)
            continue
        an = _analysis(ctx, (side, nm), a)
        _, edges, outs, why = ctx._c05an[(side, nm)]
        if an is None:
            ctx.error(f"{tag}: abstract interpretation gave up: {why}", where)
            continue
        found = {}

        def settle(ok, text, cat, detail, key=None, found=found, ts=ts, side=side, nm=nm, where=where):
            """ok: derived from the invariant.  Otherwise: a violation with a witness of category `cat` from the finite world, else undecided"""
            if ok:
                ctx.ok(text, where)
                return
            if cat not in found:
                found.update(W.r4_witness(ts, (cat,), cache, (side, nm)))
                found.setdefault(cat, None)
            if found[cat] is not None:
                ctx.fail(text, where, {"not derivable from": detail, "witness": found[cat]}, key=key)
            else:
                ctx.error(text + " -- not decided: not derivable from the inferred invariant, and no input of the finite world (lengths 2..6) "
                                 "breaks it", where, detail)
        seen = set()
        for desc, ok, strepr in an.obl:
            if (desc, ok) in seen:
                continue
            seen.add((desc, ok))
            cat = "bounds" if (": read " in desc or ": write " in desc) else "rows"
            settle(ok, f"{tag}: {desc}", cat, f"the invariant {strepr}")
        rows = {b: V(f"#rows:{b}") for b in outs}
        nexit = 0
        for i, e in enumerate(edges):
            if e["dst"] not in (Y.END, Y.RAISE, Y.FAIL):
                continue
            for var, st, out in an.at.get(i, []):
                if e["dst"] != Y.END:
                    settle(False, f"{tag}: {e['label']}: the counter does not give up on an input of length >= 2 ({e['dst']})", "exit", repr(st))
                    continue
                nexit += 1
                rets = _returned(e["trans"]["ret"])
                want = ["rf"] + (["os"] if a["offsets"] else [])
                ok = rets is not None and [r[1] for r in rets] == want
                ctx.check(ok, f"{tag}: {e['label']}: returns {' and '.join(want)}", where, None if ok else Y.show(e["trans"]["ret"]), key=f"C05-R4|{tag}|returns|{e['label']}")
                if not ok:
                    continue
                for r in rets:
                    if r[0] == "view":
                        ok = out.entails_eq(rows[r[1]] - r[2])
                        settle(ok, f"{tag}: {e['label']}: the returned prefix {r[1]}[:{r[2]}] is exactly the rows written", "exit", repr(out))
                    else:
                        ok = out.entails_eq(rows[r[1]] - outs[r[1]][0])
                        settle(ok, f"{tag}: {e['label']}: {r[1]} is returned whole and is full (rows written == {outs[r[1]][0]} allocated)", "exit", repr(out))
                ok = out.entails_eq(V("#full") + rows["rf"] - (L - 1))
                settle(ok, f"{tag}: {e['label']}: 2 * sum(counts) = 2*full + half = L - 1 (every interval between successive points is counted once)", "exit", repr(out))
                if a["offsets"]:
                    ok = out.entails_eq(rows["rf"] - rows["os"])
                    settle(ok, f"{tag}: {e['label']}: as many offset rows as value rows", "exit", repr(out))
        SEM.bound(ctx, nexit >= 1, f"{tag}: the counter returns on {nexit} path(s)", where)


# ---------------------------------------------------------------------------
INT_DTYPES = ("np.int64", "np.intp", "int", "np.int_", "numpy.int64", "numpy.intp", "np.integer", "int64", "i8", "intp", "<i8", "=i8", "numpy.int_")
FLOAT_DTYPES = (None,) + Y.F64_NAMES
C_INTP = ("npy_intp", "Py_ssize_t", "long", "npy_int64", "ssize_t", "intptr_t", "npy_long", "long long", "int64_t")
C_DOUBLE = ("double", "npy_double", "npy_float64")
NPY_INTP = ("NPY_INTP", "NPY_LONG", "NPY_INT64", "NPY_LONGLONG")


def _like_source(ts, dt):
    """role of the array whose element type an allocation copies (`np.empty_like(peaks)`, `np.empty(n, peaks.dtype)`), following chains; None
    when the dtype is given explicitly"""
    seen = set()
    while isinstance(dt, str) and dt.startswith("like:") and dt not in seen:
        seen.add(dt)
        role = ts.roles.get(dt[5:], dt[5:])
        info = ts.allocs.get(role)
        if info is None or info["kind"] == "input":
            return role
        dt = info["dtype"]
        if not (isinstance(dt, str) and dt.startswith("like:")):
            return None
    return None


def _calls_in(x):
    """every ('call', name, args, kw) node inside an IR statement or expression"""
    if isinstance(x, (tuple, list)):
        if isinstance(x, tuple) and len(x) == 4 and x[0] == "call" and isinstance(x[1], str):
            yield x
        for y in x:
            yield from _calls_in(y)
    elif isinstance(x, dict):
        for y in x.values():
            yield from _calls_in(y)


def r8_buffers(ctx):
    """element types: the Python kernels compute in float64 for every input dtype (their buffers are float64, or take the dtype of an input the
    entry point converted to float64; no arithmetic on two values of the caller's element type), the entry points hand over the caller's values
    unconverted or as float64 / NPY_DOUBLE, the C kernels read double*; C: every calloc is freed exactly once on the normal exit and on the `fail`
    exit, nothing that is returned is released (net of the references a tuple takes), the input array is released at most once"""
    impl = _load(ctx)
    for (side, nm), a in impl.items():
        ts = a["raw0"]
        al = ts.allocs
        tag = f"{side} {nm}"
        where = a["where"]
        if side == "py":
            for arr in ("cycle_index", "os"):
                if arr in al:
                    ctx.check(al[arr]["dtype"] in INT_DTYPES, f"{tag}: {arr} holds integers ({al[arr]['dtype']})", where)
            handed = _handed_over(_entry_exec(ctx, "py")[1], nm)
            # the entry point hands over the caller's values: unconverted (the kernel's double stack converts them exactly as C's NPY_DOUBLE
            # conversion does) or converted to float64 - anything else (astype(int), float32) changes the values the C counter would see
            bad = [(lab, cls) for lab, cls in handed if cls not in ("f64", "unspecified")]
            ok = bool(handed) and not bad
            ctx.check(ok, f"{tag}: py_rain.rainflow hands the kernel the caller's values unconverted or as float64", where,
                      None if ok else [f"[{lab}] element type {cls}" for lab, cls in bad] or "no dispatching path found", key=f"C05-R8|{tag}|entry conversion")
            for arr in ("pts", "rf"):
                dt = al[arr]["dtype"]
                src = _like_source(ts, dt)
                if src is None:
                    ctx.check(dt in FLOAT_DTYPES, f"{tag}: {arr} holds doubles ({dt or 'default dtype'})", where, key=f"C05-R8|{tag}|{arr}|float64")
                    continue
                # the buffer takes the element type of the caller's array: the C kernel computes on a double stack whatever the caller passes, so
                # the public entry point must have converted the sequence to float64 before this kernel sees it
                bad = [(lab, cls) for lab, cls in handed if cls != "f64"]
                ok = src == "peaks" and bool(handed) and not bad
                ctx.check(ok, f"{tag}: {arr} holds doubles (it takes the element type of `{src}`, which is float64 for every caller)", where,
                          None if ok else {"dtype": dt, "handed over by py_rain.rainflow": [f"[{lab}] element type {cls}" for lab, cls in (bad or handed)] or "no dispatching path found",
                                           "consequence": "ranges, the X < Y decision, amplitude and mean are computed in the caller's dtype (unsigned wrap-around, "
                                                          "integer overflow, float32 rounding) while the C kernel computes in double"},
                          key=f"C05-R8|{tag}|{arr}|float64")
            # no arithmetic on two values that both still have the caller's element type
            bad = SEM.input_typed_arithmetic(a, lambda b: _like_source(ts, al[b]["dtype"]) is not None if b in al and b != "peaks" else b == "peaks")
            conv = bool(handed) and all(cls == "f64" for lab, cls in handed)
            ok = not bad or conv
            ctx.check(ok, f"{tag}: every difference and sum of signal values has a float64 operand (a double buffer, or the caller's array after the "
                          "entry point converted it)", where, None if ok else {"computed in the caller's dtype": bad[:4]}, key=f"C05-R8|{tag}|arithmetic in float64")
            continue
        # the C kernel reads the array's data as `double *`: the entry point must have converted to NPY_DOUBLE
        rd = [(s[1][1], ts.ex.f.qual.get(s[1][1], "")) for s in R.walk_ir(ts.ex.f.body)
              if s[0] == "set" and s[1][0] == "var" and s[2][0] == "call" and s[2][1] in ("PyArray_DATA", "PyArray_BYTES") and s[2][2]
              and s[2][2][0] == ("var", ts.ex.params[0])]
        ok = bool(rd) and all(re.sub(r"\b(const|volatile|restrict)\b|\*|\s", "", q) in C_DOUBLE for _, q in rd)
        ctx.check(ok, f"{tag}: the input array's data is read as double ({', '.join(q for _, q in rd) or 'no PyArray_DATA of the input found'})", where,
                  key=f"C05-R8|{tag}|input read as double")
        handed = _handed_over(_entry_exec(ctx, "C")[1], nm)
        bad = [(lab, cls) for lab, cls in handed if cls != "f64"]
        ok = bool(handed) and not bad
        if bad and all(cls == "unmodelled" for lab, cls in bad):
            ctx.error(f"{tag}: the element type of the array c_rain.rainflow hands over is not known (made by a numpy C-API call this engine has no model for)", where,
                      [lab for lab, cls in bad])
        else:
            ctx.check(ok, f"{tag}: c_rain.rainflow converts the caller's sequence to an NPY_DOUBLE array before the kernel reads it as double*", where,
                      None if ok else [f"[{lab}] element type {cls}" for lab, cls in (bad or handed)] or "no dispatching path found", key=f"C05-R8|{tag}|NPY_DOUBLE")
        # ... and as a packed buffer: `peaks[k]` / `*p++` on the data pointer steps by sizeof(double), whatever the array's stride is.  Unless the
        # kernel reads the strides, the entry point must have established that the vector is contiguous
        strided = any(c[1] in ("PyArray_STRIDE", "PyArray_STRIDES") for s in R.walk_ir(ts.ex.f.body) for c in _calls_in(s))
        lays = _layouts_handed_over(_entry_exec(ctx, "C")[1], nm)
        if not lays:
            ctx.fail(f"{tag}: c_rain.rainflow hands the kernel a contiguous vector", where, "no dispatching path found", key=f"C05-R8|{tag}|contiguous")
        for lab, cls, why in lays:
            msg = f"{tag} [{lab}]: the kernel indexes the array's data pointer as a packed double buffer, so c_rain.rainflow establishes that the vector " \
                  f"is C-contiguous before it hands it over"
            if cls == "contiguous":
                ctx.ok(msg + f" ({why})", where)
            elif not rd:
                ctx.error(f"{tag} [{lab}]: no PyArray_DATA of the input found, how the kernel reads the vector is not known", where)
            elif cls == "not requested" and not strided:
                ctx.fail(msg, where, {"established": why, "consequence": "for a float64 view that is not contiguous (x[::3], x[::-1], a column A[:, 1]) PyArray_FromAny "
                                      "returns the view itself; the kernel then counts the neighbours in memory, not the elements of the sequence "
                                      "(and reads outside the buffer for a negative stride), while py_rain indexes through the strides"},
                         key=f"C05-R8|{tag}|contiguous")
            else:
                ctx.error(f"{tag} [{lab}]: cannot decide whether the kernel reads the elements of the vector: " +
                          ("the kernel reads the array's strides" if strided else why), where)
        ctx.check(al["pts"]["dtype"] in C_DOUBLE, f"{tag}: the value stack is allocated with sizeof(double) ({al['pts']['dtype']})", where)
        ctx.check(al["rf"]["dtype"] == "NPY_DOUBLE", f"{tag}: the cycle table is an NPY_DOUBLE array ({al['rf']['dtype']})", where)
        if a["offsets"]:
            ctx.check(al["cycle_index"]["dtype"] in C_INTP, f"{tag}: the position stack is allocated with sizeof(npy_intp) ({al['cycle_index']['dtype']})", where)
            ctx.check(al["os"]["dtype"] in NPY_INTP, f"{tag}: the offsets table is an NPY_INTP array ({al['os']['dtype']})", where)
        work = [b for b in ("pts", "cycle_index") if b in al]
        nend = 0
        for t in ts.trans:
            if t["dst"] != Y.END:
                continue
            nend += 1
            label = f"{t['src']}->END" + "".join(f" [{'' if tk else 'not '}{Y.show(x)}]" for x, tk in t["key"])
            ev = t["events"]
            for b in work:
                n = sum(1 for e in ev if e[0] == "free" and e[1] == b)
                at0 = all(e[2] == "0" for e in ev if e[0] == "free" and e[1] == b)
                ctx.check(n == 1 and at0, f"{tag}: {label}: the {b} buffer is freed exactly once ({n})", where)
            bad = [e for e in ev if e[0] == "free" and e[1] not in work]
            ctx.check(not bad, f"{tag}: {label}: free() is applied only to calloc'ed buffers", where, None if not bad else repr(bad), nontrivial=False)
            n = sum(1 for e in ev if e[0] == "decref" and e[1] == "peaks")
            ctx.check(n <= 1, f"{tag}: {label}: the input array is released at most once ({n}; the caller may hold the other reference)", where)
            ctx.check(not any(e[0] == "decref-null" for e in ev), f"{tag}: {label}: Py_DECREF is never applied to NULL", where, nontrivial=False)
            rets = _returned(t["ret"]) or []
            for r in rets:
                n = sum(1 for e in ev if e[0] == "decref" and e[1] == r[1])
                m = sum(1 for e in ev if e[0] == "incref" and e[1] == r[1])
                # references: 1 from the allocation + m taken (a tuple built with PyTuple_Pack / format "O" takes its own) - n released
                if r[0] == "whole":
                    ctx.check(n - m <= 0, f"{tag}: {label}: the returned array {r[1]} is not released (the caller gets a live reference: "
                                          f"{m} INCREF, {n} DECREF)", where)
                else:
                    ctx.check(n - m <= 1, f"{tag}: {label}: the array behind the returned view of {r[1]} is released at most once ({m} INCREF, {n} DECREF)", where)
        SEM.bound(ctx, nend >= 1, f"{tag}: release rule bound to {nend} normal exits", where)
        # the `fail` exit: every calloc'ed buffer is freed there
        body = ts.ex.f.body
        names = {orig for orig, role in ts.roles.items() if role in work}
        gotos = {s[1] for s in R.walk_ir(body) if s[0] == "goto"}
        for lab in sorted(gotos):
            at = [i for i, s in enumerate(body) if s[0] == "label" and s[1] == lab]
            if not at:
                continue          # a jump inside the loops (`goto next_point` for `break`): executed like any other path, nothing is released there
            # the straight-line section the label opens: up to its first `return` at the top level
            section = []
            for st in body[at[0]:]:
                section.append(st)
                if st[0] == "return":
                    break
            freed = [s[1][2][0][1] for s in section if s[0] == "expr" and s[1][0] == "call" and s[1][1] in Y.FREE_NAMES and s[1][2] and s[1][2][0][0] == "var"]
            ok = names <= set(freed) and len(freed) == len(set(freed))
            ctx.check(ok, f"{tag}: the `{lab}` exit frees every calloc'ed buffer exactly once ({sorted(freed)})", where)


# ---------------------------------------------------------------------------
# R7: entry points and selection
KERNELS = {"rainflow1": False, "rainflow2": True, "_rainflow1": False, "_rainflow2": True}


def _flag_truth(key, is_flag):
    """truth of the offsets flag on a path (None: the path does not test it)"""
    for atom, taken in key:
        if atom[0] == "truth" and is_flag(atom[1]):
            return taken
        if atom[0] == "ieq":
            a = SEM._ixaff(atom[1])
            if len(a.c) == 1 and a.k == 0 and is_flag(next(iter(a.c))):
                return not taken
    return None


def _entry_rule(ctx, tag, ex, where, arr_ok, is_flag, kernels):
    from .e8_karr import feasible
    ts = ex
    nret = nrefuse = 0
    for t in ts.trans:
        label = " and ".join(("" if tk else "not ") + Y.show(x) for x, tk in t["key"]) or "always"
        cons, disj, data = Y.guard_of(dict(key=t["key"]), ts)
        ret = t["ret"]
        called = ret is not None and ret[0] == "opq" and ret[1] in kernels
        if called:
            nret += 1
            args = [x for x in ret[2] if not (isinstance(x, tuple) and x and x[0] == "kw")]
            ok = len(args) == 2 and arr_ok(args[0])
            if not ok and len(args) == 2 and _unmodelled_array(args[0]):
                ctx.error(f"{tag} [{label}]: the kernel receives the result of {args[0][1]}, a numpy C-API call this engine has no model for", where, Y.show(ret))
                continue
            ctx.check(ok, f"{tag} [{label}]: the kernel receives the caller's sequence as an array", where, None if ok else Y.show(ret), key=f"C05-R7|{tag}|array argument")
            if not ok:
                continue
            size = Y.opq_name(("opq", "size", (Y.arr_id(args[0]),), "int"))
            ndim = Y.opq_name(("opq", "ndim", (Y.arr_id(args[0]),), "int"))
            la = ts.aff(args[1]) if ts.is_int(args[1]) else None
            from .e8_karr import V
            ok = la is not None and not (la - V(size)).c and (la - V(size)).k == 0
            if not ok and (la is None or any(v.startswith("<") and v != size for v in la.c)):
                # a length computed by a call this engine has no model for: nothing is proved either way
                ctx.error(f"{tag} [{label}]: the length handed to the kernel is not an expression this engine can read", where, Y.show(args[1]))
                continue
            ctx.check(ok, f"{tag} [{label}]: the length handed to the kernel is the size of that array", where, None if ok else Y.show(args[1]), key=f"C05-R7|{tag}|length argument")
            ok = not feasible(cons + [(V(ndim) - 2, "ge")]) and not feasible(cons + [(-V(ndim), "ge")])
            ctx.check(ok, f"{tag} [{label}]: the kernel is reached only with a 1-d array", where, key=f"C05-R7|{tag}|ndim")
            ok = not feasible(cons + [(-V(size) + 1, "ge")])
            ctx.check(ok, f"{tag} [{label}]: the kernel is reached only with length >= 2 (L < 2 is refused)", where, key=f"C05-R7|{tag}|length refusal")
            fl = _flag_truth(t["key"], is_flag)
            ok = fl is not None and kernels[ret[1]] == fl
            ctx.check(ok, f"{tag} [{label}]: getoffsets selects the kernel with offsets, and only it ({ret[1]})", where, key=f"C05-R7|{tag}|dispatch")
        elif ret == ("null",) and t["dst"] == Y.END and _api_failed(t["key"]):
            # NULL handed on after a numpy C-API call this engine has no model for returned NULL: numpy has set the exception; when that happens
            # is not known here, so nothing is claimed for this path
            continue
        else:
            refused = t["dst"] == Y.RAISE or (t["dst"] == Y.END and ret == ("null",) and any(e[0] == "seterr" for e in t["events"]))
            nrefuse += 1
            ctx.check(refused, f"{tag} [{label}]: a call that does not reach a kernel is refused with an exception", where, None if refused else Y.show(ret) if ret else t["dst"],
                      key=f"C05-R7|{tag}|refusal")
            # ... and only then: no 1-d sequence of length >= 2 is refused (every array named on the path is the caller's sequence)
            from .e8_karr import V
            names = {v for a_, _ in cons for v in a_.c} | {v for alts in disj for alt in alts for a_, _ in alt for v in a_.c}
            extra = []
            for v in sorted(names):
                if v.startswith("<ndim("):
                    extra.append((V(v) - 1, "eq"))
                elif v.startswith("<size("):
                    extra.append((V(v) - 2, "ge"))
            ok = not Y.feasible_with(cons + extra, disj)
            ctx.check(ok, f"{tag} [{label}]: no 1-d sequence of length >= 2 is refused", where, key=f"C05-R7|{tag}|accepts length 2")
    SEM.bound(ctx, nret >= 2 and nrefuse >= 1, f"{tag}: {nret} dispatching and {nrefuse} refusing paths", where)


def _entry_exec(ctx, side):
    """(unit, symbolic execution of the public entry point `rainflow` with the kernels opaque), shared by C05-R7 and C05-R8"""
    cache = ctx.__dict__.setdefault("_c05entry", {})
    if side not in cache:
        if side == "py":
            unit = R.PyUnit(ctx.src.mod(PYFILE).tree)
            ex = Y.Exec(unit, "rainflow", mode="entry", param_kinds=[None, None], label="py_rain.rainflow")
        else:
            unit = R.CUnit(os.path.join(ctx.repo, CFILE))
            ex = Y.Exec(unit, "rainflow", mode="entry", param_kinds=[None, None, None], label="c_rain.rainflow")
        ex.opaque = set(KERNELS)
        ex.run()
        cache[side] = (unit, ex)
    return cache[side]


def _unmodelled_array(v):
    """the value of a numpy C-API call this engine has no model for (PyArray_Ravel, PyArray_Squeeze, ...): what it returns is not known, so
    nothing about it is a violation"""
    return isinstance(v, tuple) and len(v) == 4 and v[0] == "opq" and isinstance(v[1], str) and v[1].startswith("PyArray_")


def _api_failed(key):
    """the path took `<unmodelled numpy C-API call> == NULL`"""
    for atom, taken in key:
        if atom[0] == "cmp" and atom[1] in ("==", "!=") and (atom[1] == "==") == bool(taken):
            x, y = atom[2], atom[3]
            if (y == ("null",) and _unmodelled_array(x)) or (x == ("null",) and _unmodelled_array(y)):
                return True
    return False


def _handed_over(ex, kernel):
    """[(path label, element-type class of the array the entry point hands to `kernel`)] over the dispatching paths"""
    out = []
    for t in ex.trans:
        ret = t["ret"]
        if ret is not None and ret[0] == "opq" and ret[1] == kernel:
            args = [x for x in ret[2] if not (isinstance(x, tuple) and x and x[0] == "kw")]
            label = " and ".join(("" if tk else "not ") + Y.show(x) for x, tk in t["key"]) or "always"
            a0 = args[0] if args else None
            cls = Y.dtype_class(a0[3]) if a0 is not None and Y.is_asarray(a0) else "unmodelled" if _unmodelled_array(a0) else "unspecified"
            out.append((label, cls))
    return out


def _flag_word(v):
    """the integer a requirement word evaluates to, else None"""
    if isinstance(v, tuple) and v and v[0] == "num" and v[1].denominator == 1:
        return int(v[1])
    return None


def _layout_test(atom, taken, arr, bits):
    """True when taking this path atom establishes that `arr` is one contiguous segment in memory: the code itself tested the array's flags
    (PyArray_IS_C_CONTIGUOUS / PyArray_ISCONTIGUOUS / PyArray_CHKFLAGS(a, word), PyArray_FLAGS(a) & word)"""
    seg = bits["NPY_ARRAY_C_CONTIGUOUS"] | bits["NPY_ARRAY_F_CONTIGUOUS"]
    if atom[0] == "ieq" and not taken:
        # `flags & word` read as an integer: the path took `!= 0`.  Integer terms are named by their text: <op:&(PyArray_FLAGS(asarray(x,...)),w)>
        a = SEM._ixaff(atom[1])
        if len(a.c) == 1 and a.k == 0:
            nm = next(iter(a.c))
            for pat in (r"<op:&\(PyArray_FLAGS\((?P<a>.*)\),(?P<w>\d+)\)>", r"<op:&\((?P<w>\d+),PyArray_FLAGS\((?P<a>.*)\)\)>"):
                m = re.fullmatch(pat, nm)
                if m and Y.is_asarray(arr) and (m.group("a") == Y.show(Y.arr_id(arr)) or m.group("a").startswith("asarray(" + Y.show(arr[2]) + ",")):
                    w = int(m.group("w"))
                    return w != 0 and not (w & ~seg)
        return False
    if atom[0] != "truth" or not taken:
        return False
    v = atom[1]
    if v[0] == "opq" and v[1] == "PyArray_CHKFLAGS" and len(v[2]) == 2 and Y.arr_id(v[2][0]) == Y.arr_id(arr):
        w = _flag_word(v[2][1])
        return w is not None and bool(w & seg)                         # all bits of w are set, one of them a contiguity bit
    if v[0] == "opq" and v[1] == "op:&" and len(v[2]) == 2:
        for x, y in (v[2], v[2][::-1]):
            w = _flag_word(y)
            if x[0] == "opq" and x[1] == "PyArray_FLAGS" and len(x[2]) == 1 and Y.arr_id(x[2][0]) == Y.arr_id(arr) and w is not None:
                return w != 0 and not (w & ~seg)                       # some bit of w is set, all of them contiguity bits
    return False


def _layouts_handed_over(ex, kernel):
    """[(path label, 'contiguous' | 'not requested' | 'unknown', detail)] over the dispatching paths: what the entry point established about the
    memory layout of the array it hands to `kernel`.  The kernel is reached with vectors only (C05-R7), and a vector that is F-contiguous, or
    that numpy has just copied, is C-contiguous; so a requirement word with NPY_ARRAY_C_CONTIGUOUS, NPY_ARRAY_F_CONTIGUOUS or
    NPY_ARRAY_ENSURECOPY establishes it, so does a call that returns a contiguous array, so does a flag test the path took.
    'not requested' is a proof: every conversion on the way has a requirement word whose value is known and has none of the three bits, and no
    test of the layout lies on the path - PyArray_FromAny then returns a float64 view `x[::3]` / `x[::-1]` / `A[:, 1]` as it is"""
    bits = R.numpy_flag_bits()
    est = bits["NPY_ARRAY_C_CONTIGUOUS"] | bits["NPY_ARRAY_F_CONTIGUOUS"] | bits["NPY_ARRAY_ENSURECOPY"]
    out = []
    for t in ex.trans:
        ret = t["ret"]
        if not (ret is not None and ret[0] == "opq" and ret[1] == kernel):
            continue
        args = [x for x in ret[2] if not (isinstance(x, tuple) and x and x[0] == "kw")]
        label = " and ".join(("" if tk else "not ") + Y.show(x) for x, tk in t["key"]) or "always"
        a0 = args[0] if args else None
        if a0 is None or not Y.is_asarray(a0):
            out.append((label, "unknown", "the kernel's first argument is not an array made from the caller's sequence by a call this engine models"))
            continue
        lay = a0[4][1:]
        words = [_flag_word(e[1]) for e in lay if e[0] == "req"]
        if any(e[0] == "contig" for e in lay):
            out.append((label, "contiguous", next(e[1][1] for e in lay if e[0] == "contig")))
        elif any(w is not None and w & est for w in words):
            out.append((label, "contiguous", "requirements " + ", ".join(hex(w) for w in words if w is not None)))
        elif any(_layout_test(atom, taken, a0, bits) for atom, taken in t["key"]):
            out.append((label, "contiguous", "tested on the path"))
        elif words and all(w is not None for w in words):
            out.append((label, "not requested", "requirements " + ", ".join(hex(w) for w in words) + f" (NPY_ARRAY_C_CONTIGUOUS = {hex(bits['NPY_ARRAY_C_CONTIGUOUS'])})"))
        else:
            out.append((label, "unknown", "requirements " + (", ".join(Y.show(e[1]) for e in lay if e[0] == "req") or "not given")))
    return out


class _ModEval:
    """the import block of cyclecount.py evaluated under a scenario (which imports raise ImportError): flags, try / except / else, `if`, helper
    functions.  Values: ('mod', dotted) | True | False | ('func', node) | None (unknown)"""

    def __init__(self, scenario):
        self.sc = scenario
        self.caught = []          # handler types that caught a simulated ImportError
        self.imported = set()     # dotted names of the modules an import statement has loaded so far (with their parents)

    class Raise(Exception):
        pass

    class Return(Exception):
        def __init__(self, v):
            self.v = v

    @staticmethod
    def truth(v):
        """truth value of a known value (a module or function object is true, None is false); None when not known"""
        if isinstance(v, bool):
            return v
        if isinstance(v, tuple) and v:
            return v[0] != "none"
        return None

    def ev(self, n, env):
        if isinstance(n, ast.Constant):
            return n.value if isinstance(n.value, bool) else ("none",) if n.value is None else None
        if isinstance(n, ast.Name):
            return env.get(n.id)
        if isinstance(n, ast.Attribute):
            v = self.ev(n.value, env)
            if isinstance(v, tuple) and v[0] == "mod" and f"{v[1]}.{n.attr}" in self.imported:
                return ("mod", f"{v[1]}.{n.attr}")          # a sub-module that an import statement has loaded
            return None
        if isinstance(n, ast.UnaryOp) and isinstance(n.op, ast.Not):
            v = self.truth(self.ev(n.operand, env))
            return (not v) if isinstance(v, bool) else None
        if isinstance(n, ast.Compare) and len(n.ops) == 1 and isinstance(n.ops[0], (ast.Is, ast.IsNot, ast.Eq, ast.NotEq)):
            a, b = self.ev(n.left, env), self.ev(n.comparators[0], env)
            known = lambda x: isinstance(x, bool) or (isinstance(x, tuple) and x and x[0] in ("none", "mod"))      # noqa: E731
            if known(a) and known(b):
                return (a == b) == isinstance(n.ops[0], (ast.Is, ast.Eq))
            return None
        if isinstance(n, ast.BoolOp):
            vs = [self.truth(self.ev(v, env)) for v in n.values]
            if isinstance(n.op, ast.And):
                if any(v is False for v in vs):
                    return False
                return True if all(v is True for v in vs) else None
            if any(v is True for v in vs):
                return True
            return False if all(v is False for v in vs) else None
        if isinstance(n, ast.Call) and dotted(n.func) in ("importlib.import_module", "import_module", "__import__") and len(n.args) == 1 and not n.keywords \
                and isinstance(n.args[0], ast.Constant) and isinstance(n.args[0].value, str) and (dotted(n.func) != "__import__" or "." not in n.args[0].value):
            name = n.args[0].value
            if self.sc.get(name) is False:
                raise _ModEval.Raise()
            parts = name.split(".")
            self.imported |= {".".join(parts[:i + 1]) for i in range(len(parts))}
            return ("mod", name)
        if isinstance(n, ast.Call) and isinstance(n.func, ast.Name) and isinstance(env.get(n.func.id), tuple) and env[n.func.id][0] == "func":
            fn = env[n.func.id][1]
            local = dict(env)
            names = [a.arg for a in fn.args.args]
            for nm, a in zip(names, n.args):
                local[nm] = self.ev(a, env)
            for k in n.keywords:
                if k.arg:
                    local[k.arg] = self.ev(k.value, env)
            try:
                self.run(fn.body, local)
            except _ModEval.Return as r:
                return r.v
            return None
        return None

    def _handles(self, h):
        if h.type is None:
            return True
        names = [dotted(e) for e in h.type.elts] if isinstance(h.type, ast.Tuple) else [dotted(h.type)]
        return any(n in ("ImportError", "Exception", "BaseException", "builtins.ImportError") for n in names)

    def run(self, stmts, env):
        for st in stmts:
            if isinstance(st, ast.Import):
                for al in st.names:
                    if self.sc.get(al.name) is False:
                        raise _ModEval.Raise()
                    parts = al.name.split(".")
                    self.imported |= {".".join(parts[:i + 1]) for i in range(len(parts))}
                    env[al.asname or al.name.split(".")[0]] = ("mod", al.name if al.asname else al.name.split(".")[0])
            elif isinstance(st, ast.ImportFrom):
                module = st.module or ""
                if st.level:
                    # relative to the package of cyclecount.py (pyyeti): `from .rainflow import c_rain`, `from . import rainflow`
                    pkg = "pyyeti".split(".")
                    if st.level - 1 > len(pkg) - 1:
                        raise _ModEval.Raise()
                    base = pkg[:len(pkg) - (st.level - 1)]
                    module = ".".join(base + ([module] if module else []))
                st = ast.ImportFrom(module=module, names=st.names, level=0)
                for al in st.names:
                    full = f"{st.module}.{al.name}"
                    if self.sc.get(st.module) is False or self.sc.get(full) is False:
                        raise _ModEval.Raise()
                    self.imported.add(full)
                    env[al.asname or al.name] = ("mod", full)
            elif isinstance(st, ast.Try):
                try:
                    self.run(st.body, env)
                except _ModEval.Raise:
                    hs = [h for h in st.handlers if self._handles(h)]
                    if not hs:
                        self.run(st.finalbody, env)
                        raise
                    self.caught.append(ast.unparse(hs[0].type) if hs[0].type is not None else "<bare>")
                    self.run(hs[0].body, env)
                else:
                    self.run(st.orelse, env)
                self.run(st.finalbody, env)
            elif isinstance(st, ast.If):
                v = self.truth(self.ev(st.test, env))
                if v is True:
                    self.run(st.body, env)
                elif v is False:
                    self.run(st.orelse, env)
                else:
                    for x in ast.walk(st):
                        if isinstance(x, ast.Name) and isinstance(x.ctx, ast.Store):
                            env[x.id] = None
                        elif isinstance(x, (ast.Import, ast.ImportFrom)):
                            for al in x.names:
                                env[al.asname or al.name.split(".")[0]] = None
            elif isinstance(st, ast.Assign):
                v = self.ev(st.value, env)
                for t in st.targets:
                    if isinstance(t, ast.Name):
                        env[t.id] = v
                    else:
                        for x in ast.walk(t):
                            if isinstance(x, ast.Name) and isinstance(x.ctx, ast.Store):
                                env[x.id] = None
            elif isinstance(st, ast.AnnAssign) and isinstance(st.target, ast.Name):
                env[st.target.id] = self.ev(st.value, env) if st.value is not None else None
            elif isinstance(st, ast.FunctionDef):
                env[st.name] = ("func", st)
            elif isinstance(st, ast.Return):
                raise _ModEval.Return(self.ev(st.value, env) if st.value is not None else None)
            elif isinstance(st, (ast.Expr, ast.Pass)):
                pass
            else:
                for x in ast.walk(st):
                    if isinstance(x, ast.Name) and isinstance(x.ctx, ast.Store):
                        env[x.id] = None


C_MOD = "pyyeti.rainflow.c_rain"
PY_MOD = "pyyeti.rainflow.py_rain"


def selection(ctx):
    """{scenario: (final environment, handler types)}; the name(s) the selected implementation is bound to"""
    if hasattr(ctx, "_c05sel"):
        return ctx._c05sel
    m = ctx.src.mod(CYC)
    res = {}
    for c_ok in (True, False):
        for numba_ok in (True, False):
            me = _ModEval({C_MOD: c_ok, "numba": numba_ok})
            env = {}
            try:
                me.run(m.tree.body, env)
                res[(c_ok, numba_ok)] = (env, me.caught)
            except _ModEval.Raise:
                res[(c_ok, numba_ok)] = (None, me.caught)
    names = set()
    for (c_ok, nb), (env, caught) in res.items():
        if env is not None and c_ok:
            names |= {k for k, v in env.items() if v == ("mod", C_MOD)}
    ctx._c05sel = (res, sorted(names))
    return ctx._c05sel


def _jit_ok(node, mod):
    """node is numba.jit(..., nopython=True, ...) / numba.njit(...), directly or through a module-level name bound once to such a call"""
    if isinstance(node, ast.Name):
        defs = [s for s in ast.walk(mod.tree) if isinstance(s, ast.Assign) and any(isinstance(t, ast.Name) and t.id == node.id for t in s.targets)]
        return len(defs) == 1 and _jit_ok(defs[0].value, mod)
    if not isinstance(node, ast.Call):
        return False
    d = dotted(node.func) or ""
    if d in ("numba.njit", "njit"):
        return True
    return d in ("numba.jit", "jit") and any(k.arg == "nopython" and getattr(k.value, "value", None) is True for k in node.keywords)


def r7_selection(ctx):
    """cyclecount binds the C implementation when it can be imported and the Python one exactly when that import raises ImportError; both entry
    points hand (array of the caller's sequence, its length) to the kernel selected by getoffsets and refuse anything that is not a 1-d
    sequence of length >= 2; numba only ever wraps the same functions; setup.py builds this C file"""
    res, names = selection(ctx)
    m = ctx.src.mod(CYC)
    ctx.check(len(names) == 1, "cyclecount binds the compiled implementation to one module-level name", m.tree, names)
    for (c_ok, nb), (env, caught) in sorted(res.items(), reverse=True):
        sc = f"c_rain {'imports' if c_ok else 'raises ImportError'}, numba {'present' if nb else 'absent'}"
        if env is None:
            ctx.fail(f"cyclecount [{sc}]: the import of cyclecount itself fails", m.tree)
            continue
        want = ("mod", C_MOD if c_ok else PY_MOD)
        got = {n: env.get(n) for n in names}
        ok = bool(names) and all(v == want for v in got.values())
        ctx.check(ok, f"cyclecount [{sc}]: the implementation is {want[1]}", m.tree, None if ok else {k: repr(v) for k, v in got.items()},
                  key=f"C05-R7|selection|{c_ok}|{nb}")
        if not c_ok:
            ok = bool(caught) and all(c in ("ImportError", "(ImportError, ModuleNotFoundError)", "(ModuleNotFoundError, ImportError)") for c in caught)
            ctx.check(ok, f"cyclecount [{sc}]: the fall-back is taken on ImportError and on nothing else ({caught})", m.tree, key=f"C05-R7|handler|{nb}")
    # py_rain.rainflow entry
    fn = ctx.src.func(PYFILE, "rainflow")
    args = [a.arg for a in fn.args.args]
    ctx.check(args[:1] == ["peaks"] and args[1:2] == ["getoffsets"] and len(args) == 2, "py_rain.rainflow(peaks, getoffsets)", fn, nontrivial=False)
    try:
        pu, ex = _entry_exec(ctx, "py")
    except Y.Uninitialised as e:
        # a name bound nowhere (not a parameter, a local, a module-level name or a builtin): NameError for every call that reads it
        ctx.fail("py_rain.rainflow: every name the entry point reads is bound", fn, {"name": e.name, "consequence": "NameError instead of a cycle table"},
                 key="C05-R7|py_rain.rainflow|unbound name")
        raise
    p0 = ("opq", "param", (("str", args[0]),), "any") if args else None
    p1 = ("opq", "param", (("str", args[1]),), "any") if len(args) > 1 else None
    _entry_rule(ctx, "py_rain.rainflow", ex, fn, lambda v: Y.arr_id(v) == ("obj", "asarray", p0), lambda v: v == p1 or v == Y.opq_name(p1) if p1 else False,
                {k: v for k, v in KERNELS.items() if k.startswith("_")})
    # numba rebinding: only jit(nopython=True) of the same functions
    mod = ctx.src.mod(PYFILE)
    reb = [n for n in ast.walk(mod.tree) if isinstance(n, ast.Assign) and len(n.targets) == 1 and isinstance(n.targets[0], ast.Name)
           and n.targets[0].id in pu.defs and n.targets[0].id != "rainflow"]
    for r in reb:
        v = r.value
        ok = isinstance(v, ast.Call) and len(v.args) == 1 and not v.keywords and isinstance(v.args[0], ast.Name) and v.args[0].id == r.targets[0].id \
            and _jit_ok(v.func, mod)
        ctx.check(ok, f"py_rain rebinds {r.targets[0].id} only to numba.jit(nopython=True) of itself", r)
    # C entry point
    cu, ex = _entry_exec(ctx, "C")
    cw = f"{CFILE} (rainflow)"
    parses = {e for t in ex.trans for e in t["events"] if e[0] == "parse"}
    ok = len(parses) == 1 and next(iter(parses))[1] == "O|p" and next(iter(parses))[3] == 2
    ctx.check(ok, "c_rain.rainflow parses (peaks, getoffsets=False) with format \"O|p\"", cw, None if ok else repr(sorted(parses)))
    ok = len(parses) == 1 and next(iter(parses))[2] == ("peaks", "getoffsets")
    ctx.check(ok, "c_rain.rainflow keyword names are peaks, getoffsets", cw, None if ok else repr(sorted(parses)), nontrivial=False)
    a0 = ("opq", "arg", (("num", Fraction(0)),), "any")

    def c_flag(v):
        s = v if isinstance(v, str) else Y.opq_name(v) if isinstance(v, tuple) and v and v[0] == "opq" else ""
        return s.startswith("<arg(1")
    _entry_rule(ctx, "c_rain.rainflow", ex, cw, lambda v: Y.arr_id(v) == ("obj", "asarray", a0), c_flag, {k: v for k, v in KERNELS.items() if not k.startswith("_")})
    # setup.py builds exactly this file
    sp = os.path.join(ctx.repo, "setup.py")
    if os.path.exists(sp):
        txt = open(sp).read()
        ok = "pyyeti/rainflow/c_rain.c" in txt and "pyyeti.rainflow.c_rain" in txt
        ctx.check(ok, "setup.py builds pyyeti.rainflow.c_rain from pyyeti/rainflow/c_rain.c", "setup.py:1")
    else:
        ctx.error("setup.py not found", None)


def r9_wrapper_transparency(ctx):
    """cyclecount.rainflow is the public entry point of the counter.  Whatever implementation was bound at import time and whatever module flags
    exist, on EVERY path it must hand the caller's sequence itself to the bound implementation's `rainflow` (no filtering, re-sampling or
    re-ordering of the reversals: the C and the Python implementation are only equivalent to ASTM E1049 on the sequence they are given) and
    return that call's table (optionally wrapped in DataFrames).  Decided per syntactic path; unknown flags are explored both ways."""
    from .sem import enumerate_paths, module_funcs, module_consts
    fn = ctx.src.func(CYC, "rainflow")
    params = [a.arg for a in fn.args.args]
    if not params or params[0] != "peaks":
        raise AnchorError("cyclecount.rainflow(peaks, ...)")
    _, names = selection(ctx)
    if not names:
        raise AnchorError("cyclecount: no module-level name is bound to the compiled rainflow implementation")
    impl_calls = tuple(f"{n}.rainflow" for n in names)
    P = F.sym("peaks")
    G = F.sym("getoffsets")

    def call(node, ev):
        d = dotted(node.func) or ""
        if d in impl_calls:
            return (F.sym("rf_table"), F.sym("os_table"))      # unpacked or not, the path tests below look at the arguments
        if d in ("np.asarray", "np.atleast_1d", "np.ascontiguousarray", "np.array", "np.ravel") and node.args:
            return ev.ev(node.args[0])
        if d in ("pd.DataFrame", "pandas.DataFrame"):
            if node.args:
                return ev.ev(node.args[0])
            for k in node.keywords:
                if k.arg == "data":
                    return ev.ev(k.value)
        return NotImplemented

    # small loop-free helpers of the module (DataFrame wrappers, argument checks) are followed; the signal-processing functions are not
    inline = {k: v for k, v in module_funcs(ctx, CYC).items() if v is not fn and len(v.body) <= 8
              and not any(isinstance(x, (ast.For, ast.While, ast.Try, ast.With)) for x in ast.walk(v))}
    npaths = 0
    for decisions, S in enumerate_paths(ctx, fn, call=call, inline=inline, consts=module_consts(ctx, CYC)):
        if not S.ev.returns:
            continue
        npaths += 1
        calls = S.calls(*impl_calls)
        how = ", ".join(f"{utext(t)}={v}" for t, v in decisions)
        ok = len(calls) == 1
        ctx.check(ok, "cyclecount.rainflow: exactly one call of the bound implementation on every path", S.ret_node(), None if ok else {"path": how, "calls": len(calls)},
                  key="C05-R9|rainflow|number of calls")
        if not ok:
            continue
        args = calls[0][1]
        kws = calls[0][2]
        a0 = args[0] if args else kws.get("peaks")
        ok = a0 is not None and not is_unknown(a0) and not isinstance(a0, tuple) and need(a0).equals(P)
        ctx.check(ok, "cyclecount.rainflow: the implementation receives the caller's sequence itself", calls[0][3],
                  None if ok else {"path": how, "argument": repr(a0), "consequence": "the cycle table is that of another sequence (e.g. pre-filtered reversals)"},
                  key="C05-R9|rainflow|peaks argument")
        a1 = args[1] if len(args) > 1 else kws.get("getoffsets")
        gdec = [v for t, v in decisions if utext(t) in ("getoffsets", "notgetoffsets")]
        gval = None
        for t, v in decisions:
            if utext(t) == "getoffsets":
                gval = v
        ok = a1 is not None and not is_unknown(a1) and not isinstance(a1, tuple) and (need(a1).equals(G) or (gval is not None and need(a1).equals(F.const(1 if gval else 0))))
        ctx.check(ok, "cyclecount.rainflow: offsets are requested from the implementation exactly when the caller asks for them", calls[0][3],
                  None if ok else {"path": how, "argument": repr(a1)}, key="C05-R9|rainflow|getoffsets argument")
        ret = S.ret()
        tables = {"rf_table", "os_table"}
        if isinstance(ret, tuple):
            ok = all((not is_unknown(x)) and repr(x) in tables for x in ret) and repr(ret[0]) == "rf_table"
        else:
            ok = ret is not None and not is_unknown(ret) and (repr(ret) == "rf_table" or S.same(ret, S.ev.ev(calls[0][3])))
        ctx.check(ok, "cyclecount.rainflow: returns the implementation's table(s) unchanged (DataFrame wrapping aside)", S.ret_node(),
                  None if ok else {"path": how, "returned": repr(ret)}, key="C05-R9|rainflow|returned tables")
    SEM.bound(ctx, npaths >= 4, f"cyclecount.rainflow: at least the four getoffsets x use_pandas paths were evaluated ({npaths})", fn)


RULES = [
    ("C05-R1", r1_equivalence, 8),
    ("C05-R2", r2_erasure, 8),
    ("C05-R3", r3_astm, 16),
    ("C05-R4", r4_counter_balance, 200),
    ("C05-R5", r5_lockstep, 28),
    ("C05-R6", r6_value_flow, 250),
    ("C05-R7", r7_selection, 30),
    ("C05-R8", r8_buffers, 42),
    ("C05-R9", r9_wrapper_transparency, 16),
]
LEVEL = "translation_validation"
TRUSTED = ["clang-14 front end (parser/preprocessor of c_rain.c, -ast-dump=json)", "CPython ast", "verifier/e7_rainir.py lowering",
           "verifier/e7_sym.py symbolic execution (models of calloc/free, the numpy/CPython allocation, slicing and reference-count calls)",
           "IEEE-754 evaluation of identical expression trees by the C compiler and CPython/numba (x / 2^k and 2^-k * x, |a - b| and |b - a| identified)",
           "verifier/c05_world.py: execution of the checker's own transition systems on a finite world of inputs - used only to confirm a reported "
           "difference with a concrete witness, never to discharge an obligation"]
EXPLANATION = ("Static translation validation between the two rainflow implementations: both are lowered (clang JSON AST / Python ast) to one "
               "structured IR (one loop form, explicit side effects, helpers inlined) and executed symbolically into a transition system between loop "
               "heads (boolean / small-enum locals that only hold constants are part of the control state: a head is cut under one setting of its live "
               "flags, paths under other settings run through it; counter-only ways out of a loop are composed into the paths that arrive at the head, "
               "so it does not matter where the source makes the test); the systems are compared semantically - by the effect of every path between two loop heads on the reversal stack, the emitted rows "
               "and the counters - up to a change of variables derived from each program (re-based / re-scaled counters, merged equal counters, cached "
               "array elements); each is compared the same way with a transcription of ASTM E1049-85 5.4.4; offsets are in lock-step with values; data "
               "reaches control flow only through |p-q| < |r-s|; an abstract interpretation (affine equalities + template inequalities, "
               "verifier/e8_karr.py, invariants inferred per program) proves every buffer index in range, output rows written consecutively and below "
               "capacity, the returned prefix == the rows written (in the program's own exit expression) and 2*sum(counts) == L-1; calloc/free pairing; "
               "element types: every buffer the Python kernels compute ranges in is float64 whatever the caller's dtype (or the entry point converted "
               "the sequence to float64), the C entry point converts to NPY_DOUBLE what the kernels read as double* and - because they index the data pointer as a packed "
               "buffer - establishes that the vector is contiguous (the requirement word of PyArray_FromAny, read by value after clang expanded the numpy "
               "macros, has NPY_ARRAY_C_CONTIGUOUS / F_CONTIGUOUS / ENSURECOPY; or a call that returns a contiguous array; or a flag test on the path).  A difference between two "
               "systems (C05-R1..R3), or a bound / balance the invariants do not yield (C05-R4), is reported as a VIOLATION only with a witness: an "
               "input of a finite world (lengths 2..6, ties, permutations, NaN, tiny scale, near-ties) on which the lowered programs return "
               "different tables (or break the bound); without one the obligation is undecided (exit 2).")
MANIFEST = {
    "text": "Decided statically for all inputs of length >= 2: the C and Python counting loops are the same transition system (same decisions, same effect "
            "of every path between loop heads on the stack, the output rows and the counters, identical floating-point expression trees up to x/2 == 0.5*x "
            "and commutativity; counters up to an affine change of variables derived from each program), rainflow1 is rainflow2 with offsets erased, both "
            "equal the ASTM E1049-85 three-point stack automaton, every value move is mirrored by its index move and every emitted offset pair names the two "
            "points whose range is counted, data influences control only through |p-q| < |r-s| (hence negation/shift/positive scaling act 'in the obvious "
            "way'), both entry points refuse anything but a 1-d sequence of length >= 2 and dispatch identically, and (C05-R4, abstract interpretation with "
            "Karr's affine-equality domain plus template inequalities) for every L >= 2 every stack / input index lies within the allocated length, the "
            "output rows are written whole, consecutively from row 0 and below the allocated capacity, on exit the returned prefix is exactly the rows "
            "written, both tables have the same number of rows and the counts sum to (L-1)/2; (C05-R9) on every syntactic path the public "
            "wrapper cyclecount.rainflow hands the caller's sequence itself to the bound implementation and returns its tables unchanged; (C05-R8) the "
            "arithmetic of both implementations is in double precision for every input dtype: the Python stack / table are float64 buffers (never the "
            "caller's dtype unless py_rain.rainflow converted the sequence to float64 first), no difference or sum is formed of two values that still "
            "have the caller's element type, the C entry point converts to NPY_DOUBLE and requires (or itself establishes) a contiguous vector, the kernels read it as a packed double*. Not decided: numba's compilation, bit-level FP of the two compilers.",
    "note": "Trusted: clang-14 as parser of c_rain.c with the build's include paths; CPython ast; IEEE conformance of both compilers on identical expression trees; allocation calls succeed (the failure exits are checked only for releasing the buffers).",
    "technique": "static translation validation: clang JSON AST and Python AST lowered to a common IR, symbolic execution into transition systems between loop heads, semantic comparison up to a derived change of variables + comparison with an ASTM E1049 reference automaton; abstract interpretation (Karr affine equalities + template inequalities) for counter balance and buffer bounds",
}
