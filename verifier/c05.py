"""C05 -- rainflow: C == Python == ASTM E1049 three-point stack algorithm."""
from __future__ import annotations

import ast
import os
from fractions import Fraction

from . import e2_formula as F
from . import e7_rainir as R
from . import c05sem as SEM
from .core import AnchorError, Unsupported
from .e1_srcmodel import dotted, walk_no_nested, utext
from .e2_eval import is_unknown, need

CFILE = "pyyeti/rainflow/c_rain.c"
PYFILE = "pyyeti/rainflow/py_rain.py"
CYC = "pyyeti/cyclecount.py"

ONE = ("num", Fraction(1))


def _v(n):
    return ("var", n)


def _num(x):
    return ("num", Fraction(x))


# ---------------------------------------------------------------------------
def _c_region(ctx, name):
    fdecl = R.clang_function(os.path.join(ctx.repo, CFILE), name)
    low = R.CLower(fdecl)
    ir = low.stmts(low.body()["inner"])
    return _split(ir, f"C {name}"), low, fdecl


def _split(ir, what):
    """(inits, region): region = [outer for ..., step-6 loop]; inits = scalar sets before it"""
    fors = [i for i, s in enumerate(ir) if s[0] == "for"]
    if len(fors) != 2:
        raise Unsupported(f"{what}: expected exactly two top-level loops (the count loop and step 6), found {len(fors)}")
    inits = {}
    for s in ir[: fors[0]]:
        if s[0] == "set" and s[1][0] == "var" and s[2][0] == "num":
            inits[s[1][1]] = s[2][1]
    mid = ir[fors[0] + 1: fors[1]]
    region = [ir[fors[0]]] + [s for s in mid if s[0] == "set" and s[1][0] == "var"] + [ir[fors[1]]]
    junk = [s for s in mid if not (s[0] == "set" and s[1][0] == "var")]
    if junk:
        raise Unsupported(f"{what}: unexpected statement between the loops: {R.fmt(junk)[:2]}")
    return inits, region


def _py_region(ctx, name):
    """allocations, returns and the function node (the counting code itself is lowered raw by _py_raw_region)"""
    fn = ctx.src.func(PYFILE, name)
    allocs = {}
    rets = []
    for st in fn.body:
        if isinstance(st, ast.Assign) and isinstance(st.value, ast.Call) and dotted(st.value.func) in ("np.empty", "np.zeros") \
                and isinstance(st.targets[0], ast.Name):
            allocs[st.targets[0].id] = st.value
        elif isinstance(st, ast.Return):
            rets.append(st)
    return allocs, rets, fn


def _py_raw_region(ctx, name):
    """the same region with the individual output stores and the row counter kept (for the unit-wise symbolic comparison)"""
    fn = ctx.src.func(PYFILE, name)
    keep = [s for s in fn.body if not (isinstance(s, ast.Expr) and isinstance(s.value, ast.Constant))
            and not (isinstance(s, ast.Assign) and isinstance(s.value, ast.Call) and dotted(s.value.func) in ("np.empty", "np.zeros"))
            and not isinstance(s, ast.Return)]
    loops = [i for i, st in enumerate(keep) if isinstance(st, (ast.For, ast.While))]
    if loops:
        keep = keep[: loops[-1] + 1]      # statements after the step-6 loop only prepare the return value (see _py_slices)
    ir = R.PyLower(fn, group=False).block(keep)
    return _split(ir, f"py {name}")


def astm_reference(with_offsets):
    """ASTM E1049-85 section 5.4.4 (rainflow counting), steps 1-6, transcribed into the IR.
       S = stack of reversals not yet counted (index j = top), X = range under consideration, Y = previous range.
         1  read next reversal (stop -> 6)
         2  fewer than three points -> 1
         3  X < Y -> 1
         4  Y does not contain the starting point: count Y as one cycle, discard its two points -> 2
         5  Y contains the starting point: count Y as one-half cycle, discard the first point -> 2
         6  count each remaining range as one-half cycle"""
    j, k, X, Y, A, B = _v("j"), _v("k"), _v("X"), _v("Y"), _v("A"), _v("B")
    pts = lambda e: ("idx", "pts", e)          # noqa
    ci = lambda e: ("idx", "ci", e)            # noqa
    jm = lambda n: ("bin", "-", j, _num(n))    # noqa
    half = lambda e: ("bin", "/", e, _num(2))  # noqa
    step5 = [("emit", "rf", (half(Y), half(("bin", "+", pts(_num(0)), pts(_num(1)))), _num("0.5")))]
    if with_offsets:
        step5.append(("emit", "os", (ci(_num(0)), ci(_num(1)))))
    step5 += [("set", pts(_num(0)), pts(_num(1))), ("set", pts(_num(1)), pts(_num(2)))]
    if with_offsets:
        step5 += [("set", ci(_num(0)), ci(_num(1))), ("set", ci(_num(1)), ci(_num(2)))]
    step5 += [("set", j, _num(1))]
    step4 = [("set", _v("full"), ("bin", "+", _v("full"), _num(1))),
             ("emit", "rf", (half(Y), half(("bin", "+", pts(jm(2)), pts(jm(1)))), _num(1)))]
    if with_offsets:
        step4.append(("emit", "os", (ci(jm(2)), ci(jm(1)))))
    step4 += [("set", pts(jm(2)), pts(j))]
    if with_offsets:
        step4 += [("set", ci(jm(2)), ci(j))]
    step4 += [("set", j, jm(2))]
    inner = [
        ("set", Y, ("abs", ("bin", "-", pts(jm(2)), pts(jm(1))))),
        ("set", X, ("abs", ("bin", "-", pts(jm(1)), pts(j)))),
        ("if", ("cmp", "<", X, Y), [("break",)], []),
        ("if", ("cmp", "==", j, _num(2)), step5, step4),
    ]
    outer = [("set", j, ("bin", "+", j, _num(1))), ("set", pts(j), ("idx", "peaks", k))]
    if with_offsets:
        outer.append(("set", ci(j), k))
    outer.append(("while", ("cmp", ">", j, _num(1)), inner))
    s6 = [("set", B, pts(("bin", "+", k, _num(1)))),
          ("emit", "rf", (half(("abs", ("bin", "-", A, B))), half(("bin", "+", A, B)), _num("0.5")))]
    if with_offsets:
        s6.append(("emit", "os", (ci(k), ci(("bin", "+", k, _num(1))))))
    s6.append(("set", A, B))
    return [("for", "k", _num(0), _v("L"), outer), ("set", A, pts(_num(0))), ("for", "k", _num(0), j, s6)]


class Sides:
    pass


def _load(ctx):
    if hasattr(ctx, "_c05"):
        return ctx._c05
    S = Sides()
    S.c = {}
    S.py = {}
    for nm in ("rainflow1", "rainflow2"):
        (ini, reg), low, fdecl = _c_region(ctx, nm)
        S.c[nm] = dict(inits=ini, region=reg, low=low, fdecl=fdecl)
    for nm in ("_rainflow1", "_rainflow2"):
        allocs, rets, fn = _py_region(ctx, nm)
        S.py[nm] = dict(raw=_py_raw_region(ctx, nm), allocs=allocs, rets=rets, fn=fn)
    ctx._c05 = S
    ctx.src.mods.setdefault(CFILE, _CMod(ctx.repo, CFILE))
    return S


class _CMod:
    def __init__(self, repo, rel):
        from .core import digest
        self.rel = rel
        self.digest = digest(os.path.join(repo, rel))


def _cwhere(line=None):
    return f"{CFILE}" + (f":{line}" if line else "")


def r1_equivalence(ctx):
    """C == Python, unit by unit and path by path (semantic: insensitive to temporaries, statement order, hoisting, local names)"""
    SEM.r1_equivalence(ctx, _load(ctx))


def r2_erasure(ctx):
    """rainflow1 is rainflow2 with the offset bookkeeping erased, on both sides"""
    SEM.r2_erasure(ctx, _load(ctx))


def r3_astm(ctx):
    """each of the four counters equals the ASTM E1049-85 5.4.4 automaton transcribed in astm_reference()"""
    SEM.r3_astm(ctx, _load(ctx), astm_reference)


def r5_lockstep(ctx):
    SEM.r5_lockstep(ctx, _load(ctx))


def r6_value_flow(ctx):
    SEM.r6_value_flow(ctx, _load(ctx))


def r9_wrapper_transparency(ctx):
    """cyclecount.rainflow is the public entry point of the counter.  Whatever implementation was bound at import time and whatever module flags
    exist, on EVERY path it must hand the caller's sequence itself to `rain.rainflow` (no filtering, re-sampling or re-ordering of the reversals:
    the C and the Python implementation are only equivalent to ASTM E1049 on the sequence they are given) and return that call's table
    (optionally wrapped in DataFrames).  Decided per syntactic path; unknown flags are explored both ways."""
    from .sem import enumerate_paths
    fn = ctx.src.func(CYC, "rainflow")
    params = [a.arg for a in fn.args.args]
    if not params or params[0] != "peaks":
        raise AnchorError("cyclecount.rainflow(peaks, ...)")
    P = F.sym("peaks")
    G = F.sym("getoffsets")

    def call(node, ev):
        d = dotted(node.func) or ""
        if d == "rain.rainflow":
            return (F.sym("rf_table"), F.sym("os_table"))      # unpacked or not, the path tests below look at the arguments
        if d in ("np.asarray", "np.atleast_1d", "np.ascontiguousarray", "np.array", "np.ravel") and node.args:
            return ev.ev(node.args[0])
        if d == "pd.DataFrame" and node.args:
            return ev.ev(node.args[0])
        return NotImplemented

    npaths = 0
    for decisions, S in enumerate_paths(ctx, fn, call=call):
        if not S.ev.returns:
            continue
        npaths += 1
        calls = S.calls("rain.rainflow")
        how = ", ".join(f"{utext(t)}={v}" for t, v in decisions)
        ok = len(calls) == 1
        ctx.check(ok, "cyclecount.rainflow: exactly one call of the bound implementation on every path", S.ret_node(), None if ok else {"path": how, "calls": len(calls)},
                  key="C05-R9|rainflow|number of calls")
        if not ok:
            continue
        args = calls[0][1]
        kws = calls[0][2]
        a0 = args[0] if args else kws.get("peaks")
        ok = a0 is not None and not is_unknown(a0) and not isinstance(a0, tuple) and need(a0).equals(P)
        ctx.check(ok, "cyclecount.rainflow: the implementation receives the caller's sequence itself", calls[0][3],
                  None if ok else {"path": how, "argument": repr(a0), "consequence": "the cycle table is that of another sequence (e.g. pre-filtered reversals)"},
                  key="C05-R9|rainflow|peaks argument")
        a1 = args[1] if len(args) > 1 else kws.get("getoffsets")
        gdec = [v for t, v in decisions if utext(t) == "getoffsets"]
        ok = a1 is not None and not is_unknown(a1) and not isinstance(a1, tuple) and (need(a1).equals(G) or (gdec and need(a1).equals(F.const(1 if gdec[0] else 0))))
        ctx.check(ok, "cyclecount.rainflow: offsets are requested from the implementation exactly when the caller asks for them", calls[0][3],
                  None if ok else {"path": how, "argument": repr(a1)}, key="C05-R9|rainflow|getoffsets argument")
        ret = S.ret()
        tables = {"rf_table", "os_table"}
        if isinstance(ret, tuple):
            ok = all((not is_unknown(x)) and repr(x) in tables for x in ret) and repr(ret[0]) == "rf_table"
        else:
            ok = ret is not None and not is_unknown(ret) and (repr(ret) == "rf_table" or S.same(ret, S.ev.ev(calls[0][3])))
        ctx.check(ok, "cyclecount.rainflow: returns the implementation's table(s) unchanged (DataFrame wrapping aside)", S.ret_node(),
                  None if ok else {"path": how, "returned": repr(ret)}, key="C05-R9|rainflow|returned tables")
    ctx.check(npaths >= 4, "cyclecount.rainflow: at least the four getoffsets x use_pandas paths were evaluated", fn, npaths, nontrivial=False)


def r7_selection(ctx):
    # cyclecount import block: c_rain first, py_rain only on ImportError
    m = ctx.src.mod(CYC)
    trys = [n for n in m.tree.body if isinstance(n, ast.Try)]
    found = False
    for t in trys:
        imps = [ast.unparse(s) for s in t.body]
        if any("c_rain" in s for s in imps):
            found = True
            ok = len(t.handlers) == 1 and ast.unparse(t.handlers[0].type) == "ImportError" and \
                any("py_rain" in ast.unparse(s) for s in t.handlers[0].body)
            ctx.check(ok, "cyclecount binds `rain` to c_rain and falls back to py_rain only on ImportError", t)
            names = set()
            for s in t.body + t.handlers[0].body:
                if isinstance(s, ast.Import):
                    names |= {a.asname or a.name for a in s.names}
                elif isinstance(s, ast.ImportFrom):
                    names |= {a.asname or a.name for a in s.names}
            ctx.check(len(names) == 1, "both implementations are bound to the same name", t, sorted(names))
    if not found:
        raise AnchorError("cyclecount: c_rain import block not found")
    # py_rain.rainflow entry
    fn = ctx.src.func(PYFILE, "rainflow")
    txt = utext(fn)
    ok = "L=peaks.sizeifpeaks.ndim==1else0" in txt and "ifL<2:" in txt and "raiseValueError" in txt
    ctx.check(ok, "py_rain.rainflow: L = size of a 1-d vector else 0; L < 2 is refused", fn)
    from .paths import flag_paths
    for flag, want in ((True, "_rainflow2"), (False, "_rainflow1")):
        rets = set()
        for trace, end in flag_paths(fn.body, lambda t, flag=flag: {"getoffsets": flag, "L<2": False}.get(utext(t)),
                                     relevant=lambda st: False):
            if isinstance(end, ast.Return) and end.value is not None:
                rets.add(utext(end.value))
            elif end is None:
                rets.add("<falls off the end>")
        ok = rets == {f"{want}(peaks,L)"}
        ctx.check(ok, f"py_rain.rainflow(getoffsets={flag}) returns {want}(peaks, L) on every path", fn, sorted(rets))
    args = [a.arg for a in fn.args.args]
    ctx.check(args == ["peaks", "getoffsets"], "py_rain.rainflow(peaks, getoffsets)", fn, nontrivial=False)
    # numba rebinding: only jit(nopython=True) of the same functions
    mod = ctx.src.mod(PYFILE)
    reb = [n for n in ast.walk(mod.tree) if isinstance(n, ast.Assign) and isinstance(n.targets[0], ast.Name)
           and n.targets[0].id in ("_rainflow1", "_rainflow2")]
    for r in reb:
        v = r.value
        ok = isinstance(v, ast.Call) and len(v.args) == 1 and isinstance(v.args[0], ast.Name) and v.args[0].id == r.targets[0].id \
            and isinstance(v.func, ast.Call) and dotted(v.func.func) == "numba.jit" \
            and any(k.arg == "nopython" and getattr(k.value, "value", None) is True for k in v.func.keywords)
        ctx.check(ok, f"py_rain rebinds {r.targets[0].id} only to numba.jit(nopython=True) of itself", r)
    # C entry point
    fdecl = R.clang_function(os.path.join(ctx.repo, CFILE), "rainflow")
    js = _collect(fdecl)
    ok = any(n.get("kind") == "StringLiteral" and "O|p" in n.get("value", "") for n in js)
    ctx.check(ok, "c_rain.rainflow parses (peaks, getoffsets=False) with format \"O|p\"", _cwhere())
    kws = [n.get("value", "").strip('"') for n in js if n.get("kind") == "StringLiteral"]
    ctx.check("peaks" in kws and "getoffsets" in kws, "c_rain.rainflow keyword names are peaks, getoffsets", _cwhere(), nontrivial=False)
    # L < 2 refusal
    ifs = [n for n in js if n.get("kind") == "IfStmt"]
    ok = False
    for n in ifs:
        c = _strip(n["inner"][0])
        if c.get("kind") == "BinaryOperator" and c.get("opcode") == "<":
            l, r = _strip(c["inner"][0]), _strip(c["inner"][1])
            if (l.get("referencedDecl") or {}).get("name") == "L" and r.get("value") == "2":
                ok = any(x.get("kind") == "ReturnStmt" for x in _collect(n["inner"][1]))
    ctx.check(ok, "c_rain.rainflow refuses L < 2 (same bound as py_rain)", _cwhere())
    # setup.py builds exactly this file
    sp = os.path.join(ctx.repo, "setup.py")
    if os.path.exists(sp):
        txt = open(sp).read()
        ok = "pyyeti/rainflow/c_rain.c" in txt and "pyyeti.rainflow.c_rain" in txt
        ctx.check(ok, "setup.py builds pyyeti.rainflow.c_rain from pyyeti/rainflow/c_rain.c", "setup.py:1")
    else:
        ctx.error("setup.py not found", None)


def _strip(n):
    while n.get("kind") in ("ImplicitCastExpr", "ParenExpr", "CStyleCastExpr", "ConstantExpr"):
        n = n["inner"][0]
    return n


def _collect(n, acc=None):
    acc = [] if acc is None else acc
    if isinstance(n, dict):
        acc.append(n)
        for c in n.get("inner", []) or []:
            _collect(c, acc)
    return acc


def r8_buffers(ctx):
    """allocation sizes, returned slice, calloc/free pairing (C), np.empty sizes (Python)"""
    S = _load(ctx)
    for nm in ("_rainflow1", "_rainflow2"):
        d = S.py[nm]
        # sizes and the returned prefix are decided semantically by C05-R4; here only the element types of the offset buffers
        if nm.endswith("2"):
            for arr in ("cycle_index", "os"):
                call = d["allocs"].get(arr)
                dt = None
                if call is not None:
                    dt = utext(call.args[1]) if len(call.args) > 1 else next((utext(k.value) for k in call.keywords if k.arg == "dtype"), None)
                ctx.check(dt in ("np.int64", "np.intp", "int"), f"py {nm}: {arr} holds integers ({dt})", d["fn"])
    for nm in ("rainflow1", "rainflow2"):
        d = S.c[nm]
        js = _collect(d["fdecl"])
        calls = {}
        for n in js:
            if n.get("kind") == "CallExpr":
                cal = _strip(n["inner"][0])
                nmc = (cal.get("referencedDecl") or {}).get("name")
                calls.setdefault(nmc, []).append(n)
        ncalloc = len(calls.get("calloc", []))
        nfree = len(calls.get("free", []))
        want = 1 if nm == "rainflow1" else 2
        ok = ncalloc == want and nfree == 2 * want
        ctx.check(ok, f"C {nm}: every calloc ({ncalloc}) is freed on both the normal and the fail exit ({nfree} frees)", _cwhere())
        # the cursor arrays are only ever advanced by the emissions (no other write through rf/os)
        pushes = sum(1 for s in R.walk_ir(d["region"]) if s[0] == "emit" and s[1] == "rf")
        ctx.check(pushes == 3, f"C {nm}: three emission sites write through the rf cursor", _cwhere(), nontrivial=False)
        for s in R.walk_ir(d["region"]):
            if s[0] == "emit":
                wantn = 3 if s[1] == "rf" else 2
                ctx.check(len(s[2]) == wantn, f"C {nm}: each emission advances the {s[1]} cursor by exactly one row ({wantn} stores)", _cwhere())


# ---------------------------------------------------------------------------
# R4: counter balance and buffer bounds by abstract interpretation (affine equalities + template inequalities)
def _py_aff(n):
    from .e8_karr import Aff, V
    if isinstance(n, ast.Constant) and isinstance(n.value, int):
        return Aff({}, n.value)
    if isinstance(n, ast.Name):
        return V(n.id)
    if isinstance(n, ast.BinOp) and isinstance(n.op, (ast.Add, ast.Sub)):
        a, b = _py_aff(n.left), _py_aff(n.right)
        if a is None or b is None:
            return None
        return a + b if isinstance(n.op, ast.Add) else a - b
    return None


def _py_capacities(d):
    """array name -> number of rows/entries it was allocated with (from the np.empty/np.zeros call)"""
    caps = {}
    for nm, call in d["allocs"].items():
        shape = call.args[0] if call.args else None
        if isinstance(shape, ast.Tuple):
            shape = shape.elts[0]
        a = _py_aff(shape) if shape is not None else None
        if a is None:
            raise Unsupported(f"allocation size of {nm} is not affine: {ast.unparse(call)}")
        caps[nm] = a
    return caps


def _py_slices(d):
    """[(array, stop Aff)] of the returned prefix slices; a stop given through a local (`ncycles = L - fullcyclesp1` after the loops) is resolved"""
    fn = d["fn"]
    loops = [i for i, st in enumerate(fn.body) if isinstance(st, (ast.For, ast.While))]
    after = {}
    for i, st in enumerate(fn.body):
        if isinstance(st, ast.Assign) and len(st.targets) == 1 and isinstance(st.targets[0], ast.Name):
            if loops and i > loops[-1]:
                a_ = _py_aff(st.value)
                if a_ is not None:
                    for k, v in after.items():
                        if k in a_.c:
                            a_ = a_.subs(k, v)
                    after[st.targets[0].id] = a_

    def stop_aff(node):
        a_ = _py_aff(node)
        if a_ is None:
            return None
        for k, v in after.items():
            if k in a_.c:
                a_ = a_.subs(k, v)
        return a_

    out = []
    for r in d["rets"]:
        vals = r.value.elts if isinstance(r.value, ast.Tuple) else [r.value]
        for v in vals:
            if isinstance(v, ast.Subscript) and isinstance(v.value, ast.Name) and isinstance(v.slice, ast.Slice) \
                    and v.slice.lower is None and v.slice.step is None and v.slice.upper is not None:
                sa = stop_aff(v.slice.upper)
                if sa is None:
                    raise Unsupported(f"returned slice stop {ast.unparse(v.slice.upper)} is not affine")
                out.append((v.value.id, sa))
            elif isinstance(v, ast.Name):
                out.append((v.id, None))     # whole array
            else:
                raise Unsupported(f"return value {ast.unparse(v)}")
    return out


def _c_capacities(d, low):
    """C: work buffers from `x = calloc(n, ...)`; output rows from `dims[2] = {rows, 3}` evaluated before the count loop"""
    from .e8_karr import aff_of_ir
    caps = {}
    body = low.body()["inner"]

    def find(n, pred, acc):
        if isinstance(n, dict):
            if pred(n):
                acc.append(n)
            for c in n.get("inner", []) or []:
                find(c, pred, acc)
        return acc
    for asg in find(d["fdecl"], lambda n: n.get("kind") == "BinaryOperator" and n.get("opcode") == "=", []):
        rhs = _strip(asg["inner"][1])
        if rhs.get("kind") == "CallExpr" and (_strip(rhs["inner"][0]).get("referencedDecl") or {}).get("name") == "calloc":
            lhs = _strip(asg["inner"][0])
            a = aff_of_ir(low.expr(rhs["inner"][1], []))
            if a is None:
                raise Unsupported("calloc size is not affine")
            caps[(lhs.get("referencedDecl") or {}).get("name")] = a
    # dims
    top_for = [i for i, s in enumerate(body) if s.get("kind") == "ForStmt"]
    dims_at = [i for i, s in enumerate(body) if find(s, lambda n: n.get("kind") == "VarDecl" and n.get("name") == "dims", [])]
    if len(dims_at) != 1 or not top_for:
        raise Unsupported("C: `dims` declaration not found at the top level of the function")
    il = find(body[dims_at[0]], lambda n: n.get("kind") == "InitListExpr", [])
    if not il:
        raise Unsupported("C: `dims` has no initialiser list")
    rows = aff_of_ir(low.expr(il[0]["inner"][0], []))
    if rows is None:
        raise Unsupported("C: dims[0] is not affine")
    if dims_at[0] > top_for[0]:
        raise Unsupported("C: the output array is sized after a top-level loop (the two-pass build is not modelled)")
    # stores into dims[0] after the declaration would change the row count
    for asg in find(d["fdecl"], lambda n: n.get("kind") == "BinaryOperator" and n.get("opcode") == "=", []):
        lhs = _strip(asg["inner"][0])
        if lhs.get("kind") == "ArraySubscriptExpr" and (_strip(lhs["inner"][0]).get("referencedDecl") or {}).get("name") == "dims":
            ix = _strip(lhs["inner"][1])
            if ix.get("value") != "1":
                raise Unsupported("C: dims[0] is reassigned")
    # evaluated with the scalar initial values (fullcyclesp1 == 1 at that point)
    for v, val in d["inits"].items():
        if v in rows.c:
            rows = rows.subs(v, val)
    caps["rf"] = rows
    caps["os"] = rows
    # returned slice
    slices = []
    stops = find(d["fdecl"], lambda n: n.get("kind") == "CallExpr" and
                 (_strip(n["inner"][0]).get("referencedDecl") or {}).get("name") == "PyLong_FromSsize_t", [])
    guards = find(d["fdecl"], lambda n: n.get("kind") == "IfStmt" and find(n, lambda m: m in stops, []), []) if stops else []
    stop = aff_of_ir(low.expr(stops[0]["inner"][1], [])) if stops else None
    guard = low.expr(guards[0]["inner"][0], []) if guards else None
    return caps, stop, guard


def r4_counter_balance(ctx):
    """for every input of length L >= 2: every pts/cycle_index/peaks access is within [0, L-1], every row written is below the capacity of
    the output arrays, rows == L - fullcyclesp1 on exit (the returned prefix is exactly the rows written), fullcyclesp1 - 1 == number of
    count-1 rows, and the counts sum to (L-1)/2.  Abstract interpretation (affine equalities + template inequalities) of the counter
    program extracted from the path effects of each implementation."""
    from .e8_karr import Aff, CounterAnalysis, State, V, aff_of_ir
    S = _load(ctx)
    impl = SEM.implementations(ctx, S)
    L = V("L")
    for (side, nm), a in impl.items():
        d = S.c[nm] if side == "C" else S.py[nm]
        where = a["where"]
        tag = f"{side} {nm}"
        if side == "C":
            caps, stop, guard = _c_capacities(d, d["low"])
            slices = None
        else:
            caps = _py_capacities(d)
            slices = _py_slices(d)
        arrays = {k: v for k, v in caps.items() if k not in ("rf", "os")}
        arrays["peaks"] = L          # C05-R7 checks that both entry points pass L = the length of the 1-D peaks array
        need = {"pts", "rf"} | ({"cycle_index", "os"} if a["offsets"] else set())
        if not need <= set(caps):
            ctx.error(f"{tag}: no allocation found for {sorted(need - set(caps))}", where)
            continue
        outs = [caps[k] for k in ("rf", "os") if k in need]
        try:
            prog = SEM.counter_program(a)
        except Unsupported as e:
            ctx.error(f"{tag}: counter program: {e}", where)
            continue
        ints = a["res"]["ints"]
        ixvars = sorted(v for v in ints if v != "L")
        results = []
        for cap in {repr(c): c for c in outs}.values():
            an = CounterAnalysis(arrays, ixvars, cap)
            st0 = State()
            for v, val in a["inits"].items():
                if v in ints and v != a["rowvar"] and val.denominator == 1:
                    st0.assign(v, Aff({}, val))
            st0.assign("rows", Aff({}, 0))
            st0.assign("fullrows", Aff({}, 0))
            st0.lb["L"] = 2                 # both entry points refuse L < 2 (C05-R7)
            try:
                ex, brk = an.block(prog, st0)
            except Unsupported as e:
                ctx.error(f"{tag}: abstract interpretation gave up: {e}", where)
                an = None
                break
            results.append((an, ex))
        if not results or an is None:
            continue
        seen = set()
        for an, ex in results:
            for desc, ok, strepr in an.obl:
                if (desc, ok) in seen:
                    continue
                seen.add((desc, ok))
                ctx.check(ok, f"{tag}: {desc}", where, None if ok else f"not derivable from the loop invariant {strepr}")
        an, ex = results[0]
        fcs = [v for v in a["state"] if v in ints and v not in ("L",) and a["inits"].get(v) == 1]
        if len(fcs) != 1:
            ctx.error(f"{tag}: the full-cycle counter (integer state variable initialised to 1) was not identified", where, sorted(fcs))
            continue
        fc = V(fcs[0])
        rows, full = V("rows"), V("fullrows")
        ok = ex.entails_eq(rows - (L - fc))
        ctx.check(ok, f"{tag}: on exit the number of rows written is exactly L - {fcs[0]}", where, None if ok else repr(ex))
        ok = ex.entails_eq(full - (fc - 1))
        ctx.check(ok, f"{tag}: {fcs[0]} - 1 is exactly the number of count-1 rows", where, None if ok else repr(ex))
        ok = ex.entails_eq(full + rows - (L - 1))
        ctx.check(ok, f"{tag}: 2 * sum(counts) = 2*full + half = L - 1 (every interval between successive points is counted once)", where,
                  None if ok else repr(ex))
        if side == "py":
            want = {"rf"} | ({"os"} if a["offsets"] else set())
            got = {x for x, _ in slices}
            ctx.check(got == want, f"{tag}: returns {sorted(want)}", where, sorted(got))
            for arr, stp in slices:
                if stp is None:
                    ok = ex.entails_eq(rows - caps[arr])
                    ctx.check(ok, f"{tag}: {arr} is returned whole and is full (rows == capacity)", where, None if ok else repr(ex))
                else:
                    ok = ex.entails_eq(rows - stp)
                    ctx.check(ok, f"{tag}: the returned slice {arr}[:{stp}] is exactly the rows written", where, None if ok else repr(ex))
        else:
            if stop is None:
                ok = ex.entails_eq(rows - caps["rf"])
                ctx.check(ok, f"{tag}: the output is returned whole and is full", where, None if ok else repr(ex))
            else:
                t, f = (ex.copy(), State(bottom=True))
                if guard is not None and guard[0] == "cmp":
                    ga, gb = aff_of_ir(guard[2]), aff_of_ir(guard[3])
                    if ga is not None and gb is not None:
                        t, f = an.guard(("cmpaff", guard[1], ga - gb), ex)
                        neg = {">": gb - ga, ">=": gb - ga - 1, "<": ga - gb, "<=": ga - gb - 1}.get(guard[1])
                        if neg is not None:
                            f.assume_nonneg(neg)
                ok = t.bottom or t.entails_eq(rows - stop)
                ctx.check(ok, f"{tag}: when {R.fmt_expr(guard) if guard else 'always'}, the returned slice [:{stop}] is exactly the rows written", where,
                          None if ok else repr(t))
                ok = f.bottom or f.entails_eq(rows - caps["rf"])
                ctx.check(ok, f"{tag}: otherwise the whole output is returned and it is full (rows == {caps['rf']})", where, None if ok else repr(f))


RULES = [
    ("C05-R1", r1_equivalence, 8),
    ("C05-R2", r2_erasure, 2),
    ("C05-R3", r3_astm, 4),
    ("C05-R4", r4_counter_balance, 150),
    ("C05-R5", r5_lockstep, 12),
    ("C05-R6", r6_value_flow, 40),
    ("C05-R7", r7_selection, 10),
    ("C05-R8", r8_buffers, 10),
    ("C05-R9", r9_wrapper_transparency, 16),
]
LEVEL = "translation_validation"
TRUSTED = ["clang-14 front end (parser/preprocessor of c_rain.c, -ast-dump=json)", "CPython ast", "verifier/e7_rainir.py lowering",
           "IEEE-754 evaluation of identical expression trees by the C compiler and CPython/numba"]
EXPLANATION = ("Static translation validation between the two rainflow implementations: both are lowered (clang JSON AST / Python ast) to one "
               "small IR and compared structurally; each is compared with a transcription of ASTM E1049-85 5.4.4; offsets are in lock-step with "
               "values; data reaches control flow only through |p-q| < |r-s|; an abstract interpretation (affine equalities + template inequalities, "
               "verifier/e8_karr.py) proves every buffer index in range, every emitted row below capacity, rows == L - fullcyclesp1 == the returned "
               "prefix and 2*sum(counts) == L-1; calloc/free pairing.")
MANIFEST = {
    "text": "Decided statically for all inputs of length >= 2: the C and Python counting loops are the same transition system with identical expression "
            "trees (IR isomorphism), rainflow1 is rainflow2 with offsets erased, both equal the ASTM E1049-85 three-point stack automaton, every value move "
            "is mirrored by its index move and every emitted offset pair names the two points whose range is counted, data influences control only through "
            "|p-q| < |r-s| (hence negation/shift/positive scaling act 'in the obvious way'), both entry points refuse L < 2 and dispatch identically, "
            "and (C05-R4, abstract interpretation of the shared IR with Karr's affine-equality domain plus template inequalities) for every L >= 2 every "
            "pts/cycle_index/peaks index lies in [0, L-1], every emitted row is below the allocated capacity, on exit rows == L - fullcyclesp1 which is "
            "exactly the returned prefix, fullcyclesp1 - 1 is the number of count-1 rows and the counts sum to (L-1)/2; (C05-R9) on every syntactic path the public "
            "wrapper cyclecount.rainflow hands the caller's sequence itself to the bound implementation and returns its tables unchanged. Not decided: numba's compilation, bit-level FP of the two compilers.",
    "note": "Trusted: clang-14 as parser of c_rain.c with the build's include paths; CPython ast; IEEE conformance of both compilers on identical expression trees.",
    "technique": "static translation validation: clang JSON AST and Python AST lowered to a common IR, structural isomorphism + comparison with an ASTM E1049 reference automaton; abstract interpretation (Karr affine equalities + template inequalities) for counter balance and buffer bounds",
}
