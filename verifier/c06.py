"""C06 -- Craig-Bampton utilities (thin partial claim)."""
from __future__ import annotations

import ast
from fractions import Fraction

from . import e2_formula as F
from .core import AnchorError, Unsupported
from .e1_srcmodel import dotted, walk_no_nested, parent, ancestors, utext
from .e2_eval import Evaluator, is_unknown, need, const_from_node
from .e3_spaces import Arr, Idx, Ix, Typer

CB = "pyyeti/cb.py"
N2P = "pyyeti/nastran/n2p.py"


def r1_cbtf(ctx):
    fn = ctx.src.func(CB, "cbtf")
    # --- b/q partition typing
    attrs = {}
    params = {"m": Arr("T", "T"), "b": Arr("T", "T"), "k": Arr("T", "T"), "a": Arr("B", None), "bset": Idx("T", "B"), "qset": Idx("T", "Q"),
              "sol.d": Arr("Q", None), "sol.a": Arr("Q", None), "sol.v": Arr("Q", None)}
    bad = {}

    def report(kind, node, detail):
        bad.setdefault(id(node), []).append((kind, node, detail))

    T = Typer(attrs, params, set(), report, "cbtf")
    body = [s for s in fn.body]
    # displ / accel are allocated with lt = m.shape[0] rows: full space
    T.env.update({"displ": Arr("T", None), "accel": Arr("T", None), "veloc": Arr("T", None), "v": Arr("B", None)})
    arm = [s for s in fn.body if isinstance(s, ast.If) and ast.unparse(s.test).replace(" ", "") == "qset.size==0"]
    if len(arm) != 1:
        raise AnchorError("cbtf: `if qset.size == 0`")
    keep = {"displ", "accel", "veloc", "v", "tf", "sol"}
    stmts = [s for s in arm[0].orelse if not (isinstance(s, ast.Assign) and isinstance(s.targets[0], ast.Name) and s.targets[0].id in ("displ", "accel", "v", "tf"))]
    T.run(stmts)
    seen = set()
    for lst in bad.values():
        for kind, node, detail in lst:
            key = f"C06-R1|cbtf|{kind}|{ast.unparse(node)[:80]}"
            if key in seen:
                continue
            seen.add(key)
            ctx.fail(f"cbtf: {kind}", node, detail, key=key)
    for node in T.checked:
        if id(node) not in bad:
            ctx.ok(f"cbtf: `{ast.unparse(node)[:70]}` boundary / interior index spaces agree", node)
    t = utext(fn)
    ok = "qset=locate.flippv(bset,lt)" in t and "lt=m.shape[0]" in t
    ctx.check(ok, "cbtf: the interior set is the complement of the boundary set in the full equation set", fn)
    # --- the enforced boundary acceleration is returned exactly, the interior acceleration comes from the solver
    stores = {ast.unparse(s.targets[0]).replace(" ", ""): ast.unparse(s.value).replace(" ", "") for s in ast.walk(arm[0])
              if isinstance(s, ast.Assign) and isinstance(s.targets[0], ast.Subscript)}
    ok = stores.get("accel[bset]") == "a" and stores.get("accel[qset]") == "sol.a"
    ctx.check(ok, "cbtf: the returned boundary acceleration is the enforced one at every frequency (including 0 Hz, where it cannot be derived from the "
                  "displacement) and the interior acceleration is the solver's", arm[0], {k: v for k, v in stores.items() if k.startswith("accel")})
    ok = stores.get("displ[qset]") == "sol.d" and stores.get("displ[np.ix_(bset,pvnz)]") == "-a[:,pvnz]/Omega[pvnz]**2"
    ctx.check(ok, "cbtf: boundary displacement = -a/W^2 at non-zero frequencies only, interior displacement from the solver", arm[0])
    # --- q-set equation of motion:  Mqq q'' + Bqq q' + Kqq q = -(Mqb a + Bqb v_b),  v_b = a/(i W)
    A, W = F.sym("A"), F.sym("W")
    Mqb, Bqb = F.sym("Mqb"), F.sym("Bqb")

    def sub(node, ev):
        tt = utext(node)
        return {"a[:,pvnz]": A, "Omega[pvnz]": W, "b[qb]": Bqb, "m[qb]": Mqb}.get(tt, NotImplemented)

    ev = Evaluator(env={"a": A}, src=ctx.src, subscript=sub, store_accept=lambda b_, i, st: b_ == "v",
                   call=lambda node, ev: (F.const(0) if dotted(node.func) == "np.zeros" else NotImplemented))
    for s in arm[0].orelse:
        if isinstance(s, ast.Assign) and ast.unparse(s.targets[0]).replace(" ", "") in ("v", "v[:,pvnz]", "f"):
            ev.stmt(s)
    f = ev.env.get("f")
    want = -(Mqb * A + Bqb * (A / (F.I * W)))
    ok = f is not None and not is_unknown(f) and f.equals(want)
    ctx.check(ok, "cbtf: interior load is -(Mqb a + Bqb a/(i W)) - the coupling terms of the full equations of motion moved to the right-hand side", arm[0],
              None if ok else repr(f))
    # --- boundary force: rows bset of M a + B v + K d (K_bq = 0 for a Craig-Bampton stiffness)
    ok = "frc=m[bset]@accel+b[bset]@veloc+k[bb]@displ[bset]" in t
    ctx.check(ok, "cbtf: boundary force = boundary rows of M a + B v + K d", arm[0])
    ok = "veloc=1j*(Omega*displ)" in t
    ctx.check(ok, "cbtf: velocity = i W displacement on every row", fn)
    # --- the fixed-base interior system has no rigid-body modes
    calls = [c for c in ast.walk(fn) if isinstance(c, ast.Call) and dotted(c.func) == "ode.SolveUnc"]
    ok = len(calls) == 1 and [utext(a) for a in calls[0].args] == ["m[qq]", "b[qq]", "k[qq]"] and \
        any(k.arg == "rb" and ast.unparse(k.value) == "[]" for k in calls[0].keywords)
    ctx.check(ok, "cbtf: the interior (fixed-boundary) system is solved with rb=[] - no mode may be treated as rigid-body (the default would auto-detect "
                  "soft fixed-base modes and ignore their stiffness and damping)", calls[0] if calls else fn)
    ok = "tf=save['tf']" in t and "save['tf']=tf" in t
    ctx.check(ok, "cbtf: the cached solver is the one built from (m[qq], b[qq], k[qq])", fn, nontrivial=False)


def r2_conversion(ctx):
    fn = ctx.src.func(CB, "_get_conv_factors")
    vals = {}
    for st in ast.walk(fn):
        if isinstance(st, ast.If) and isinstance(st.test, ast.Compare) and isinstance(st.test.comparators[0], ast.Constant):
            name = st.test.comparators[0].value
            d = {}
            for s in st.body:
                if isinstance(s, ast.Assign):
                    d[ast.unparse(s.targets[0])] = s.value
            vals[name] = d
    if set(vals) != {"m2e", "e2m"}:
        raise AnchorError("_get_conv_factors: m2e / e2m arms")

    def exact(node):
        ev = Evaluator(env={}, src=ctx.src)
        v = ev.ev(node)
        return need(v).const_value()

    for q in ("lengthconv", "massconv"):
        a, b = exact(vals["m2e"][q]), exact(vals["e2m"][q])
        err = abs(a * b - 1)
        ok = err <= Fraction(1, 2 ** 51)
        ctx.check(ok, f"_get_conv_factors: the {q} of m2e and e2m are reciprocals (product within 2^-51 of 1)", fn, {"product - 1": float(err)})
    # cbconvert factors
    fn = ctx.src.func(CB, "cbconvert")
    L, mc = F.sym("L"), F.sym("mc")
    ev = Evaluator(env={"lengthconv": L, "massconv": mc}, src=ctx.src,
                   cond=lambda t_, ev: True if utext(t_) == "lq>0" else None,
                   call=lambda node, ev: (F.const(1) if dotted(node.func) == "np.ones" else NotImplemented))
    for s in fn.body:
        if isinstance(s, ast.Assign) and ast.unparse(s.targets[0]).replace(" ", "") in ("C", "D", "C[b[trn]]", "D[b[trn]]", "D[b[rot]]", "c", "C[q]", "D[q]"):
            ev.stmt(s)
        if isinstance(s, ast.If) and ast.unparse(s.test).replace(" ", "") == "lq>0":
            for s2 in s.body:
                if isinstance(s2, ast.Assign):
                    ev.stmt(s2)
    st = {(b_, i.replace(" ", "")): v for b_, i, v, s_ in ev.stores}
    want = {("C", "b[trn]"): 1 / L, ("D", "b[trn]"): mc * L, ("D", "b[rot]"): mc * L * L}
    for k_, w in want.items():
        v = st.get(k_)
        ok = v is not None and not is_unknown(v) and v.equals(w)
        ctx.check(ok, f"cbconvert: {k_[0]}[{k_[1]}] = {w} (C converts displacements OUT->IN, D converts forces IN->OUT)", fn, None if ok else repr(v))
    cq, dq = st.get(("C", "q")), st.get(("D", "q"))
    ok = cq is not None and dq is not None and not is_unknown(cq) and not is_unknown(dq) and (cq * dq).equals(1) and (dq * dq).equals(mc * L * L)
    ctx.check(ok, "cbconvert: modal DOF are scaled by sqrt(massconv) * lengthconv and its reciprocal (C D = 1 on the q-set)", fn)
    # e2m after m2e is the identity on every block: factors with (1/L, 1/mc) are the reciprocals
    inv = {"L": 1 / L, "mc": 1 / mc}
    ok = all((w * w.subs(inv)).equals(1) for w in want.values()) and cq is not None and (cq * cq.subs(inv) * cq * cq.subs(inv)).equals(1)
    ctx.check(ok, "cbconvert: converting with the reciprocal factors undoes the conversion on translations, rotations and modal DOF", fn)
    t = utext(fn)
    ok = "M=ytools.multmd(M,C)" in t and "ifnotdrm:M=ytools.multmd(D,M)" in t.replace("\n", "") and "trn=ytools.mkpattvec([0,1,2],lb,6).ravel()" in t and "rot=trn+3" in t
    ctx.check(ok, "cbconvert: C scales the columns, D the rows (rows only for square matrices); translations are DOF 1-3 and rotations DOF 4-6 of each boundary grid", fn)
    # uset_convert: exactly the rows that hold lengths
    fn = ctx.src.func(CB, "uset_convert")
    ks = []
    pvk = None
    for s in fn.body:
        if isinstance(s, ast.Assign) and ast.unparse(s.targets[0]) == "pv" and isinstance(s.value, ast.Compare) and ast.unparse(s.value.left) == "dof":
            pvk = ast.literal_eval(s.value.comparators[0])
        if isinstance(s, ast.AugAssign) and ast.unparse(s.target).replace(" ", "") == "uset.iloc[pv,1:]" and isinstance(s.op, ast.Mult) \
                and ast.unparse(s.value) == "lengthconv":
            ks.append(pvk)
    ok = sorted(ks) == [1, 3]
    ctx.check(ok, "uset_convert: the length factor is applied to exactly the rows that hold lengths - row 1 (grid location) and row 3 (origin of the grid's "
                  "output coordinate system); row 2 holds ids and rows 4-6 direction cosines", fn, ks)
    rb = ctx.src.func(N2P, "rbgeom_uset")
    ok = utext(rb).count("loc2=t@(loc-uset.iloc[i+2,1:]).values") == 2
    ctx.check(ok, "rbgeom_uset (sibling witness): the location (row 1) and the origin (row 3) of a grid are subtracted from each other, so they must share units", rb)
    ok = "lengthconv=_get_conv_factors(conv)[0]" in utext(fn) and "uset=uset.copy()" in utext(fn)
    ctx.check(ok, "uset_convert: works on a copy with the length factor of the requested conversion", fn, nontrivial=False)


def r3_reorder(ctx):
    fn = ctx.src.func(CB, "cbreorder")
    n = 0
    for sub in ast.walk(fn):
        if isinstance(sub, ast.Subscript) and ast.unparse(sub.value) == "M":
            s = sub.slice
            if isinstance(s, ast.Call) and dotted(s.func) == "np.ix_":
                n += 1
                a = [ast.unparse(x) for x in s.args]
                ok = len(a) == 2 and a[0] == a[1]
                ctx.check(ok, f"cbreorder: `{ast.unparse(sub)}` permutes rows and columns by the same vector (a symmetric permutation)", sub)
            elif isinstance(s, ast.Tuple):
                n += 1
                ok = ast.unparse(s.elts[0]) == ":" or (isinstance(s.elts[0], ast.Slice) and s.elts[0].lower is None)
                doms = [ast.unparse(a.test) for a in ancestors(sub) if isinstance(a, ast.If) and any(sub is y for x in a.body for y in ast.walk(x))]
                ctx.check(ok and "drm" in doms, f"cbreorder: `{ast.unparse(sub)}` permutes columns only, and only for a data recovery matrix", sub)
    ctx.check(n == 4, "cbreorder: four reordering sites", fn, n, nontrivial=False)
    t = utext(fn)
    ok = "q=locate.flippv(b,lt)" in t and "iflast:pv=np.hstack((q,b))else:pv=np.hstack((b,q))" in t.replace("\n", "")
    ctx.check(ok, "cbreorder: the new order is (b, q) or (q, b) with q the complement of b", fn)


RULES = [
    ("C06-R1", r1_cbtf, 14),
    ("C06-R2", r2_conversion, 11),
    ("C06-R3", r3_reorder, 5),
]
LEVEL = "other"
EXPLANATION = ("Static: cbtf uses the boundary/interior partitions consistently (index-space typing), returns the enforced boundary acceleration itself, loads the "
               "interior equations with the coupling terms of the full equations, solves them with no rigid-body set; unit-conversion constants are exact "
               "reciprocals and applied on the documented sides and rows; cbreorder permutes symmetrically.")
MANIFEST = {
    "text": "Thin partial claim decided statically: (R1) cbtf partition typing, enforced boundary acceleration, interior right-hand side, boundary force rows, rb=[]; "
            "(R2) m2e/e2m constants reciprocal to 2^-51, cbconvert C/D diagonals per block and their inverses, uset_convert scales exactly the length rows; "
            "(R3) cbreorder's symmetric permutation. Not decided: cbcheck's rigid-body, effective-mass and grounding numbers, cgmass, numerical accuracy of cbtf.",
    "note": "Trusted: CPython ast; verifier/e2_formula.py, verifier/e3_spaces.py; the USET row layout documented in n2p.addgrid (row 1 location, row 2 ids, row 3 origin, rows 4-6 T).",
    "technique": "static index-space typing + symbolic factor checks + structural who-passes-what rules",
}
