"""C06 -- Craig-Bampton utilities (thin partial claim)."""
from __future__ import annotations

import ast
from fractions import Fraction

from . import e2_formula as F
from .core import AnchorError, Unsupported
from .e1_srcmodel import dotted, walk_no_nested, parent, ancestors, utext
from .e2_eval import Evaluator, is_unknown, need, const_from_node
from .e3_spaces import Arr, Idx, Ix, Typer

CB = "pyyeti/cb.py"
N2P = "pyyeti/nastran/n2p.py"


def r1_cbtf(ctx):
    fn = ctx.src.func(CB, "cbtf")
    # --- b/q partition typing
    attrs = {}
    params = {"m": Arr("T", "T"), "b": Arr("T", "T"), "k": Arr("T", "T"), "a": Arr("B", None), "bset": Idx("T", "B"), "qset": Idx("T", "Q"),
              "sol.d": Arr("Q", None), "sol.a": Arr("Q", None), "sol.v": Arr("Q", None)}
    bad = {}

    def report(kind, node, detail):
        bad.setdefault(id(node), []).append((kind, node, detail))

    T = Typer(attrs, params, set(), report, "cbtf")
    body = [s for s in fn.body]
    # displ / accel are allocated with lt = m.shape[0] rows: full space
    T.env.update({"displ": Arr("T", None), "accel": Arr("T", None), "veloc": Arr("T", None), "v": Arr("B", None)})
    arm = [s for s in fn.body if isinstance(s, ast.If) and ast.unparse(s.test).replace(" ", "") == "qset.size==0"]
    if len(arm) != 1:
        raise AnchorError("cbtf: `if qset.size == 0`")
    keep = {"displ", "accel", "veloc", "v", "tf", "sol"}
    stmts = [s for s in arm[0].orelse if not (isinstance(s, ast.Assign) and isinstance(s.targets[0], ast.Name) and s.targets[0].id in ("displ", "accel", "v", "tf"))]
    T.run(stmts)
    seen = set()
    for lst in bad.values():
        for kind, node, detail in lst:
            key = f"C06-R1|cbtf|{kind}|{ast.unparse(node)[:80]}"
            if key in seen:
                continue
            seen.add(key)
            ctx.fail(f"cbtf: {kind}", node, detail, key=key)
    for node in T.checked:
        if id(node) not in bad:
            ctx.ok(f"cbtf: `{ast.unparse(node)[:70]}` boundary / interior index spaces agree", node)
    # --- everything below is decided on formulas: the function body is evaluated on symbols (AutoEvaluator), temporaries substituted
    from .e2_eval import AutoEvaluator

    def cond(test, ev):
        # the interior set is not empty; the solver is not cached (the arm that builds it is the one to look at)
        return {"qset.size==0": False, "tfisNone": True, "isinstance(save,abc.MutableMapping)": False}.get(utext(test))

    ev = AutoEvaluator(fn, src=ctx.src, cond=cond, pinned={"a": F.sym("a")})
    ev.decide_default = None
    # the cache test `save is None or 'tf' not in save` may go either way: evaluate the arm that builds the solver
    for st in fn.body:
        ev.stmt(st)
    E = ev.expr

    def same(got, want_text):
        w = E(want_text)
        return got is not None and not is_unknown(got) and not is_unknown(w) and not isinstance(got, tuple) and need(got).equals(need(w))

    ok = same(ev.env.get("qset"), "locate.flippv(bset, m.shape[0])")
    ctx.check(ok, "cbtf: the interior set is the complement of the boundary set in the full equation set", fn, repr(ev.env.get("qset")))
    cells = {}
    for nm, ix, val, st in ev.cells:
        cells.setdefault(nm, []).append((ix, val, st))

    def cell(nm, index_text):
        w = E(f"{nm}[{index_text}]")          # idx(nm, index) atom; compare index parts
        for ix, val, st in cells.get(nm, []):
            if not is_unknown(ix) and need(F.fn("idx", F.sym(nm), ix)).equals(need(w)):
                return val
        return None

    nz = "Omega != 0.0"
    ok = same(cell("accel", "bset"), "a") and same(cell("accel", "qset"), "sol.a")
    ctx.check(ok, "cbtf: the returned boundary acceleration is the enforced one at every frequency (including 0 Hz, where it cannot be derived from the "
                  "displacement) and the interior acceleration is the solver's", arm[0], {"accel[bset]": repr(cell("accel", "bset")), "accel[qset]": repr(cell("accel", "qset"))})
    ok = same(cell("displ", "qset"), "sol.d") and same(cell("displ", f"np.ix_(bset, {nz})"), f"-a[:, {nz}] / Omega[{nz}] ** 2")
    ctx.check(ok, "cbtf: boundary displacement = -a/W^2 at non-zero frequencies only, interior displacement from the solver", arm[0],
              {"displ[qset]": repr(cell("displ", "qset")), "displ[bset, nz]": repr(cell("displ", f"np.ix_(bset, {nz})"))})
    # --- q-set equation of motion:  Mqq q'' + Bqq q' + Kqq q = -(Mqb a + Bqb v_b),  v_b = a/(i W) at non-zero frequencies, 0 at 0 Hz
    ok = same(cell("v", f":, {nz}"), f"1j * a[:, {nz}] / Omega[{nz}]")
    vinit = ev.env.get("<init:v>")
    ok = ok and vinit is not None and not is_unknown(vinit) and need(vinit).is_zero()
    ctx.check(ok, "cbtf: the boundary term v is i a / W (minus the boundary velocity a/(i W)) at non-zero frequencies and zero at 0 Hz", arm[0],
              repr(cell("v", f":, {nz}")))
    ok = same(ev.env.get("f"), "b[np.ix_(locate.flippv(bset, m.shape[0]), bset)] @ v - m[np.ix_(locate.flippv(bset, m.shape[0]), bset)] @ a")
    ctx.check(ok, "cbtf: interior load is Bqb v - Mqb a with v = i a / W, i.e. -(Mqb a + Bqb a/(i W)) - the coupling terms of the full equations of "
                  "motion moved to the right-hand side", arm[0], repr(ev.env.get("f")))
    # --- boundary force: rows bset of M a + B v + K d (K_bq = 0 for a Craig-Bampton stiffness)
    ok = same(ev.env.get("frc"), "m[bset] @ accel + b[bset] @ veloc_ + k[np.ix_(bset, bset)] @ displ[bset]".replace("veloc_", "(1j * (Omega * displ))"))
    ctx.check(ok, "cbtf: boundary force = boundary rows of M a + B v + K d with v = i W d", arm[0], repr(ev.env.get("frc")))
    ok = same(ev.env.get("veloc"), "1j * (Omega * displ)")
    ctx.check(ok, "cbtf: velocity = i W displacement on every row", fn, repr(ev.env.get("veloc")))
    # --- the fixed-base interior system has no rigid-body modes
    calls = [c for c in ast.walk(fn) if isinstance(c, ast.Call) and dotted(c.func) == "ode.SolveUnc"]
    qq = "np.ix_(locate.flippv(bset, m.shape[0]), locate.flippv(bset, m.shape[0]))"
    ok = len(calls) == 1 and len(calls[0].args) == 3 and all(same(ev.ev(x), f"{mat}[{qq}]") for x, mat in zip(calls[0].args, "mbk")) and \
        any(k.arg == "rb" and utext(k.value) in ("[]", "()") for k in calls[0].keywords)
    ctx.check(ok, "cbtf: the interior (fixed-boundary) system is solved with rb=[] - no mode may be treated as rigid-body (the default would auto-detect "
                  "soft fixed-base modes and ignore their stiffness and damping)", calls[0] if calls else fn)
    t = utext(fn)
    ok = "tf=save['tf']" in t and "save['tf']=tf" in t
    ctx.check(ok, "cbtf: the cached solver is the one built from (m[qq], b[qq], k[qq])", fn, nontrivial=False)


def _returns_under(ctx, fn, truth):
    """values returned by `fn` on the paths selected by the oracle `truth` (tests it does not know fork); AutoEvaluator per path"""
    from .e2_eval import AutoEvaluator
    from .paths import flag_paths
    out = []
    for trace, end in flag_paths(fn.body, truth):
        if not isinstance(end, ast.Return) or end.value is None:
            continue
        ev = AutoEvaluator(fn, src=ctx.src)
        for st in trace:
            ev.stmt(st)
        out.append((ev.ev(end.value), end, ev))
    return out


def r2_conversion(ctx):
    """unit conversion: the m2e and e2m constants are reciprocals; cbconvert scales translations, rotations and modal DOF by the documented factors
    (C on the columns, D on the rows) and the reciprocal factors undo it; uset_convert scales exactly the rows that hold lengths"""
    from .e2_eval import AutoEvaluator
    fn = ctx.src.func(CB, "_get_conv_factors")
    vals = {}
    for name in ("m2e", "e2m"):
        def truth(test, name=name):
            t = utext(test)
            if t.startswith("conv==") and isinstance(test, ast.Compare) and isinstance(test.comparators[0], ast.Constant):
                return test.comparators[0].value == name
            return None
        rets = _returns_under(ctx, fn, truth)
        if len(rets) != 1 or not isinstance(rets[0][0], tuple) or len(rets[0][0]) != 2 or any(is_unknown(x) for x in rets[0][0]):
            ctx.error(f"_get_conv_factors('{name}'): the returned (lengthconv, massconv) pair was not lowered", fn, repr(rets[0][0]) if rets else None)
            return
        vals[name] = [need(x) for x in rets[0][0]]
    for i, q in enumerate(("lengthconv", "massconv")):
        a_, b_ = vals["m2e"][i], vals["e2m"][i]
        if not (a_.is_const() and b_.is_const()):
            ctx.error(f"_get_conv_factors: {q} is not a literal constant", fn)
            continue
        err = abs(a_.const_value() * b_.const_value() - 1)
        ok = err <= Fraction(1, 2 ** 51)
        ctx.check(ok, f"_get_conv_factors: the {q} of m2e and e2m are reciprocals (product within 2^-51 of 1)", fn, {"product - 1": float(err)})
    # a user-supplied pair is passed through
    rets = _returns_under(ctx, fn, lambda test: False if utext(test).startswith("conv==") else None)
    ok = len(rets) == 1 and isinstance(rets[0][0], tuple) and len(rets[0][0]) == 2
    ctx.check(ok, "_get_conv_factors: any other `conv` is taken as the (lengthconv, massconv) pair itself", fn, nontrivial=False)
    # cbconvert factors
    fn = ctx.src.func(CB, "cbconvert")
    L, mc = F.sym("L"), F.sym("mc")

    def call(node, ev):
        d = dotted(node.func)
        if d == "_get_conv_factors":
            return (L, mc)
        if d == "math.sqrt":
            v = ev.ev(node.args[0])
            return v if is_unknown(v) else F.sqrt(need(v))
        return NotImplemented

    ev = AutoEvaluator(fn, src=ctx.src, call=call, cond=lambda t_, ev: {"lq>0": True, "drm": False}.get(utext(t_)),
                       pinned={"b": F.sym("b"), "M": F.sym("M")})
    ev.run(fn.body)
    E = ev.expr
    cells = [(nm, ix, val) for nm, ix, val, st in ev.cells]

    def cell(nm, index_text):
        w = E(f"{nm}[{index_text}]")
        for n2, ix, val in cells:
            if n2 == nm and not is_unknown(ix) and not is_unknown(w) and need(F.fn("idx", F.sym(nm), ix)).equals(need(w)):
                return val
        return None
    trn = "b[ytools.mkpattvec([0, 1, 2], len(b), 6).ravel()]"
    rot = "b[ytools.mkpattvec([0, 1, 2], len(b), 6).ravel() + 3]"
    qset = "locate.flippv(b, np.size(M, 1))"
    want = {("C", trn, "translations"): 1 / L, ("D", trn, "translations"): mc * L, ("D", rot, "rotations"): mc * L * L}
    for (nm, ixt, what), w in want.items():
        v = cell(nm, ixt)
        ok = v is not None and not is_unknown(v) and need(v).equals(w)
        ctx.check(ok, f"cbconvert: {nm} on the boundary {what} (DOF {'1-3' if what == 'translations' else '4-6'} of each boundary grid) = {w} "
                      "(C converts displacements OUT->IN, D converts forces IN->OUT)", fn, None if ok else repr(v))
    crot = cell("C", rot)
    ctx.check(crot is None, "cbconvert: C leaves the boundary rotations alone (rotations are dimensionless)", fn, repr(crot), nontrivial=False)
    cq, dq = cell("C", qset), cell("D", qset)
    ok = cq is not None and dq is not None and not is_unknown(cq) and not is_unknown(dq) and (need(cq) * need(dq)).equals(1) and (need(dq) * need(dq)).equals(mc * L * L)
    ctx.check(ok, "cbconvert: modal DOF are scaled by sqrt(massconv) * lengthconv and its reciprocal (C D = 1 on the q-set)", fn,
              None if ok else {"C[q]": repr(cq), "D[q]": repr(dq)})
    inv = {"L": 1 / L, "mc": 1 / mc}
    ok = all((w * w.subs(inv)).equals(1) for w in want.values()) and cq is not None and not is_unknown(cq) and \
        (need(cq) * need(cq).subs(inv) * need(cq) * need(cq).subs(inv)).equals(1)
    ctx.check(ok, "cbconvert: converting with the reciprocal factors undoes the conversion on translations, rotations and modal DOF", fn)
    for nm in ("C", "D"):
        ini = ev.env.get(f"<init:{nm}>")
        ok = ini is not None and not is_unknown(ini) and need(ini).equals(need(E("np.ones(np.size(M, 1))")))
        ctx.check(ok, f"cbconvert: {nm} starts as ones over all np.size(M, 1) DOF", fn, repr(ini), nontrivial=False)
    # M <- D M C (rows only for square matrices): evaluate the returned value for drm False / True
    for drm in (False, True):
        ev2 = AutoEvaluator(fn, src=ctx.src, call=call, cond=lambda t_, ev, drm=drm: {"lq>0": True, "drm": drm}.get(utext(t_)), pinned={"b": F.sym("b"), "M": F.sym("M")})
        # M is rebound (M = multmd(M, C)): follow the rebinding chain explicitly
        val = F.sym("M")
        chain = []
        for st in fn.body:
            if isinstance(st, ast.If) and utext(st.test) in ("notdrm", "drm"):
                take = st.body if (utext(st.test) == "notdrm") == (not drm) else st.orelse
                chain.extend(take)
            else:
                chain.append(st)
        for st in chain:
            if isinstance(st, ast.Assign) and utext(st.targets[0]) == "M" and isinstance(st.value, ast.Call) and dotted(st.value.func) == "ytools.multmd":
                a0, a1 = [utext(x) for x in st.value.args]
                val = F.fn("multmd", F.sym(a0) if a0 != "M" else val, F.sym(a1) if a1 != "M" else val)
        want_v = F.fn("multmd", F.sym("M"), F.sym("C")) if drm else F.fn("multmd", F.sym("D"), F.fn("multmd", F.sym("M"), F.sym("C")))
        ok = val.equals(want_v)
        ctx.check(ok, f"cbconvert (drm={drm}): the result is {'M C (columns only: a recovery matrix maps displacements)' if drm else 'D M C'}", fn, repr(val))
    # uset_convert: exactly the rows that hold lengths
    fn = ctx.src.func(CB, "uset_convert")
    ks = []
    pvk = None
    for s_ in fn.body:
        if isinstance(s_, ast.Assign) and ast.unparse(s_.targets[0]) == "pv" and isinstance(s_.value, ast.Compare) and ast.unparse(s_.value.left) == "dof":
            pvk = ast.literal_eval(s_.value.comparators[0])
        if isinstance(s_, ast.AugAssign) and ast.unparse(s_.target).replace(" ", "") == "uset.iloc[pv,1:]" and isinstance(s_.op, ast.Mult) \
                and ast.unparse(s_.value) == "lengthconv":
            ks.append(pvk)
    ok = sorted(ks) == [1, 3]
    ctx.check(ok, "uset_convert: the length factor is applied to exactly the rows that hold lengths - row 1 (grid location) and row 3 (origin of the grid's "
                  "output coordinate system); row 2 holds ids and rows 4-6 direction cosines", fn, ks)
    rb = ctx.src.func(N2P, "rbgeom_uset")
    ok = utext(rb).count("loc2=t@(loc-uset.iloc[i+2,1:]).values") == 2
    ctx.check(ok, "rbgeom_uset (sibling witness): the location (row 1) and the origin (row 3) of a grid are subtracted from each other, so they must share units", rb)
    # lengthconv is the first element of _get_conv_factors(conv): `x = f(conv)[0]` or `x, _ = f(conv)`
    ev3 = AutoEvaluator(fn, src=ctx.src, call=lambda node, ev: ((F.sym("LC"), F.sym("MC")) if dotted(node.func) == "_get_conv_factors" else NotImplemented))
    for st in fn.body:
        if isinstance(st, ast.Assign):
            ev3.stmt(st)
    lc = ev3.env.get("lengthconv")
    ok = lc is not None and not is_unknown(lc) and not isinstance(lc, tuple) and need(lc).equals(F.sym("LC"))
    cp = ev3.env.get("uset")
    ok2 = cp is not None and not is_unknown(cp) and need(cp).equals(need(ev3.expr("uset_.copy()".replace("uset_", "uset"))))
    ctx.check(ok, "uset_convert: uses the length factor (first element) of the requested conversion", fn, repr(lc), nontrivial=False)


def r3_reorder(ctx):
    from .e2_eval import AutoEvaluator
    """cbreorder: square matrices are permuted symmetrically (rows and columns by the same vector), recovery matrices by columns only, and the
    vector is (b, q) or (q, b) with q the complement of b - on every path through the function"""
    fn = ctx.src.func(CB, "cbreorder")
    n = 0
    for drm in (False, True):
        for last in (False, True):
            for lq0 in (False, True):
                def truth(test, drm=drm, last=last, lq0=lq0):
                    return {"drm": drm, "last": last, "lq==0": lq0}.get(utext(test))
                rets = _returns_under(ctx, fn, truth)
                vals = {repr(v) for v, end, ev in rets}
                if len(rets) < 1 or any(is_unknown(v) or isinstance(v, tuple) for v, _, _ in rets):
                    ctx.error(f"cbreorder (drm={drm}, last={last}, q empty={lq0}): returned value not lowered", fn, sorted(vals))
                    continue
                ev = rets[0][2]
                q = "locate.flippv(b, np.size(M, 1))"
                pv = "b" if lq0 else (f"np.hstack(({q}, b))" if last else f"np.hstack((b, {q}))")
                want = f"M[:, {pv}]" if drm else f"M[np.ix_({pv}, {pv})]"
                w = AutoEvaluator(None, src=ctx.src).expr(want)
                ok = len(vals) == 1 and not is_unknown(w) and need(rets[0][0]).equals(need(w))
                n += 1
                ctx.check(ok, f"cbreorder (drm={drm}, last={last}, q {'empty' if lq0 else 'present'}): returns {want.replace(q, 'q')}"
                              + ("" if drm else " - a symmetric permutation"), rets[0][1], None if ok else {"got": sorted(vals), "want": repr(w)})
    ctx.check(n == 8, "cbreorder: eight option combinations evaluated", fn, n, nontrivial=False)


def r4_static_condensation(ctx):
    """_solve_eig removes massless DOF that have stiffness by static (Guyan) condensation before the free-free eigensolution and expands the
    eigenvectors afterwards.  Decided on values (matrices treated as commuting symbols - enough for signs and partitions; independent of the
    sign convention chosen for the condensation matrix): the reduced stiffness is the Schur complement Kxx - Kxz Kzz^-1 Kzx, the reduced
    mass is Mxx, the eigenproblem is solved for exactly those two, and the massless rows of the expanded eigenvectors are -Kzz^-1 Kzx v -
    otherwise the eigen-based rigid-body modes `rbe` are not rigid-body motion of the underlying structure on those DOF."""
    from .sem import Sem, place
    fn = ctx.src.func(CB, "_solve_eig")
    K0, M0 = F.sym("K0"), F.sym("M0")

    def call(node, ev):
        d = dotted(node.func) or ""
        if d in ("linalg.solve", "la.solve", "scipy.linalg.solve", "np.linalg.solve") and len(node.args) >= 2:
            a, b = ev.ev(node.args[0]), ev.ev(node.args[1])
            if is_unknown(a) or is_unknown(b):
                return a if is_unknown(a) else b
            return need(b) / need(a)
        if d.endswith("eigsh") or d.endswith("eigh"):
            vals = [ev.ev(a) for a in node.args]
            kws = {k.arg: ev.ev(k.value) for k in node.keywords}
            mm = kws.get("M", vals[2] if len(vals) > 2 else None)
            if is_unknown(vals[0]) or mm is None or is_unknown(mm):
                return NotImplemented
            return (F.fn("eigval", need(vals[0]), need(mm)), F.fn("eigvec", need(vals[0]), need(mm)))
        if d == "abs":
            return ev.ev(node.args[0])
        if d == "ytools.eig_si":
            return (F.sym("lam_si"), F.sym("phi_si"), F.sym("_si"))
        if d == "ytools.mattype":
            return (F.sym("mtype"), F.sym("types"))
        return NotImplemented

    def run(null_cols, massless):
        def cond(test, ev):
            t = utext(test)
            if t == "z.any()":
                return null_cols
            if t == "z_m.any()":
                return massless
            if t == "k.shape[0]<nz.shape[0]":
                return null_cols or massless
            if t.startswith("mtype&types"):
                return True
            return None
        from .sem import and_binop
        return Sem(ctx, fn, cond=cond, call=call, env={"k": K0, "m": M0, "K0": K0, "M0": M0}, binop=and_binop)

    # ---- massless DOF present, no null columns
    S = run(False, True)
    E = S.E
    zm = "(~M0.any(axis=0))"
    nzm = "M0.any(axis=0)"
    Kzz, Kzx, Kxz, Kxx = (E(f"K0[np.ix_({a}, {b})]") for a, b in ((zm, zm), (zm, nzm), (nzm, zm), (nzm, nzm)))
    Mxx = E(f"M0[np.ix_({nzm}, {nzm})]")
    psi = S.env("psi")
    if psi is None or is_unknown(psi) or any(is_unknown(x) for x in (Kzz, Kzx, Kxz, Kxx, Mxx)):
        ctx.error("_solve_eig: condensation block", fn, repr(psi))
        return
    ns = S.calls("SimpleNamespace")
    eig = [c for c in S.ev.calls if c[0].endswith("eigsh")]
    if len(ns) != 1 or len(eig) != 1:
        ctx.error("_solve_eig: result namespace / eigensolver call", fn, [len(ns), len(eig)])
        return
    kred, mred = ns[0][2].get("k"), ns[0][2].get("m")
    ok = S.same(kred, need(Kxx) - need(Kxz) * need(Kzx) / need(Kzz))
    ctx.check(ok, "_solve_eig: the reduced stiffness is the Schur complement Kxx - Kxz Kzz^-1 Kzx (static condensation of the massless DOF)", ns[0][3],
              None if ok else repr(kred))
    ok = S.same(mred, Mxx)
    ctx.check(ok, "_solve_eig: the reduced mass is the mass partition of the DOF that have mass", ns[0][3], None if ok else repr(mred))
    ea = place(eig[0][1], eig[0][2], ["A", "k", "M"])
    ok = S.same(ea.get("A"), kred) and S.same(ea.get("M"), mred)
    ctx.check(ok, "_solve_eig: the eigenproblem is solved for the reduced stiffness and the reduced mass", eig[0][3])
    vec = F.fn("eigvec", need(kred), need(mred)) if ok else None
    vret = ns[0][2].get("v")
    cells = S.cells("v2")
    got = {}
    for ix, val, st in cells:
        got[repr(ix)] = val
    want_z = E(f"v2[{zm}, :]")
    want_x = E(f"v2[{nzm}, :]")
    def cell(idxtext):
        w = S.E(f"v2[{idxtext}]")
        for ix, val, st in cells:
            if not is_unknown(ix) and not is_unknown(w) and need(F.fn("idx", F.sym("v2"), ix)).equals(need(w)):
                return val
        return None
    ok = vec is not None and S.same(vret, "v2") and S.same(cell(f"{nzm}, :"), vec) and S.same(cell(f"{zm}, :"), -(need(Kzx) / need(Kzz)) * vec) and len(cells) == 2
    ctx.check(ok, "_solve_eig: expanded eigenvectors satisfy the equilibrium of the massless DOF, Kzz v_z + Kzx v_x = 0 (rows with mass = v, massless rows = "
                  "-Kzz^-1 Kzx v): the eigen-based rigid-body modes are rigid on those DOF too", fn,
              None if ok else {"stores": [(repr(i), repr(v)) for i, v, _ in cells]})
    # ---- null columns present, no massless DOF
    S = run(True, False)
    E = S.E
    nz = "(M0.any(axis=0) | K0.any(axis=0))"
    ns = S.calls("SimpleNamespace")
    eig = [c for c in S.ev.calls if c[0].endswith("eigsh")]
    if len(ns) != 1 or len(eig) != 1:
        ctx.error("_solve_eig: result namespace / eigensolver call (null columns)", fn)
        return
    ok = S.same(ns[0][2].get("k"), f"K0[np.ix_({nz}, {nz})]") and S.same(ns[0][2].get("m"), f"M0[np.ix_({nz}, {nz})]")
    ctx.check(ok, "_solve_eig: null rows and columns (no mass and no stiffness) are removed from both matrices by the same mask", ns[0][3],
              None if ok else {"k": repr(ns[0][2].get("k")), "m": repr(ns[0][2].get("m"))})
    cells = S.cells("v2")
    vec = F.fn("eigvec", need(ns[0][2]["k"]), need(ns[0][2]["m"])) if ok else None
    def cell2(idxtext):
        w = S.E(f"v2[{idxtext}]")
        for ix, val, st in cells:
            if not is_unknown(ix) and not is_unknown(w) and need(F.fn("idx", F.sym("v2"), ix)).equals(need(w)):
                return val
        return None
    ok = vec is not None and S.same(cell2(f"{nz}, :"), vec) and S.same(cell2(f"~{nz}, :"), "0.0") and len(cells) == 2
    ctx.check(ok, "_solve_eig: eigenvectors get zero rows at the removed DOF and the computed rows elsewhere", fn,
              None if ok else {"stores": [(repr(i), repr(v)) for i, v, _ in cells]})


def r5_cbcheck_quantities(ctx):
    """cbcheck compares three rigid-body mode sets - stiffness based (rbs, full size), geometry based (rbg, boundary size) and eigensolution based
    (rbe, full size).  Decided on values: each set is used with the matrix partition of its own size in the mass (rb^T M rb), grounding (K rb,
    rb^T K rb) and effective-mass ((Mqb rbg)^2 as a percentage of diag(rbg^T Mbb rbg)) computations; every report / namespace slot named
    stiffness / geometry / eigensolution receives the quantity built from that set (a copy-and-paste slip between the three siblings is the
    realistic defect); rbe is normalised to the identity at the reference DOF."""
    from .sem import Sem, and_binop
    fn = ctx.src.func(CB, "cbcheck")

    def cond(test, ev):
        t = utext(test)
        return {"usetisNone": False, "uset.shape[0]!=nb": False, "convisnotNone": False, "reorder": False, "(bset==bseto).all()": True,
                "rb_normisNone": False, "rb_norm": False, "nq>0": True, "em_filt>0": False}.get(t)

    def call(node, ev):
        d = dotted(node.func) or ""
        if d == "cgmass":
            a = ev.ev(node.args[0])
            if is_unknown(a) or isinstance(a, tuple):
                return NotImplemented
            return tuple(F.fn(f"cgmass{i}", need(a)) for i in range(6))
        if d in ("linalg.solve", "la.solve") and len(node.args) >= 2:
            a, b = ev.ev(node.args[0]), ev.ev(node.args[1])
            if is_unknown(a) or is_unknown(b) or isinstance(a, tuple) or isinstance(b, tuple):
                return NotImplemented
            return need(b) / need(a)
        if d == "np.sort" and node.args:
            return ev.ev(node.args[0])
        return NotImplemented

    S = Sem(ctx, fn, cond=cond, call=call, erase_T=True, binop=and_binop, loop_once=True, env={"Mcb": F.sym("M"), "Kcb": F.sym("K")})
    E = S.E
    rbs, rbg, rbe = S.env("rbs"), S.env("rbg"), S.env("rbe")
    if any(x is None or is_unknown(x) or isinstance(x, tuple) for x in (rbs, rbg, rbe)):
        ctx.error("cbcheck: the three rigid-body mode sets", fn, [repr(rbs), repr(rbg), repr(rbe)])
        return
    rbs, rbg, rbe = need(rbs), need(rbg), need(rbe)
    M, K = F.sym("M"), F.sym("K")
    B = "np.ix_(bseto, bseto)"
    Mbb, Kbb = need(E(f"Mcb[{B}]")), need(E(f"Kcb[{B}]"))
    from .sem import split_call, unfn
    cg = split_call(rbg)
    ua = unfn(rbs)
    cs = split_call(ua[1][0]) if ua and ua[0] == "attr:rbmodes" and ua[1] else None
    ok = cg is not None and cg[0] == "n2p.rbgeom_uset" and len(cg[1]) == 2 and S.same(cg[1][0], E("uset")) and S.same(cg[1][1], E("uref")) \
        and cs is not None and cs[0] == "cbcoordchk" and len(cs[1]) >= 3 and S.same(cs[1][0], K) and S.same(cs[1][1], E("bset")) and S.same(cs[1][2], E("bref"))
    ctx.check(ok, "cbcheck: rbg comes from the geometry (uset, reference), rbs from the stiffness-based coordinate check of the same model", fn,
              None if ok else [repr(rbg)[:200], repr(rbs)[:200]])
    v6 = "ff_info.v[:, :6]"
    ok = S.same(rbe, need(E(v6)) / need(E("ff_info.v[bref, :6]")))
    ctx.check(ok, "cbcheck: rbe = V6 (V6[bref])^-1 - the six lowest free-free modes normalised to the identity at the reference DOF", fn, None if ok else repr(rbe)[:300])
    want = {"ms": rbs * M * rbs, "mg": rbg * Mbb * rbg, "me": rbe * M * rbe, "rbfs": K * rbs, "rbfg": Kbb * rbg, "rbfe": K * rbe}
    for nm, w in want.items():
        got = S.env(nm)
        ok = S.same(got, w)
        ctx.check(ok, f"cbcheck: `{nm}` is built from the matrix partition of the size of its own rigid-body set "
                      f"({'boundary partition for the geometry set, full matrix otherwise'})", fn, None if ok else {"got": repr(got)[:300], "want": repr(w)[:300]})
    # sibling slots: every call that takes a label must receive the quantity of that label
    lab = {"stiffness": ("ms", "rbfs", rbs), "geometry": ("mg", "rbfg", rbg), "eigensolution": ("me", "rbfe", rbe)}
    n_lab = 0
    for name in ("_wrtmass", "_wrtground", "_wrtinertia"):
        for cname, pos, kws, node in S.calls(name):
            label = next((a for a in pos if not is_unknown(a) and not isinstance(a, tuple) and repr(a).strip("'\"") in lab), None)
            if label is None:
                continue
            key = repr(label).strip("'\"")
            mm, ff, rb = lab[key]
            n_lab += 1
            if name == "_wrtmass":
                ok = S.same(pos[1], want[mm])
            elif name == "_wrtground":
                ok = S.same(pos[2], want[ff]) and S.same(pos[3], rb * want[ff])
            else:
                ok = S.same(pos[1], F.fn("cgmass4", want[mm])) and S.same(pos[2], F.fn("cgmass5", want[mm]))
            ctx.check(ok, f"cbcheck: the `{key}` slot of {name} receives the quantity built from the {key}-based rigid-body modes", node,
                      None if ok else [repr(x)[:160] for x in pos[1:4]])
    ctx.check(n_lab == 9, "cbcheck: nine labelled report slots (mass, grounding, inertia x three mode sets)", fn, n_lab, nontrivial=False)
    for cname, pos, kws, node in S.calls("_wrtdist"):
        # (f, x_s, x_g, x_e, title): the same cgmass output of the three sets, in the order s, g, e
        idx = None
        for i in range(6):
            if S.same(pos[1], F.fn(f"cgmass{i}", want["ms"])):
                idx = i
        ok = idx is not None and S.same(pos[2], F.fn(f"cgmass{idx}", want["mg"])) and S.same(pos[3], F.fn(f"cgmass{idx}", want["me"]))
        ctx.check(ok, "cbcheck: each distance / gyration comparison lists the same mass property of the stiffness, geometry and eigensolution sets in that order", node)
    q = "locate.flippv(bseto, np.size(Mcb, 0))"
    em = S.env("effmass")
    if isinstance(em, tuple) or em is None:
        em = S.init("effmass")
    emw = need(E(f"Mcb[np.ix_({q}, bseto)]")) * rbg
    # effmass / effmass_percent are rebound to DataFrames at the end: look at the values handed to pd.DataFrame
    dfs = S.calls("pd.DataFrame")
    vals = [c[1][0] for c in dfs if c[1]]
    ok = any(S.same(v, emw * emw) for v in vals)
    ctx.check(ok, "cbcheck: modal effective mass = (Mqb rbg)^2 with q the complement of the boundary set", fn, None if ok else [repr(v)[:200] for v in vals])
    ok = any(S.same(v, emw * emw * 100 / F.fn("call:np.diag", want["mg"])) for v in vals)
    ctx.check(ok, "cbcheck: effective mass percentage is taken of the total mass diag(rbg^T Mbb rbg) of the same (geometry) set", fn,
              None if ok else [repr(v)[:200] for v in vals])
    ns = S.calls("SimpleNamespace")
    ok = len(ns) == 1 and all(S.same(ns[0][2].get(k), v) for k, v in (("rbs", rbs), ("rbg", rbg), ("rbe", rbe), ("m", M), ("k", K)))
    ctx.check(ok, "cbcheck: the returned namespace publishes rbs, rbg, rbe, m, k under their own names", ns[0][3] if ns else fn)


RULES = [
    ("C06-R1", r1_cbtf, 14),
    ("C06-R2", r2_conversion, 11),
    ("C06-R3", r3_reorder, 8),
    ("C06-R4", r4_static_condensation, 6),
    ("C06-R5", r5_cbcheck_quantities, 20),
]
LEVEL = "other"
EXPLANATION = ("Static: cbtf uses the boundary/interior partitions consistently (index-space typing), returns the enforced boundary acceleration itself, loads the "
               "interior equations with the coupling terms of the full equations, solves them with no rigid-body set; unit-conversion constants are exact "
               "reciprocals and applied on the documented sides and rows; cbreorder permutes symmetrically; _solve_eig's static condensation of massless DOF "
               "(Schur complement, reduced mass, expansion satisfying the massless equilibrium) and its removal of null rows/columns.")
MANIFEST = {
    "text": "Thin partial claim decided statically: (R1) cbtf partition typing, enforced boundary acceleration, interior right-hand side, boundary force rows, rb=[]; "
            "(R2) m2e/e2m constants reciprocal to 2^-51, cbconvert C/D diagonals per block and their inverses, uset_convert scales exactly the length rows; "
            "(R3) cbreorder's symmetric permutation; (R4) cbcheck's free-free eigensolution helper _solve_eig: reduced stiffness = Kxx - Kxz Kzz^-1 Kzx, reduced mass = Mxx, "
            "the eigenproblem solved for exactly those, expanded massless rows = -Kzz^-1 Kzx v, null rows/columns removed by one mask and re-inserted as zeros; "
            "(R5) cbcheck builds the mass, grounding and effective-mass quantities of the stiffness / geometry / eigensolution rigid-body sets from the matrix "
            "partition of each set's own size and puts each into the report / namespace slot of its own label, rbe normalised at the reference DOF. Not decided: cbcheck's rigid-body, effective-mass and grounding numbers, cgmass, numerical accuracy of cbtf.",
    "note": "Trusted: CPython ast; verifier/e2_formula.py, verifier/e3_spaces.py; the USET row layout documented in n2p.addgrid (row 1 location, row 2 ids, row 3 origin, rows 4-6 T).",
    "technique": "static index-space typing + symbolic factor checks + structural who-passes-what rules",
}
