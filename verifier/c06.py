"""C06 -- Craig-Bampton utilities (thin partial claim).

Every rule evaluates the anchored function on symbols (verifier/c06_sem.py) and compares *values*: the arrays are found through the field
names of the returned namespace, the report quantities through the text label they are written under, helper functions of the module are
followed on their argument values, regimes are stated as facts about values (not as the text of a test)."""
from __future__ import annotations

import ast
from fractions import Fraction

from . import e2_formula as F
from .core import Unsupported
from . import c06_sem as cs
from .c06_sem import Run, NS, eq, is_rat, unfn, split_call, untuple, atoms_in, texts_in, factors, place, signature, single_atom

CB = "pyyeti/cb.py"
N2P = "pyyeti/nastran/n2p.py"
YT = "pyyeti/ytools.py"


def _tables(ctx, exclude=()):
    inl = cs.module_funcs(ctx, CB, exclude=exclude)
    return inl, cs.module_consts(ctx, CB)


def _chk(ctx, S, ok, text, node, detail=None, arrays=(), nontrivial=True, known=None):
    """an obligation about the content of arrays.  When it does not hold and (a) an undecided test stored into one of the arrays, or (b) one of
    the arrays (`known`: array -> the index values the rule understands) was stored into under an index the rule does not understand, the content
    is not known: analysis error, not a violation"""
    if not ok:
        for v in arrays:
            b = S.buf(v)
            if b is not None and b.bid in S.ev.w.maybe:
                ctx.error(text, node, {"reason": "a test the rule cannot decide guards a store into this array",
                                       "tests": [ast.unparse(t.test)[:80] for t in S.ev.w.undecided][:4]})
                return False
        for entry in (known or []):
            v, vocab = entry[0], entry[1]
            plain = entry[2] if len(entry) > 2 else []
            for ix, val, _st in S.cells(v):
                if _recognised(ix, vocab):
                    continue
                # a known selector put into another order (np.sort(bset), a mask of it ...) while the stored rows are exactly the rows that belong to
                # the selector in its own order: the rule understands the store, and it pairs row i with the wrong DOF whenever the selector is not ascending
                base = _strip_reorder(ix, vocab) if is_rat(ix) else None
                if base is not None and _recognised(base, vocab) and any(eq(base, pi) and eq(val, pv) for pi, pv in plain):
                    continue
                ctx.error(text, node, {"reason": "a store into this array uses an index the rule does not recognise", "index": _r(ix, 200)})
                return False
    return ctx.check(ok, text, node, detail, nontrivial=nontrivial)


REORDER = ("np.sort", "np.unique", "sorted", "locate.index2bool", "np.flip", "np.flipud")


def _strip_reorder(ix, vocab):
    """the index with every `reorder(selector)` (selector known to the rule) replaced by the selector itself; None when nothing was replaced"""
    hit = [False]

    def go(v):
        sc = split_call(v)
        if sc is not None and sc[0] == "np.ix_":
            return F.fn("call:np.ix_", *[go(x) for x in sc[1]])
        if sc is not None and sc[0] in REORDER and sc[1] and any(is_rat(a) and eq(sc[1][0], a) for a in vocab):
            hit[0] = True
            return sc[1][0]
        t = untuple(v)
        if t is not None:
            return F.fn("tuple", *[go(x) for x in t])
        return v
    out = go(ix)
    return out if hit[0] else None


def _recognised(ix, vocab):
    """is the index built only from selectors the rule knows (`vocab`: index vectors / masks) and full slices, in whatever arrangement: then a
    mismatch is a wrong index (violation); anything else is an index the rule cannot judge (analysis error)"""
    if not is_rat(ix):
        return False
    sc = split_call(ix)
    if sc is not None and sc[0] == "np.ix_":
        parts = list(sc[1])
    else:
        parts = untuple(ix) or [ix]
    for p_ in parts:
        if not is_rat(p_):
            return False
        u = unfn(p_)
        if u is not None and u[0] == "slice" and all(eq(x, cs.NONE) for x in u[1]):
            continue
        if any(is_rat(a) and eq(p_, a) for a in vocab):
            continue
        t = untuple(p_)
        if t is not None and _recognised(p_, vocab):
            continue
        if u is not None and u[0] == "cat" and u[1] and all(is_rat(x) and any(is_rat(a) and eq(x, a) for a in vocab) for x in u[1]):
            continue          # known selectors joined in some order
        return False
    return True


def _ixv(S, text, **bind):
    """value of the index `text` (as written between the brackets of a subscript) over the parameters"""
    u = unfn(S.root(f"__x[{text}]", **bind))
    return u[1][1] if u is not None and u[0] == "idx" else None


def _r(v, n=240):
    return repr(v)[:n]


LEN_FORMS = ("len({v})", "{v}.size", "{v}.shape[0]")


def _sign_len(S, template, vec, sg):
    """state the sign of a quantity that contains the length of a (flattened, one-dimensional) vector, in every spelling of that length:
    `template` has the placeholder {n}"""
    for form in LEN_FORMS:
        S.sign(template.format(n=form.format(v=vec)), sg)


# ============================================================================================================ R1  cbtf
class _Spaces:
    """index-space typing of the values of cbtf: T all DOF, B boundary, Q interior, F frequencies, Fnz non-zero frequencies"""

    def __init__(self, S):
        self.S = S
        R = S.root
        self.mats = [R("m"), R("b"), R("k")]
        self.a = R("a")
        self.omega = R("2 * math.pi * freq")
        self.freq = R("freq")
        self.bset = R("bset")
        self.q = R("locate.flippv(bset, m.shape[0])")
        self.nz = R("(2 * math.pi * freq) != 0.0")
        self.nT = [R(t) for t in ("m.shape[0]", "m.shape[1]", "len(m)", "k.shape[0]", "b.shape[0]")]
        self.nF = [R(t) for t in ("len(2 * math.pi * freq)", "len(freq)", "a.shape[1]", "freq.size", "(2 * math.pi * freq).size", "freq.shape[0]", "(2 * math.pi * freq).shape[0]")]
        self.nB = [R(t) for t in ("len(bset)", "a.shape[0]", "bset.size", "len(a)", "bset.shape[0]")]

    def dim_space(self, v):
        if any(eq(v, x) for x in self.nT):
            return "T"
        if any(eq(v, x) for x in self.nF):
            return "F"
        if any(eq(v, x) for x in self.nB):
            return "B"
        return None

    def index(self, v):
        """(target space, selected space) of an index vector / mask"""
        if eq(v, self.bset):
            return ("T", "B")
        if eq(v, self.q):
            return ("T", "Q")
        if eq(v, self.nz):
            return ("F", "Fnz")
        return None

    def type_of(self, v):
        if not is_rat(v):
            return None
        if any(eq(v, x) for x in self.mats):
            return ("T", "T")
        if eq(v, self.a):
            return ("B", "F")
        if eq(v, self.omega) or eq(v, self.freq):
            return ("F",)
        b = self.S.buf(v)
        if b is not None:
            shp = b.shape
            if shp is None:
                return None
            if len(shp) == 2 and shp[0] == "like":
                return self.type_of(shp[1])
            if len(shp) == 1:
                u = unfn(shp[0]) if is_rat(shp[0]) else None
                if u is not None and u[0] == "attr:shape":
                    return self.type_of(u[1][0])
            out = tuple(self.dim_space(x) if is_rat(x) else None for x in shp)
            return None if any(x is None for x in out) else out
        u = unfn(v)
        if u is None:
            return None
        if u[0] in ("attr:d", "attr:a", "attr:v") and split_call(u[1][0]) is not None and split_call(u[1][0])[0] == ".fsolve":
            return ("Q", "F")
        if u[0] == "idx":
            r = self.apply(u[1][0], u[1][1])
            return r[1] if r else None
        return None

    def apply(self, x, ix):
        """(agrees, resulting type) of x[ix]; None when the spaces are not known"""
        tx = self.type_of(x)
        if tx is None:
            return None
        sc = split_call(ix)
        if sc is not None and sc[0] == "np.ix_":
            sel = list(sc[1])
        else:
            sel = untuple(ix) or [ix]
        if len(sel) > len(tx):
            return None
        out, ok = [], True
        for ax, s in enumerate(sel):
            us = unfn(s)
            if us is not None and us[0] == "slice":
                if all(eq(p, cs.NONE) for p in us[1]):
                    out.append(tx[ax])
                    continue
                return None
            t = self.index(s)
            if t is None:
                return None
            ok = ok and t[0] == tx[ax]
            out.append(t[1])
        out.extend(tx[len(sel):])
        return ok, tuple(out)

    def value_type(self, v):
        """type of a sum of broadcast products (every term must have the same type); None when not known"""
        t = self.type_of(v)
        if t is not None:
            return t
        fs = factors(v)
        if fs is None:
            # quotient with a one-term denominator / a sum: look at numerator terms only when the denominator is one monomial
            try:
                if len(v.d.t) == 1 and len(v.n.t) == 1:
                    num = F.Rat(v.n)
                    den = F.Rat(v.d)
                    tn, td = self.value_type(num), self.value_type(den)
                    if tn is not None and (td is None or td == () or tn[-len(td):] == td):
                        return tn
            except Exception:  # noqa
                return None
            return None
        best = ()
        for a, _e in fs[1]:
            if eq(a, F.I):
                continue
            ta = self.type_of(a)
            if ta is None:
                if a.is_const():
                    continue
                return None
            if len(ta) > len(best):
                if best and ta[-len(best):] != best:
                    return None
                best = ta
            elif ta and best[-len(ta):] != ta:
                return None
        return best


def r1_cbtf(ctx):
    """cbtf with a non-empty interior set: values of the returned fields frc / a / d / v, of the solver and of its load; index spaces of every
    subscript that reaches them; the all-boundary model; the solver cache"""
    fn = cs.func(ctx, CB, "cbtf")
    inl, consts = _tables(ctx)

    def run(q_empty, mapping=False, miss=False):
        S = Run(ctx, fn, inline=inl, consts=consts, run=False)
        S.truth("isinstance(save, abc.MutableMapping)", mapping)
        _sign_len(S, "{n}", "bset", "pos")          # the regimes evaluated have boundary DOF (a test on the size of the wrong set is then decided, and wrong)
        if mapping:
            S.truth("save is None", False)          # a mapping is not None: `cache = save if isinstance(...) else None; if cache is not None`
            # the regime is a fact about the cache, not about a statement: save['tf'] raises KeyError / is a value, `'tf' in save`, save.get('tf') follow
            S.key("save", "'tf'", present=not miss)
            if not miss:
                S.truth("save['tf'] is None", False)
        _sign_len(S, "{n}", "locate.flippv(bset, m.shape[0])", "zero" if q_empty else "pos")
        S.sign("a.ndim - 1", "pos")
        S.sign("a.ndim - 2", "zero")
        S.sign("a.shape[1] - 1", "pos")
        S.go()
        return S

    S = run(False)
    ret = S.ret()
    want_fields = {"frc", "a", "d", "v", "freq", "f"}
    if not isinstance(ret, NS) or not want_fields <= set(ret.fields):
        ctx.error("cbtf: the returned namespace (fields frc, a, d, v, freq, f) was not lowered", fn, _r(ret))
        return
    A, D, V, FRC = (S.ev.deref(ret.fields[k]) for k in ("a", "d", "v", "frc"))
    if S.buf(A) is None or S.buf(D) is None:
        ctx.error("cbtf: the returned acceleration / displacement are not arrays filled row-wise by stores (boundary rows, interior rows): not lowered", ret.node or fn,
                  {"a": _r(A, 200), "d": _r(D, 200)})
        return
    Q = "locate.flippv(bset, m.shape[0])"
    OM = "(2 * math.pi * freq)"
    NZ = f"({OM} != 0.0)"
    qv = S.root(Q)
    # ---- the solver: found through the interior rows of the returned acceleration
    a_q = S.cell(A, Q)
    ua = unfn(a_q) if is_rat(a_q) else None
    sol = ua[1][0] if ua is not None and ua[0] == "attr:a" else None
    fs = split_call(sol) if sol is not None else None
    ok = fs is not None and fs[0] == ".fsolve" and len(fs[1]) >= 3
    _chk(ctx, S, ok, "cbtf: the interior set is the complement of the boundary set in the full equation set: the interior rows of the returned "
                     "acceleration are the acceleration of the frequency-domain solution", ret.node or fn, _r(a_q), arrays=[A])
    if not ok:
        ctx.error("cbtf: solver call not found", fn, [(_r(i, 80), _r(v, 120)) for i, v, _ in S.cells(A)])
        return
    tf, fq, fr = fs[1][0], fs[1][1], fs[1][2]
    ok = eq(S.cell(A, "bset"), S.root("a")) and len(S.cells(A)) == 2
    _chk(ctx, S, ok, "cbtf: the returned boundary acceleration is the enforced one at every frequency (including 0 Hz, where it cannot be derived from the "
                     "displacement) and the interior acceleration is the solver's", ret.node or fn, [(_r(i, 80), _r(v, 120)) for i, v, _ in S.cells(A)], arrays=[A],
         known=[(A, [S.root("bset"), qv, S.root(NZ)], [(S.root("bset"), S.root("a"))])])
    bd = S.buf(D)
    ok = eq(S.cell(D, Q), F.fn("attr:d", sol)) and eq(S.cell(D, f"np.ix_(bset, {NZ})"), S.root(f"-a[:, {NZ}] / {OM}[{NZ}] ** 2")) \
        and len(S.cells(D)) == 2 and bd is not None and is_rat(bd.init) and bd.init.is_zero()
    _chk(ctx, S, ok, "cbtf: boundary displacement = -a/W^2 at non-zero frequencies only (zero at 0 Hz), interior displacement from the solver", ret.node or fn,
         [(_r(i, 80), _r(v, 120)) for i, v, _ in S.cells(D)], arrays=[D], known=[(D, [S.root("bset"), qv, S.root(NZ)], [(_ixv(S, f"np.ix_(bset, {NZ})"), S.root(f"-a[:, {NZ}] / {OM}[{NZ}] ** 2"))])])
    ok = eq(fr, S.root("freq"))
    ctx.check(ok, "cbtf: the interior system is solved at the requested frequencies", fs and ret.node or fn, _r(fr), nontrivial=False)
    # ---- q-set equation of motion:  Mqq q'' + Bqq q' + Kqq q = -(Mqb a + Bqb v_b),  v_b = a/(i W) at non-zero frequencies, 0 at 0 Hz
    vb = None
    for b in S.all_bufs():
        if b.init is not None and S.same(fq, f"b[np.ix_({Q}, bset)] @ __v - m[np.ix_({Q}, bset)] @ a", __v=b.sym):
            vb = b
    if vb is None and S.same(fq, f"b[np.ix_({Q}, bset)] @ (1j * a / {OM}) - m[np.ix_({Q}, bset)] @ a"):
        ctx.fail("cbtf: the boundary velocity term is not guarded against 0 Hz", fn, _r(fq))
    ok = vb is not None
    ctx.check(ok, "cbtf: interior load is Bqb v - Mqb a with v = i a / W, i.e. -(Mqb a + Bqb a/(i W)) - the coupling terms of the full equations of "
                  "motion moved to the right-hand side", ret.node or fn, None if ok else _r(fq, 400))
    if vb is not None:
        cl = S.cells(vb.sym)
        ok = len(cl) == 1 and eq(S.cell(vb.sym, f":, {NZ}"), S.root(f"1j * a[:, {NZ}] / {OM}[{NZ}]")) and is_rat(vb.init) and vb.init.is_zero()
        _chk(ctx, S, ok, "cbtf: the boundary term v is i a / W (minus the boundary velocity a/(i W)) at non-zero frequencies and zero at 0 Hz", vb.node,
             [(_r(i, 80), _r(v, 120)) for i, v, _ in cl], arrays=[vb.sym], known=[(vb.sym, [S.root("bset"), qv, S.root(NZ)])])
    # ---- boundary force: rows bset of M a + B v + K d (K_bq = 0 for a Craig-Bampton stiffness)
    ok = S.same(V, f"1j * ({OM} * __d)", __d=D)
    ctx.check(ok, "cbtf: velocity = i W displacement on every row", ret.node or fn, None if ok else _r(V))
    ok = S.same(FRC, f"m[bset] @ __a + b[bset] @ (1j * ({OM} * __d)) + k[np.ix_(bset, bset)] @ __d[bset]", __a=A, __d=D)
    ctx.check(ok, "cbtf: boundary force = boundary rows of M a + B v + K d with v = i W d", ret.node or fn, None if ok else _r(FRC, 400))
    ok = eq(ret.fields["freq"], S.root("freq")) and eq(ret.fields["f"], S.root("freq"))
    ctx.check(ok, "cbtf: the namespace returns the frequency vector under `freq` and `f`", ret.node or fn, None if ok else [_r(ret.fields["freq"], 80), _r(ret.fields["f"], 80)],
              nontrivial=False)
    # ---- the fixed-base interior system has no rigid-body modes
    st = split_call(tf)
    qq = f"np.ix_({Q}, {Q})"
    ok = st is not None and st[0] == "ode.SolveUnc" and len(st[1]) == 3 and all(S.same(x, f"{mat}[{qq}]") for x, mat in zip(st[1], "mbk"))
    ctx.check(ok, "cbtf: the solver is built from the interior partitions (m[qq], b[qq], k[qq])", ret.node or fn, None if ok else _r(tf, 400))
    rb = st[2].get("rb") if st is not None else None
    ok = st is not None and rb is not None and untuple(rb) == []
    ctx.check(ok, "cbtf: the interior (fixed-boundary) system is solved with rb=[] - no mode may be treated as rigid-body (the default would auto-detect "
                  "soft fixed-base modes and ignore their stiffness and damping)", ret.node or fn, None if ok else _r(tf, 300))
    # ---- index spaces of every subscript that reaches the result
    sp = _Spaces(S)
    vals = [A, D, V, FRC, tf, fq]
    stores = []
    for arr in (A, D) + ((vb.sym,) if vb is not None else ()):
        for ix, val, node in S.cells(arr):
            vals.append(val)
            if is_rat(ix):
                stores.append((arr, ix, val, node))
                vals.append(F.fn("idx", arr, ix))
    seen = set()
    n_typed = 0
    for v in vals:
        for aid in sorted(atoms_in(v)):
            d = F.atom_desc(aid)
            if d[0] != "fn" or d[1] != "idx" or aid in seen:
                continue
            seen.add(aid)
            x, ix = [F.Rat(F._poly_from_key(k[1]), F._poly_from_key(k[2])) for k in d[2]]
            r = sp.apply(x, ix)
            if r is None:
                continue
            n_typed += 1
            ctx.check(r[0], f"cbtf: `{F.fmt_atom(aid)[:90]}` boundary / interior / frequency index spaces agree", fn, None if r[0] else {"selected": r[1]})
    for arr, ix, val, node in stores:
        r = sp.apply(arr, ix)
        tv = sp.value_type(val)
        if r is None or tv is None:
            continue
        n_typed += 1
        ok = r[0] and (tv == r[1] or tv == ())
        ctx.check(ok, f"cbtf: store `{_r(arr, 20)}[{_r(ix, 60)}] = ...`: the stored rows / columns live in the selected spaces", node, None if ok else {"target": r[1], "value": tv})
    if n_typed >= 12:
        ctx.ok("cbtf: index-space typing bound to the subscripts of the result", fn, n_typed, nontrivial=False)
    else:
        ctx.error("cbtf: index-space typing could not be bound to the subscripts of the result (array shapes not recognised)", fn, n_typed)
    # ---- the model without interior DOF: every equation is a boundary equation
    S0 = run(True)
    r0 = S0.ret()
    if not isinstance(r0, NS) or not want_fields <= set(r0.fields):
        ctx.error("cbtf (no interior DOF): the returned namespace was not lowered", fn, _r(r0))
    else:
        A0, D0, V0, F0 = (S0.ev.deref(r0.fields[k]) for k in ("a", "d", "v", "frc"))
        ok = eq(A0, S0.root("a"))
        ctx.check(ok, "cbtf (no interior DOF): the returned acceleration is the enforced one", r0.node or fn, None if ok else _r(A0))
        bd0 = S0.buf(D0)
        cl = S0.cells(D0)
        ok = bd0 is not None and is_rat(bd0.init) and bd0.init.is_zero() and len(cl) == 1 and \
            (eq(S0.cell(D0, f":, {NZ}"), S0.root(f"-a[:, {NZ}] / {OM}[{NZ}] ** 2")) or eq(S0.cell(D0, f"np.ix_(np.arange(a.shape[0]), {NZ})"), S0.root(f"-a[:, {NZ}] / {OM}[{NZ}] ** 2")))
        _chk(ctx, S0, ok, "cbtf (no interior DOF): displacement = -a/W^2 at non-zero frequencies, zero at 0 Hz", r0.node or fn,
             [(_r(i, 80), _r(v, 120)) for i, v, _ in cl], arrays=[D0])
        ok = S0.same(V0, f"1j * ({OM} * __d)", __d=D0) and S0.same(F0, f"m @ a + b @ (1j * ({OM} * __d)) + k @ __d", __d=D0)
        ctx.check(ok, "cbtf (no interior DOF): force = M a + B v + K d with v = i W d", r0.node or fn, None if ok else [_r(V0), _r(F0, 300)])
    # ---- the cache: a miss stores the solver that is built, a hit uses the stored one
    Sm = run(False, mapping=True, miss=True)
    built = [c for c in Sm.calls("ode.SolveUnc")]
    sv = Sm.root("save")
    stored = Sm.cell(sv, "'tf'")
    used = [c for c in Sm.calls(".fsolve")]
    ok = len(built) == 1 and len(used) == 1 and is_rat(stored) and split_call(stored) is not None and split_call(stored)[0] == "ode.SolveUnc" and eq(used[0][1][0], stored)
    ctx.check(ok, "cbtf: on a cache miss the solver built from (m[qq], b[qq], k[qq]) is the one stored under save['tf'] and the one used", fn,
              None if ok else [_r(stored), [_r(c[1][0], 100) for c in used]], nontrivial=False)
    Sh = run(False, mapping=True, miss=False)
    used = [c for c in Sh.calls(".fsolve")]
    ok = len(used) == 1 and Sh.same(used[0][1][0], "save['tf']") and not Sh.calls("ode.SolveUnc")
    ctx.check(ok, "cbtf: on a cache hit the stored solver save['tf'] is used and none is built", fn, None if ok else [_r(c[1][0], 100) for c in used], nontrivial=False)


# ============================================================================================================ R2  unit conversion
def _scaling(S, v, M):
    """`v` as the matrix M with rows / columns scaled by diagonals: (row diagonals, column diagonals, transposed) or None"""
    if not is_rat(v):
        return None
    if eq(v, M):
        return [], [], False
    u = unfn(v)
    if u is not None and u[0] == "attr:T":
        r = _scaling(S, u[1][0], M)
        return None if r is None else (r[0], r[1], not r[2])
    sc = split_call(v)
    if sc is not None and sc[0] in ("ytools.multmd", "multmd") and len(sc[1]) == 2:
        a, b = sc[1]
        ra, rb = _scaling(S, a, M), _scaling(S, b, M)
        if rb is not None and ra is None and S.buf(a) is not None:       # diag(a) @ b: rows of b
            rows, cols, t = rb
            return (rows, cols + [a], t) if t else (rows + [a], cols, t)
        if ra is not None and rb is None and S.buf(b) is not None:       # a @ diag(b): columns of a
            rows, cols, t = ra
            return (rows + [b], cols, t) if t else (rows, cols + [b], t)
        return None
    fs = factors(v)
    if fs is None or fs[0] != 1 or any(e != 1 for _, e in fs[1]) or len(fs[1]) < 2:
        return None
    mats = [(a, _scaling(S, a, M)) for a, _ in fs[1]]
    base = [(a, r) for a, r in mats if r is not None]
    diags = [a for a, r in mats if r is None]
    if len(base) != 1 or not diags or any(S.buf(a) is None for a in diags):
        return None
    rows, cols, t = base[0][1]
    # elementwise product with a vector scales along the last axis of the array as it is stored at that moment
    return (rows + diags, cols, t) if t else (rows, cols + diags, t)


def r2_conversion(ctx):
    """unit conversion: the m2e and e2m constants are reciprocals; cbconvert scales translations, rotations and modal DOF by the documented factors
    (C on the columns, D on the rows) and the reciprocal factors undo it; uset_convert scales exactly the rows that hold lengths"""
    inl, consts = _tables(ctx)
    fn = cs.func(ctx, CB, "_get_conv_factors")
    vals = {}
    for name in ("m2e", "e2m"):
        S = Run(ctx, fn, args=[F.sym(repr(name))], inline=inl, consts=consts)
        r = S.ret()
        if not isinstance(r, tuple) or len(r) != 2 or not all(is_rat(x) and x.is_const() for x in r):
            ctx.error(f"_get_conv_factors('{name}'): the returned (lengthconv, massconv) pair of constants was not lowered", fn, _r(r))
            return
        vals[name] = [x.const_value() for x in r]
    for i, q in enumerate(("lengthconv", "massconv")):
        err = abs(vals["m2e"][i] * vals["e2m"][i] - 1)
        ok = err <= Fraction(1, 2 ** 51)
        ctx.check(ok, f"_get_conv_factors: the {q} of m2e and e2m are reciprocals (product within 2^-51 of 1)", fn, {"product - 1": float(err)})
    X = F.sym("<conv>")
    S = Run(ctx, fn, args=[X], inline=inl, consts=consts, run=False)
    for name in ("m2e", "e2m"):
        S.truth(F.fn("cmp:Eq", X, F.sym(repr(name))), False)
    S.go()
    r = S.ret()
    ok = isinstance(r, tuple) and len(r) == 2 and eq(r[0], F.fn("idx", X, F.const(0))) and eq(r[1], F.fn("idx", X, F.const(1)))
    ctx.check(ok, "_get_conv_factors: any other `conv` is taken as the (lengthconv, massconv) pair itself", fn, None if ok else _r(r), nontrivial=False)
    # ---- ytools.multmd: the model of it used below (rows scaled when the diagonal comes first, columns when it comes second)
    mm = cs.func(ctx, YT, "multmd")
    for diag_first in (True, False):
        Sm = Run(ctx, mm, run=False)
        Sm.sign("np.ndim(a) - 1", "zero" if diag_first else "pos")
        Sm.go()
        r = Sm.ret()
        a_, b_ = Sm.root("a"), Sm.root("b")
        want = F.fn("attr:T", a_ * F.fn("attr:T", b_)) if diag_first else a_ * b_
        ok = eq(r, want)
        ctx.check(ok, f"ytools.multmd: {'diag(a) @ b scales the rows of b' if diag_first else 'a @ diag(b) scales the columns of a'}", mm, None if ok else _r(r), nontrivial=False)
    # ---- cbconvert
    fn = cs.func(ctx, CB, "cbconvert")
    L, mc = F.sym("L"), F.sym("mc")
    runs = {}
    for drm in (False, True):
        S = Run(ctx, fn, args=[None, None, (L, mc), None], inline=inl, consts=consts, run=False)
        S.truth("drm", drm)
        _sign_len(S, "np.size(M, 1) - {n}", "b", "pos")
        S.go()
        runs[drm] = S
    S = runs[False]
    M = S.root("M")
    sc = _scaling(S, S.ret(), M)
    if sc is None:
        ctx.error("cbconvert (drm=False): the returned value was not recognised as M scaled by row / column diagonals", fn, _r(S.ret(), 300))
        return
    ok = sc is not None and len(sc[0]) == 1 and len(sc[1]) == 1 and not sc[2]
    ctx.check(ok, "cbconvert (drm=False): the result is D M C - one diagonal on the rows, one on the columns", fn, None if ok else _r(S.ret(), 300))
    if not ok:
        return
    Dv, Cv = sc[0][0], sc[1][0]
    S1 = runs[True]
    sc1 = _scaling(S1, S1.ret(), S1.root("M"))
    ok = sc1 is not None and not sc1[0] and len(sc1[1]) == 1 and not sc1[2]
    if sc1 is None:
        ctx.error("cbconvert (drm=True): the returned value was not recognised as M scaled by row / column diagonals", fn, _r(S1.ret(), 300))
    else:
        ctx.check(ok, "cbconvert (drm=True): the result is M C (columns only: a recovery matrix maps displacements)", fn, None if ok else _r(S1.ret(), 300))
    trn = "b[ytools.mkpattvec([0, 1, 2], len(b), 6).ravel()]"
    rot = "b[ytools.mkpattvec([0, 1, 2], len(b), 6).ravel() + 3]"
    qset = "locate.flippv(b, np.size(M, 1))"
    want = {("C", trn, "translations"): 1 / L, ("D", trn, "translations"): mc * L, ("D", rot, "rotations"): mc * L * L}
    arr = {"C": Cv, "D": Dv}
    bv, nbv, qv = S.root("b"), S.root("len(b)"), _ixv(S, qset)

    def dof_of(ix):
        """which DOF of every boundary grid (0..5 = T1..R3 within the six of a grid) a store index addresses: b[mkpattvec([s...], len(b), 6) + c] ->
        {s + c}; b[j::6] -> {j}; the modal DOF -> 'q'; None when the index is not understood"""
        if not is_rat(ix):
            return None
        if qv is not None and eq(ix, qv):
            return "q"
        u = unfn(ix)
        if u is None or u[0] != "idx" or not eq(u[1][0], bv) or not is_rat(u[1][1]):
            return None
        P = u[1][1]
        us = unfn(P)
        if us is not None and us[0] == "slice":
            lo, hi, st = us[1]
            if eq(hi, cs.NONE) and is_rat(st) and st.equals(6) and is_rat(lo) and lo.is_const() and lo.const_value().denominator == 1:
                return {int(lo.const_value())}
            return None
        try:
            c0 = [c for mono, c in P.n.t.items() if not mono] if P.d.is_const() else None
        except Exception:  # noqa
            c0 = None
        if c0 is None:
            return None
        off = F.const(c0[0] if c0 else 0) / F.const(P.d.const_value())
        sc = split_call(P - off)
        if sc is None or sc[0] != "ytools.mkpattvec" or sc[2] or len(sc[1]) != 3 or not off.is_const() or off.const_value().denominator != 1:
            return None
        start = untuple(sc[1][0])
        if start is None or not all(x.is_const() and x.const_value().denominator == 1 for x in start) or not eq(sc[1][1], nbv):
            return None
        if sc[1][2].is_const() and not sc[1][2].equals(6):
            return {f"every {sc[1][2]} DOF"}          # understood, and not the DOF of the grids: six DOF per grid
        if not sc[1][2].equals(6):
            return None
        return {int(x.const_value()) + int(off.const_value()) for x in start}

    final = {}          # array -> {DOF 0..5 | 'q': value last stored}, None when a store into it is not understood
    stray = {}          # array -> DOF addressed outside 0..5 (the DOF of a neighbouring grid, or a negative position)
    for nm in ("C", "D"):
        final[nm], stray[nm] = {}, []
        for ix, val, _st in S.cells(arr[nm]):
            d = dof_of(ix)
            if d is None:
                final[nm] = None
                stray[nm] = _r(ix, 200)
                break
            if d == "q":
                final[nm]["q"] = val
                continue
            for k_ in sorted(d, key=str):
                if isinstance(k_, int) and 0 <= k_ <= 5:
                    final[nm][k_] = val
                else:
                    stray[nm].append(k_)
    for (nm, ixt, what), w in want.items():
        text = (f"cbconvert: {nm} (the {'column' if nm == 'C' else 'row'} diagonal) on the boundary {what} (DOF {'1-3' if what == 'translations' else '4-6'} of each boundary grid) = {w} "
                "(C converts displacements OUT->IN, D converts forces IN->OUT)")
        if final[nm] is None:
            # a store under an index that is neither DOF of the boundary grids (pattern vector / stride 6 into b) nor the modal DOF: exit 2, not a violation
            ctx.error(text, fn, {"reason": "a store into this diagonal uses an index the rule does not recognise", "index": stray[nm]})
            continue
        dofs = (0, 1, 2) if what == "translations" else (3, 4, 5)
        got = [final[nm].get(k_) for k_ in dofs]
        ok = all(eq(v, w) for v in got) and not stray[nm]
        _chk(ctx, S, ok, text, fn, None if ok else {"value per DOF": [_r(v, 80) for v in got], "DOF addressed outside the six of a grid": stray[nm]}, arrays=[arr[nm]])
    if final["C"] is None:
        ctx.error("cbconvert: C leaves the boundary rotations alone (rotations are dimensionless)", fn, stray["C"])
    else:
        crot = [final["C"].get(k_) for k_ in (3, 4, 5)]
        _chk(ctx, S, all(v is None for v in crot), "cbconvert: C leaves the boundary rotations alone (rotations are dimensionless)", fn, [_r(v, 80) for v in crot], arrays=[Cv],
             nontrivial=False)
    cq, dq = S.cell(Cv, qset), S.cell(Dv, qset)
    ok = is_rat(cq) and is_rat(dq) and (cq * dq).equals(1) and (dq * dq).equals(mc * L * L)
    _chk(ctx, S, ok, "cbconvert: modal DOF are scaled by sqrt(massconv) * lengthconv and its reciprocal (C D = 1 on the q-set)", fn,
         None if ok else {"C[q]": _r(cq), "D[q]": _r(dq)}, arrays=[Cv, Dv])
    inv = {"L": 1 / L, "mc": 1 / mc}
    ok = all((w * w.subs(inv)).equals(1) for w in want.values()) and is_rat(cq) and (cq * cq.subs(inv) * cq * cq.subs(inv)).equals(1)
    ctx.check(ok, "cbconvert: converting with the reciprocal factors undoes the conversion on translations, rotations and modal DOF", fn, None if ok else {"C[q]": _r(cq)})
    for nm in ("C", "D"):
        b = S.buf(arr[nm])
        sized = b is not None and b.shape is not None and len(b.shape) == 1 and S.same(b.shape[0], "np.size(M, 1)")
        ones = sized and is_rat(b.init) and b.init.equals(1)
        if nm == "C":
            # C is never stored at the boundary rotations: there it keeps the value it was created with
            _chk(ctx, S, ones, "cbconvert: C starts as ones over all np.size(M, 1) DOF (the boundary rotations keep that value)", fn, _r(b), arrays=[Cv], nontrivial=False)
        else:
            # D is stored at the translations, the rotations and the modal DOF - every DOF: the value it was created with never shows, only its size
            covered = sized and final["D"] is not None and all(k_ in final["D"] for k_ in (0, 1, 2, 3, 4, 5, "q"))
            _chk(ctx, S, ones or covered, "cbconvert: D has np.size(M, 1) entries and every one is defined (created as ones, or stored on translations, rotations and modal DOF)",
                 fn, _r(b), arrays=[Dv], nontrivial=False)
    # ---- uset_convert: exactly the rows that hold lengths
    fn = cs.func(ctx, CB, "uset_convert")
    LC, MC = F.sym("LC"), F.sym("MC")
    S = Run(ctx, fn, args=[None, None, (LC, MC)], inline=inl, consts=consts, run=False)
    S.sign("len(ref) - 3", "zero")
    S.go()
    iloc = S.root("uset.iloc")
    cl = S.cells(iloc)
    DOF = S.root("uset.index.get_level_values('dof')")
    cols = S.root("__x[0, 1:]")
    cols = untuple(unfn(cols)[1][1])[1]

    def rows_of(mask):
        """the `dof` values a row mask selects: dof == k, unions of such masks, np.isin(dof, (k, ...)); None when not recognised"""
        u = unfn(mask) if is_rat(mask) else None
        if u is None:
            return None
        if u[0] == "nonzero0" and len(u[1]) == 1:
            return rows_of(u[1][0])          # the integer positions of a row mask select the same rows
        if u[0] == "cmp:Eq" and len(u[1]) == 2:
            a, b = u[1]
            if eq(b, DOF):
                a, b = b, a
            if eq(a, DOF) and b.is_const():
                return {int(b.const_value())}
            return None
        if u[0] == "mask:BitOr":
            x, y = rows_of(u[1][0]), rows_of(u[1][1])
            return None if x is None or y is None else x | y
        sc = split_call(mask)
        if sc is not None and sc[0] in ("np.isin", "np.in1d", ".isin") and len(sc[1]) == 2 and eq(sc[1][0], DOF):
            t = untuple(sc[1][1])
            if t is not None and all(x.is_const() for x in t):
                return {int(x.const_value()) for x in t}
        return None

    dofs = []
    good, known = True, True
    for ix, val, node in cl:
        t = untuple(ix) if is_rat(ix) else None
        k = rows_of(t[0]) if t is not None and len(t) == 2 else None
        if k is None and t is not None and len(t) == 2 and rows_of(t[1]) is not None:
            good = False             # the row mask in the column position
            continue
        if k is None:
            known = False
            continue
        dofs.extend(sorted(k))
        good = good and eq(t[1], cols) and eq(val, F.fn("idx", iloc, ix) * LC)
    if not known or not cl:
        ctx.error("uset_convert: a store into the USET table was not recognised (rows selected by `dof`, columns 1:)", fn, [(_r(i, 120), _r(v, 120)) for i, v, _ in cl])
    else:
        ok = good and sorted(dofs) == [1, 3]
        ctx.check(ok, "uset_convert: the length factor is applied to exactly the rows that hold lengths - row 1 (grid location) and row 3 (origin of the grid's "
                      "output coordinate system); row 2 holds ids and rows 4-6 direction cosines", fn, {"rows": dofs, "stores": [(_r(i, 100), _r(v, 120)) for i, v, _ in cl]})
    r = S.ret()
    ok = isinstance(r, tuple) and len(r) == 2 and eq(r[1], S.root("ref") * LC)
    ctx.check(ok, "uset_convert: a reference location (three coordinates) is scaled by the same length factor", fn, None if ok else _r(r))
    if known and cl:
        ctx.check(good, "uset_convert: uses the length factor (first element) of the requested conversion", fn, None, nontrivial=False)
    # ---- sibling witness: location and origin of a grid are subtracted from each other
    rb = cs.func(ctx, N2P, "rbgeom_uset")
    # every `X.any()` branch (q-set grids, cylindrical, spherical output systems) is entered
    Sg = Run(ctx, rb, inline={}, consts=None, cond=lambda t, ev: True if isinstance(t, ast.Call) and isinstance(t.func, ast.Attribute) and t.func.attr == "any" and not t.args else None)
    found = 0
    vals = [v for v in Sg.ev.env.values() if is_rat(v)] + [c[2] for c in Sg.ev.w.cells if is_rat(c[2])] + [b.init for b in Sg.all_bufs() if is_rat(b.init)]
    seen = set()
    for v in vals:
        for aid, args in cs.fn_atoms(v, "attr:values"):
            if aid in seen:
                continue
            seen.add(aid)
            x = args[0]
            if not is_rat(x) or len(x.n.t) != 2 or not x.d.is_const():
                continue
            terms = list(x.n.t.items())
            if sorted(c for _, c in terms) != [-1, 1]:
                continue
            rows = {}
            for mono, c in terms:
                if len(mono) != 1 or mono[0][1] != 1:
                    break
                u = unfn(F.Rat(F.Poly.atom(mono[0][0])))
                if u is None or u[0] != "idx":
                    break
                ui = unfn(u[1][0])
                t = untuple(u[1][1])
                if ui is None or ui[0] != "attr:iloc" or not t:
                    break
                rows[c] = t[0]
            else:
                if len(rows) == 2 and (rows[-1] - rows[1]).equals(2):
                    found += 1
    ok = found >= 1
    ctx.check(ok, "rbgeom_uset (sibling witness): the location (row 1) and the origin (row 3) of a grid are subtracted from each other, so they must share units", rb, found)


# ============================================================================================================ R3  cbreorder
def r3_reorder(ctx):
    """cbreorder: square matrices are permuted symmetrically (rows and columns by the same vector), recovery matrices by columns only, and the
    vector is (b, q) or (q, b) with q the complement of b - for every combination of the options"""
    fn = cs.func(ctx, CB, "cbreorder")
    inl, consts = _tables(ctx)
    n = 0
    for drm in (False, True):
        for last in (False, True):
            for lq0 in (False, True):
                S = Run(ctx, fn, inline=inl, consts=consts, run=False)
                S.truth("drm", drm)
                S.truth("last", last)
                S.sign("M.ndim - 2", "zero")          # M is a matrix (documented): M[..., pv] is M[:, pv]
                _sign_len(S, "np.size(M, 1) - {n}", "b", "zero" if lq0 else "pos")
                S.go()
                r = S.ret()
                if not is_rat(r):
                    ctx.error(f"cbreorder (drm={drm}, last={last}, q empty={lq0}): returned value not lowered", fn, _r(r))
                    continue
                q = "locate.flippv(b, np.size(M, 1))"
                pv = "b" if lq0 else (f"np.hstack(({q}, b))" if last else f"np.hstack((b, {q}))")
                want = f"M[:, {pv}]" if drm else f"M[np.ix_({pv}, {pv})]"
                ok = S.same(r, want)
                bv, qv, Mv, nv = S.root("b"), S.root(q), S.root("M"), S.root("np.size(M, 1)")

                def understood(sel):
                    """a selector the rule can judge: the boundary set, its complement, these joined or put into another order, the complement of the
                    boundary set within a range the facts say is not range(np.size(M, 1)), a full slice"""
                    if not is_rat(sel):
                        return False
                    if eq(sel, bv) or eq(sel, qv) or cs._full_slice(sel):
                        return True
                    us = unfn(sel)
                    if us is not None and us[0] == "cat":
                        return all(is_rat(x) and understood(x) for x in us[1])
                    sc_ = split_call(sel)
                    if sc_ is not None and sc_[0] in REORDER and sc_[1] and not sc_[2]:
                        return understood(sc_[1][0])
                    if sc_ is not None and sc_[0] == "locate.flippv" and len(sc_[1]) == 2 and not sc_[2] and eq(sc_[1][0], bv):
                        try:
                            return S.ev.facts.lookup_sign(nv - sc_[1][1]) in ("pos", "neg")
                        except Unsupported:
                            return False
                    return False

                def selection_of_M(v, depth=0):
                    """M indexed (possibly several times in a row) by understood selectors only"""
                    if eq(v, Mv):
                        return depth > 0
                    uv = unfn(v) if is_rat(v) else None
                    if uv is None or uv[0] != "idx" or depth > 4 or not is_rat(uv[1][1]):
                        return False
                    sc_ = split_call(uv[1][1])
                    sels = list(sc_[1]) if sc_ is not None and sc_[0] == "np.ix_" and not sc_[2] else (untuple(uv[1][1]) or [uv[1][1]])
                    return all(understood(x) for x in sels) and selection_of_M(uv[1][0], depth + 1)

                if not ok and not selection_of_M(r):
                    # not a selection of M by the boundary set / its complement in some arrangement: nothing can be said (exit 2)
                    ctx.error(f"cbreorder (drm={drm}, last={last}, q empty={lq0}): the returned value is not M indexed by the boundary set and its complement", fn, _r(r, 300))
                    continue
                n += 1
                ctx.check(ok, f"cbreorder (drm={drm}, last={last}, q {'empty' if lq0 else 'present'}): returns {want.replace(q, 'q')}"
                              + ("" if drm else " - a symmetric permutation"), S.ret_node(), None if ok else {"got": _r(r, 400), "want": _r(S.root(want), 400)})
    if n == 8:
        ctx.ok("cbreorder: eight option combinations evaluated", fn, n, nontrivial=False)
    else:
        ctx.error("cbreorder: not every one of the eight option combinations could be evaluated", fn, n)


# ============================================================================================================ R4  _solve_eig
def _solve_model(name, pos, kws, node, ev):
    if name in cs.SOLVE and len(pos) >= 2 and is_rat(pos[0]) and is_rat(pos[1]):
        return pos[1] / pos[0]
    return NotImplemented


def r4_static_condensation(ctx):
    """_solve_eig removes massless DOF that have stiffness by static (Guyan) condensation before the free-free eigensolution and expands the
    eigenvectors afterwards.  Decided on values (matrices treated as commuting symbols - enough for signs and partitions; independent of the
    sign convention chosen for the condensation matrix): the reduced stiffness is the Schur complement Kxx - Kxz Kzz^-1 Kzx, the reduced
    mass is Mxx, the eigenproblem is solved for exactly those two, and the massless rows of the expanded eigenvectors are -Kzz^-1 Kzx v -
    otherwise the eigen-based rigid-body modes `rbe` are not rigid-body motion of the underlying structure on those DOF."""
    fn = cs.func(ctx, CB, "_solve_eig")
    inl, consts = _tables(ctx)
    K0, M0 = F.sym("K0"), F.sym("M0")

    def callv(name, pos, kws, node, ev):
        r = _solve_model(name, pos, kws, node, ev)
        if r is not NotImplemented:
            return r
        if name.endswith("eigsh") or name.endswith("eigh"):
            p = place(pos, kws, ["A", "k", "M"])
            a, mm = p.get("A"), p.get("M")
            if not is_rat(a) or not is_rat(mm):
                return NotImplemented
            return (F.fn("eigval", a, mm), F.fn("eigvec", a, mm))
        return NotImplemented

    NZ = "(M0.any(axis=0) | K0.any(axis=0))"

    def run(null_cols, massless):
        S = Run(ctx, fn, args=[None, K0, M0], inline=inl, consts=consts, callv=callv, objs=("K0", "M0"), run=False)
        S.truth(f"(~{NZ}).any()", null_cols)
        S.truth(f"{NZ}.any()", True)          # not a degenerate model: some DOF has mass or stiffness ...
        mm = f"M0[np.ix_({NZ}, {NZ})]" if null_cols else "M0"
        S.truth(f"(~{mm}.any(axis=0)).any()", massless)
        S.truth(f"{mm}.any(axis=0).any()", True)          # ... and some DOF has mass (so `mask.all()` / `mask.any()` mix-ups are decided, and wrong)
        S.go()
        return S

    def result(S, what):
        r = S.ret()
        if not isinstance(r, NS) or not {"k", "m", "v"} <= set(r.fields):
            ctx.error(f"_solve_eig ({what}): the returned namespace (fields k, m, v, ...) was not lowered", fn, _r(r))
            return None
        eig = [c for c in S.ev.w.calls if c[0].endswith("eigsh") or c[0].endswith("eigh")]
        if len(eig) != 1:
            ctx.error(f"_solve_eig ({what}): eigensolver call", fn, len(eig))
            return None
        return r, eig[0]

    def rows(S, v, mask):
        """value stored into the rows `mask` of the array v (None when nothing is)"""
        return S.cell(v, S.root(mask))

    # ---- massless DOF present, no null columns
    S = run(False, True)
    res = result(S, "massless DOF")
    if res is None:
        return
    ns, eig = res
    E = S.root
    zm, nzm = "(~M0.any(axis=0))", "M0.any(axis=0)"
    Kzz, Kzx, Kxz, Kxx = (E(f"K0[np.ix_({a}, {b})]") for a, b in ((zm, zm), (zm, nzm), (nzm, zm), (nzm, nzm)))
    Mxx = E(f"M0[np.ix_({nzm}, {nzm})]")
    kred, mred, vret = ns.fields["k"], ns.fields["m"], ns.fields["v"]
    ok = eq(kred, Kxx - Kxz * Kzx / Kzz)
    ctx.check(ok, "_solve_eig: the reduced stiffness is the Schur complement Kxx - Kxz Kzz^-1 Kzx (static condensation of the massless DOF)", ns.node or fn,
              None if ok else _r(kred, 400))
    ok = eq(mred, Mxx)
    ctx.check(ok, "_solve_eig: the reduced mass is the mass partition of the DOF that have mass", ns.node or fn, None if ok else _r(mred))
    ea = place(eig[1], eig[2], ["A", "k", "M"])
    ok = eq(ea.get("A"), kred) and eq(ea.get("M"), mred)
    ctx.check(ok, "_solve_eig: the eigenproblem is solved for the reduced stiffness and the reduced mass", eig[3],
              None if ok else {"A": _r(ea.get("A"), 200), "M": _r(ea.get("M"), 200), "k": _r(kred, 200), "m": _r(mred, 200)})
    vec = F.fn("eigvec", kred, mred) if ok and is_rat(kred) and is_rat(mred) else None
    cl = S.cells(vret)
    if is_rat(vret) and S.buf(vret) is None:
        ctx.error("_solve_eig (massless DOF): the expanded eigenvectors are not an array filled by stores: not lowered", fn, _r(vret, 300))
        return
    created = S.buf(vret) is not None and S.buf(vret).init is not None
    ok = vec is not None and eq(rows(S, vret, nzm), vec) and eq(rows(S, vret, zm), -(Kzx / Kzz) * vec) and len(cl) == 2 and created
    _chk(ctx, S, ok, "_solve_eig: expanded eigenvectors satisfy the equilibrium of the massless DOF, Kzz v_z + Kzx v_x = 0 (rows with mass = v, massless rows = "
                     "-Kzz^-1 Kzx v): the eigen-based rigid-body modes are rigid on those DOF too", fn,
         None if ok else {"v": _r(vret), "stores": [(_r(i, 120), _r(v, 200)) for i, v, _ in cl]}, arrays=[vret], known=[(vret, [E(nzm), E(zm)])])
    # ---- null columns present, no massless DOF
    S = run(True, False)
    res = result(S, "null columns")
    if res is None:
        return
    ns, eig = res
    kk, mm, vret = ns.fields["k"], ns.fields["m"], ns.fields["v"]
    ok = S.same(kk, f"K0[np.ix_({NZ}, {NZ})]") and S.same(mm, f"M0[np.ix_({NZ}, {NZ})]")
    ctx.check(ok, "_solve_eig: null rows and columns (no mass and no stiffness) are removed from both matrices by the same mask", ns.node or fn,
              None if ok else {"k": _r(kk), "m": _r(mm)})
    ea = place(eig[1], eig[2], ["A", "k", "M"])
    vec = F.fn("eigvec", kk, mm) if ok and eq(ea.get("A"), kk) and eq(ea.get("M"), mm) else None
    cl = S.cells(vret)
    b = S.buf(vret)
    if is_rat(vret) and b is None:
        ctx.error("_solve_eig (null columns): the expanded eigenvectors are not an array filled by stores: not lowered", fn, _r(vret, 300))
        return
    zero_rows = rows(S, vret, f"(~{NZ})")
    zeroed = (is_rat(zero_rows) and zero_rows.is_zero() and len(cl) == 2) or \
             (zero_rows is None and b is not None and is_rat(b.init) and b.init.is_zero() and len(cl) == 1)
    ok = vec is not None and eq(rows(S, vret, NZ), vec) and zeroed and b is not None and b.init is not None
    _chk(ctx, S, ok, "_solve_eig: eigenvectors get zero rows at the removed DOF and the computed rows elsewhere", fn,
         None if ok else {"v": _r(vret), "stores": [(_r(i, 120), _r(v, 200)) for i, v, _ in cl]}, arrays=[vret],
         known=[(vret, [S.root(NZ), S.root(f"(~{NZ})")])])
    # ---- both: null columns trimmed first, then the massless DOF of what is left condensed
    S = run(True, True)
    res = result(S, "null columns and massless DOF")
    if res is None:
        return
    ns, eig = res
    E = S.root
    K1, M1 = f"K0[np.ix_({NZ}, {NZ})]", f"M0[np.ix_({NZ}, {NZ})]"
    zm, nzm = f"(~{M1}.any(axis=0))", f"{M1}.any(axis=0)"
    Kzz, Kzx, Kxz, Kxx = (E(f"{K1}[np.ix_({a}, {b})]") for a, b in ((zm, zm), (zm, nzm), (nzm, zm), (nzm, nzm)))
    kred, mred, vret = ns.fields["k"], ns.fields["m"], ns.fields["v"]
    ok = eq(kred, Kxx - Kxz * Kzx / Kzz) and eq(mred, E(f"{M1}[np.ix_({nzm}, {nzm})]"))
    ctx.check(ok, "_solve_eig (null columns and massless DOF): the condensation is applied to the trimmed matrices (masks of the trimmed mass)", ns.node or fn,
              None if ok else {"k": _r(kred, 300), "m": _r(mred)})
    vec = F.fn("eigvec", kred, mred) if ok else None
    inner = rows(S, vret, NZ)
    ok = vec is not None and is_rat(inner) and eq(rows(S, inner, nzm), vec) and eq(rows(S, inner, zm), -(Kzx / Kzz) * vec)
    _chk(ctx, S, ok, "_solve_eig (null columns and massless DOF): the eigenvectors are expanded in the reverse order of the reductions (massless rows first, "
                     "then zero rows at the null DOF)", fn, None if ok else {"v": _r(vret), "rows kept": _r(inner)}, arrays=[vret] + ([inner] if is_rat(inner) else []))


# ============================================================================================================ R5  cbcheck
LABELS = {"stiffness": "stiffness", "geometry": "geometry", "eigensolution": "eigensol"}


def _labels_of(v):
    """the rigid-body sets a written text speaks about: the labels whose keyword occurs in the string constants of the value"""
    found = set()
    for s in texts_in(v):
        low = s.lower()
        for lab, kw in LABELS.items():
            if kw in low:
                found.add(lab)
    return found


def r5_cbcheck_quantities(ctx):
    """cbcheck compares three rigid-body mode sets - stiffness based (rbs, full size), geometry based (rbg, boundary size) and eigensolution based
    (rbe, full size).  Decided on values: the sets are the ones published in the returned namespace; each is used with the matrix partition of
    its own size in the mass (rb^T M rb), grounding (K rb, rb^T K rb) and effective-mass ((Mqb rbg)^2 as a percentage of diag(rbg^T Mbb rbg))
    computations; everything written to the report under the label stiffness / geometry / eigensolution is built from that set and from no
    other (a copy-and-paste slip between the three siblings is the realistic defect); rbe is normalised to the identity at the reference DOF."""
    fn = cs.func(ctx, CB, "cbcheck")
    # the public wrapper cbcoordchk is followed down to the worker (`_cbcoordchk`), so calling either is the same; should the worker be folded into
    # the wrapper, the wrapper is the opaque call
    worker = "_cbcoordchk" if "_cbcoordchk" in cs.pristine(ctx, CB)[0] else "cbcoordchk"
    keep_opaque = (worker, "_solve_eig", "cgmass", "cbconvert", "cbreorder", "uset_convert", "_print_type_info", "_values_check",
                   "rbdispchk", "_rbdispchk", "rbmultchk", "_rbmultchk", "mk_net_drms", "cbtf")
    inl, consts = _tables(ctx, exclude=keep_opaque)

    def callv(name, pos, kws, node, ev):
        r = _solve_model(name, pos, kws, node, ev)
        if r is not NotImplemented:
            return r
        if name == "cgmass" and pos and is_rat(pos[0]):
            return tuple(F.fn(f"cgmass{i}", pos[0]) for i in range(6))
        if name in ("np.sort", "sorted") and len(pos) == 1 and is_rat(pos[0]):
            return pos[0]           # the regime evaluated: the boundary set is given in ascending order
        return NotImplemented

    S = Run(ctx, fn, inline=inl, consts=consts, callv=callv, erase_T=True, run=False)
    M, K = S.root("Mcb"), S.root("Kcb")
    S.truth("uset is None", False)
    S.truth("conv is None", True)
    S.truth("reorder", False)
    S.truth("rb_norm is None", False)
    S.truth("rb_norm", False)
    S.sign("len(locate.flippv(bseto, np.size(Mcb, 0)))", "pos")
    S.sign("np.size(Mcb, 0) - len(bseto)", "pos")          # the same regime stated on the sizes: there are modal DOF
    S.sign("em_filt", "zero")
    S.go()
    ret = S.ret()
    need_f = {"m", "k", "bset", "rbs", "rbg", "rbe", "effmass", "effmass_percent"}
    if not isinstance(ret, NS) or not need_f <= set(ret.fields) or any(not is_rat(ret.fields[k]) for k in need_f):
        ctx.error("cbcheck: the returned namespace (fields m, k, bset, rbs, rbg, rbe, effmass, effmass_percent) was not lowered", fn,
                  _r(ret) if not isinstance(ret, NS) else {k: _r(v, 120) for k, v in ret.fields.items()})
        return
    rbs, rbg, rbe = ret.fields["rbs"], ret.fields["rbg"], ret.fields["rbe"]
    E = S.root
    B = "np.ix_(bseto, bseto)"
    Mbb, Kbb = E(f"Mcb[{B}]"), E(f"Kcb[{B}]")
    # ---- where the three sets come from
    cg = split_call(rbg)
    us = "uset[n2p.mksetpv(uset, 'p', 'b')]"
    ok = cg is not None and cg[0] == "n2p.rbgeom_uset" and len(cg[1]) + len(cg[2]) == 2 and S.same(place(cg[1], cg[2], ["uset", "refpoint"]).get("uset"), us) \
        and S.same(place(cg[1], cg[2], ["uset", "refpoint"]).get("refpoint"), "uref")
    ctx.check(ok, "cbcheck: rbg comes from the geometry (the b-set rows of uset, the reference point)", ret.node or fn, None if ok else _r(rbg))
    ua = unfn(rbs)
    cc = split_call(ua[1][0]) if ua is not None and ua[0] == "attr:rbmodes" else None
    sig = signature(cs.func(ctx, CB, worker))
    pa = place(cc[1], cc[2], sig) if cc is not None else {}
    if worker == "_cbcoordchk":
        pa = dict(zip(("fout", "K", "bset", "refpoint"), [pa.get(nm) for nm in sig[:4]]))          # by position: the names of a private function may change
    ok = cc is not None and cc[0] == worker and eq(pa.get("K"), K) and S.same(pa.get("bset"), "bseto") and S.same(pa.get("refpoint"), "bref")
    ctx.check(ok, "cbcheck: rbs comes from the stiffness-based coordinate check of the same stiffness, boundary set and reference DOF", ret.node or fn,
              None if ok else _r(rbs, 300))
    ffs = [c for c in S.calls("_solve_eig")]
    sig = signature(cs.func(ctx, CB, "_solve_eig"))
    pf = place(ffs[0][1], ffs[0][2], sig) if len(ffs) == 1 else {}
    pf = [pf.get(nm) for nm in sig]           # (fout, k, m, bset, n_freefree_modes) by position: the names of a private function may change
    ff = S.ev._opaque("_solve_eig", ffs[0][1], ffs[0][2]) if len(ffs) == 1 else None
    ok = len(ffs) == 1 and len(pf) >= 4 and eq(pf[1], K) and eq(pf[2], M) and S.same(pf[3], "bseto") and is_rat(ff)
    ctx.check(ok, "cbcheck: the free-free eigensolution is computed for the same stiffness, mass and boundary set", ffs[0][3] if ffs else fn,
              None if ok else [_r(x, 120) for x in pf[1:4]])
    if not ok:
        return
    V = F.fn("attr:v", ff)
    ok = eq(rbe, E("__v[:, :6]", __v=V) / E("__v[bref, :6]", __v=V))
    ctx.check(ok, "cbcheck: rbe = V6 (V6[bref])^-1 - the six lowest free-free modes normalised to the identity at the reference DOF", ret.node or fn,
              None if ok else _r(rbe, 300))
    ok = eq(ret.fields["m"], M) and eq(ret.fields["k"], K) and S.same(ret.fields["bset"], "bseto")
    ctx.check(ok, "cbcheck: the returned namespace publishes the mass, the stiffness and the boundary set the checks were made with", ret.node or fn,
              None if ok else [_r(ret.fields[k_], 120) for k_ in ("m", "k", "bset")])
    sets = {"stiffness": rbs, "geometry": rbg, "eigensolution": rbe}
    mat = {"stiffness": (M, K), "geometry": (Mbb, Kbb), "eigensolution": (M, K)}
    mass = {lab: sets[lab] * mat[lab][0] * sets[lab] for lab in sets}
    # ---- what identifies a set inside a value
    mark = {"stiffness": {single_atom(rbs)}, "geometry": {single_atom(rbg)}, "eigensolution": {single_atom(V)}}
    if any(None in s for s in mark.values()):
        ctx.error("cbcheck: the rigid-body sets are not single quantities", fn, [_r(rbs, 100), _r(rbg, 100)])
        return

    def sets_in(v):
        at = atoms_in(v)
        return {lab for lab, ms in mark.items() if ms & at}

    # ---- the report: every text written under one label, and the arrays written after it, are built from that set only
    payload = {lab: [] for lab in sets}
    rows_by_label = []
    cur = None
    bad = []
    fobj = S.root("f")

    def unstar(x):
        u = unfn(x) if is_rat(x) else None
        return u[1][0] if u is not None and u[0] == "star" else x

    for name, pos, kws, node, seq in S.ev.w.calls:
        if name == ".write" and len(pos) >= 2 and eq(pos[0], fobj):
            labs = _labels_of(pos[1])
            lab = next(iter(labs)) if len(labs) == 1 else None
            if len(labs) > 1:
                cur = None           # a header naming several sets: what follows belongs to none of them in particular
            if lab is not None:
                cur = lab
                used = sets_in(pos[1])
                if used - {lab}:
                    bad.append((lab, node, sorted(used)))
                if used:
                    rows_by_label.append((lab, pos[1], node))
                for _a, args in cs.fn_atoms(pos[1], "call:.format"):
                    payload[lab].extend((unstar(x), node) for x in args[1:] if is_rat(x))
        elif name == "writer.vecwrite" and cur is not None and len(pos) >= 3 and eq(pos[0], fobj):
            for x in pos[2:]:
                if is_rat(x):
                    payload[cur].append((x, node))
                    used = sets_in(x)
                    if used - {cur}:
                        bad.append((cur, node, sorted(used)))
    for lab in sets:
        mine = [b for b in bad if b[0] == lab]
        ctx.check(not mine, f"cbcheck: everything reported under the label `{lab}` is built from the {lab}-based rigid-body modes and from no other set",
                  mine[0][1] if mine else fn, None if not mine else [m[2] for m in mine])
    vw = {lab: [x for x in payload[lab] if isinstance(x, tuple)] for lab in sets}

    def written(lab, want, row_slice=False):
        for x, node in vw[lab]:
            if eq(x, want):
                return node
            if row_slice:
                u = unfn(x)
                if u is not None and u[0] == "idx" and eq(u[1][0], want):
                    return node
        return None

    for lab in sets:
        Mx, Kx = mat[lab]
        rb = sets[lab]
        part = "boundary partition" if lab == "geometry" else "full matrix"
        nd = written(lab, mass[lab])
        ctx.check(nd is not None, f"cbcheck: the 6x6 mass reported as `{lab}` is rb^T M rb with the {part} of the mass", nd or fn,
                  None if nd else [_r(x, 160) for x, _ in vw[lab]][:6])
        nd = written(lab, Kx * rb, row_slice=True)
        ctx.check(nd is not None, f"cbcheck: the grounding forces reported as `{lab}` are K rb with the {part} of the stiffness", nd or fn,
                  None if nd else [_r(x, 160) for x, _ in vw[lab]][:6])
        nd = written(lab, rb * Kx * rb)
        ctx.check(nd is not None, f"cbcheck: the grounding summation reported as `{lab}` is rb^T K rb of the same set and partition", nd or fn,
                  None if nd else [_r(x, 160) for x, _ in vw[lab]][:6])
        nd = written(lab, F.fn("cgmass4", mass[lab]))
        ctx.check(nd is not None, f"cbcheck: the inertia matrix reported as `{lab}` is the one of the {lab} mass", nd or fn,
                  None if nd else [_r(x, 160) for x, _ in vw[lab]][:6])
    # ---- comparison tables: rows labelled Stiffness / Geometry / Eigensolution list the same mass property of the three sets
    tables = []
    for lab, v, node in rows_by_label:
        props = set()
        for i in range(6):
            for _a, args in cs.fn_atoms(v, f"cgmass{i}"):
                props.add((i, eq(args[0], mass[lab])))
        if len(props) == 1:
            tables.append((lab, props.pop(), node))
    n_tab = 0
    i = 0
    while i + 3 <= len(tables):
        trio = tables[i:i + 3]
        if [t[0] for t in trio] == ["stiffness", "geometry", "eigensolution"]:
            ok = len({t[1][0] for t in trio}) == 1 and all(t[1][1] for t in trio)
            n_tab += 1
            ctx.check(ok, "cbcheck: each distance / gyration comparison lists the same mass property of the stiffness, geometry and eigensolution masses under "
                          "their own row labels", trio[0][2], None if ok else [(t[0], t[1]) for t in trio])
            i += 3
        else:
            i += 1
    if n_tab >= 3:
        ctx.ok("cbcheck: three comparison tables (distance to cg, radius of gyration about X, Y, Z and about the principal axes)", fn, n_tab, nontrivial=False)
    else:
        ctx.error("cbcheck: the comparison tables (rows labelled Stiffness / Geometry / Eigensolution) were not found in the report", fn, [(t[0], t[1]) for t in tables])
    # ---- modal effective mass (geometry set, q the complement of the boundary set)
    q = "locate.flippv(bseto, np.size(Mcb, 0))"
    emw = E(f"Mcb[np.ix_({q}, bseto)]") * rbg

    def frame_data(v):
        out = []
        for _a, args in cs.fn_atoms(v, "call:pd.DataFrame"):
            if args and is_rat(args[0]):
                out.append(args[0])
        return out

    em, emp = frame_data(ret.fields["effmass"]), frame_data(ret.fields["effmass_percent"])
    ok = len(em) == 1 and eq(em[0], emw * emw)
    ctx.check(ok, "cbcheck: modal effective mass (field effmass) = (Mqb rbg)^2 with q the complement of the boundary set", ret.node or fn, None if ok else [_r(v, 200) for v in em])
    ok = len(emp) == 1 and eq(emp[0], emw * emw * 100 / E("np.diag(__m)", __m=mass["geometry"]))
    ctx.check(ok, "cbcheck: effective mass percentage (field effmass_percent) is taken of the total mass diag(rbg^T Mbb rbg) of the same (geometry) set", ret.node or fn,
              None if ok else [_r(v, 200) for v in emp])


# ============================================================================================================ R6  _cbcoordchk
SCALAR_CALLS = ("call:np.count_nonzero", "call:.sum", "call:np.sum", "call:len", "call:.min", "call:.max", "call:sum", "dim", "attr:size", "call:np.sum")


def _is_scalar(v):
    """is the value certainly one number (not an array): constants and reductions without an axis"""
    if not is_rat(v):
        return False
    for p in (v.n, v.d):
        for a in p.atoms():
            d = F.atom_desc(a)
            if d[0] != "fn" or d[1] not in SCALAR_CALLS:
                return False
            for k in d[2]:
                if not isinstance(k, str):
                    u = unfn(F.Rat(F._poly_from_key(k[1]), F._poly_from_key(k[2])))
                    if u is not None and u[0] == "kw:axis":
                        return False
    return True


def r6_coordchk(ctx):
    """_cbcoordchk builds the stiffness-based rigid-body modes `rbs` from the boundary partition of the stiffness: identity at the six reference DOF and
    -Koo^-1 Kor at the other boundary DOF (the constraint-mode equation Koo x_o + Kor x_r = 0), zero at boundary DOF without stiffness (trimmed before
    the solve, re-inserted afterwards) and at the modal DOF.  After trimming, the reference DOF must be renumbered *each by the number of removed DOF in
    front of it* - a common shift is wrong as soon as a removed DOF lies between two reference DOF (reference DOF spread over several nodes)."""
    fn = cs.func(ctx, CB, "_cbcoordchk")
    inl, consts = _tables(ctx, exclude=("rbdispchk", "_rbdispchk"))

    def cond(test, ev):
        # the regime evaluated: there are boundary DOF besides the reference DOF (`o.size > 0` for o = complement of the reference DOF)
        v = ev.ev(test)
        u = unfn(v) if is_rat(v) else None
        if u is not None and len(u[1]) == 2 and eq(u[1][1], F.const(0)) and u[0] in ("cmp:Gt", "cmp:NotEq", "cmp:Eq", "cmp:LtE"):
            w = unfn(u[1][0])
            if w is not None and w[0] in ("attr:size", "call:len", "dim") and (w[0] != "dim" or eq(w[1][1], F.const(0))) \
                    and split_call(w[1][0]) is not None and split_call(w[1][0])[0] == "locate.flippv":
                return u[0] in ("cmp:Gt", "cmp:NotEq")
        if u is not None and w_is_len_of_flippv(v):
            return True          # `if o.size:` / `if len(o):`
        return None

    def w_is_len_of_flippv(v):
        w = unfn(v)
        return w is not None and w[0] in ("attr:size", "call:len", "dim") and (w[0] != "dim" or eq(w[1][1], F.const(0))) \
            and split_call(w[1][0]) is not None and split_call(w[1][0])[0] == "locate.flippv"

    kbb = "K[np.ix_(bset, bset)]"
    NZ = f"{kbb}.any(axis=0)"

    def run(trim):
        # parameters of the private function are bound by position (fout, K, bset, refpoint, grids, ttl, verbose, rb_normalizer): their names may change
        names = ("fout", "K", "bset", "refpoint", "grids", "ttl", "verbose", "rb_normalizer")
        S = Run(ctx, fn, args=[F.sym(n) for n in names], inline=inl, consts=consts, callv=_solve_model, cond=cond, objs=names, run=False)
        S.sign("len(bset) - 6", "pos")
        S.index_vector("bset")          # positions of the boundary DOF (documented): K[np.ix_(bset, bset)] has len(bset) rows
        S.truth(f"(~{NZ}).any()", trim)
        S.truth(f"{NZ}.any()", True)          # some boundary DOF has stiffness
        S.truth("verbose", False)
        S.truth("rb_normalizer is None", True)
        S.sign("np.size(K, 0) - len(bset)", "pos")
        S.go()
        return S

    def unwrap(S, what):
        r = S.ret()
        if not isinstance(r, NS) or "rbmodes" not in r.fields or not is_rat(r.fields["rbmodes"]):
            ctx.error(f"_cbcoordchk ({what}): the returned namespace (field rbmodes) was not lowered", fn, _r(r))
            return None
        full = r.fields["rbmodes"]
        b = S.buf(full)
        cl = S.cells(full)
        if b is None or (not cl and not (is_rat(b.init) and b.init.is_const())):
            ctx.error(f"_cbcoordchk ({what}): the returned modes are not an array filled by stores (zeros, boundary rows stored): not lowered", r.node or fn,
                      _r(full if b is None else b.init, 300))
            return None
        inner = S.cell(full, "bset")
        ok = b is not None and is_rat(b.init) and b.init.is_zero() and len(cl) == 1 and is_rat(inner)
        _chk(ctx, S, ok, f"_cbcoordchk ({what}): with modal DOF present the returned modes are zero at the modal DOF and the boundary modes at the b-set rows", r.node or fn,
             None if ok else {"rbmodes": _r(full), "stores": [(_r(i, 80), _r(v, 120)) for i, v, _ in cl]}, arrays=[full])
        return inner if ok else None

    def modes(S, R, ref, kb, nb, what):
        """R: the array of boundary modes; ref: value of the reference DOF; kb: value of the boundary stiffness; nb: value of its size"""
        o = S.root("locate.flippv(__r, __n)", __r=ref, __n=nb)
        eye = S.cell(R, ref)
        oth = S.cell(R, o)
        b = S.buf(R)
        sc = split_call(eye) if is_rat(eye) else None
        ok = sc is not None and sc[0] in ("np.eye", "np.identity") and sc[1] and eq(sc[1][0], F.const(6))
        _chk(ctx, S, ok, f"_cbcoordchk ({what}): the rigid-body modes are the identity at the six reference DOF", fn,
             None if ok else {"stores": [(_r(i, 100), _r(v, 100)) for i, v, _ in S.cells(R)]}, arrays=[R], known=[(R, [ref, o])])
        want = -S.root("__k[np.ix_(__o, __r)]", __k=kb, __o=o, __r=ref) / S.root("__k[np.ix_(__o, __o)]", __k=kb, __o=o)
        ok = eq(oth, want) and len(S.cells(R)) == 2 and b is not None and is_rat(b.init) and b.init.is_zero()
        _chk(ctx, S, ok, f"_cbcoordchk ({what}): at the other boundary DOF the modes are -Koo^-1 Kor (Koo x_o + Kor x_r = 0 with the partitions of the same boundary "
                         "stiffness, o the complement of the reference DOF)", fn, None if ok else {"got": _r(oth, 300), "want": _r(want, 300)}, arrays=[R],
             known=[(R, [ref, o])])

    # ---- every boundary DOF has stiffness
    S = run(False)
    R = unwrap(S, "no null boundary DOF")
    if R is not None:
        modes(S, R, S.root("refpoint - np.min(bset)"), S.root(kbb), S.root("len(bset)"), "no null boundary DOF")
    # ---- some boundary DOF have no stiffness: trimmed, solved, re-inserted
    S = run(True)
    X = unwrap(S, "null boundary DOF")
    if X is None:
        return
    bx = S.buf(X)
    if bx is None:
        ctx.error("_cbcoordchk (null boundary DOF): the boundary modes with the null rows re-inserted are not an array filled by stores: not lowered", fn, _r(X, 300))
        return
    cl = S.cells(X)
    R = S.cell(X, S.root(NZ))
    zr = S.cell(X, S.root(f"~{NZ}"))
    zeroed = (is_rat(zr) and zr.is_zero() and len(cl) == 2) or (zr is None and bx is not None and is_rat(bx.init) and bx.init.is_zero() and len(cl) == 1)
    ok = is_rat(R) and zeroed
    _chk(ctx, S, ok, "_cbcoordchk (null boundary DOF): the computed modes go back to the rows that have stiffness, the rows without stiffness are zero", fn,
         None if ok else {"stores": [(_r(i, 100), _r(v, 100)) for i, v, _ in cl]}, arrays=[X])
    if not ok:
        return
    k1 = S.root(f"{kbb}[np.ix_({NZ}, {NZ})]")
    cr = S.cells(R)
    refs = [ix for ix, v, _ in cr if is_rat(v) and split_call(v) is not None and split_call(v)[0] in ("np.eye", "np.identity")]
    if len(refs) != 1 or not is_rat(refs[0]):
        ctx.error("_cbcoordchk (null boundary DOF): the store of the identity at the reference DOF was not found", fn, [(_r(i, 100), _r(v, 100)) for i, v, _ in cr])
        return
    new = refs[0]
    if cs._is_mask(new):
        new = F.fn("nonzero0", new)          # a store index is recorded as the mask; everywhere else the code holds the positions of that mask
    old = S.root("refpoint - np.min(bset)")
    modes(S, R, new, k1, S.root("__k.shape[0]", __k=k1), "null boundary DOF")
    # ---- the renumbering of the reference DOF
    good = False
    u = unfn(new)
    if u is not None and u[0] == "nonzero0":
        w = unfn(u[1][0])
        if w is not None and w[0] == "idx" and eq(w[1][1], S.root(NZ)):
            mask = w[1][0]
            sc = split_call(mask)
            if sc is not None and sc[0] == "locate.index2bool" and len(sc[1]) == 2 and eq(sc[1][0], old) and S.same(sc[1][1], "len(bset)"):
                good = True
            mb = S.buf(mask)
            if mb is not None and is_rat(mb.init) and mb.init.is_zero():
                mc = S.cells(mask)
                if len(mc) == 1 and eq(mc[0][0], old) and is_rat(mc[0][1]) and mc[0][1].equals(1):
                    good = True
    # other spellings of the same compaction: old - (number of removed DOF up to it), position of old among the kept DOF
    Z = S.root(f"~{NZ}")
    for cand in ("__o - np.cumsum(__z)[__o]", "np.searchsorted(np.flatnonzero(__n), __o)", "np.cumsum(__n)[__o] - 1"):
        if eq(new, S.root(cand, __o=old, __z=Z, __n=S.root(NZ))):
            good = True
    if good:
        ctx.ok("_cbcoordchk (null boundary DOF): each reference DOF is renumbered by its own position among the DOF that are kept (membership mask of the "
               "reference DOF, selected by the same mask that trims the stiffness)", fn)
    else:
        try:
            shift = new - old
        except Unsupported:
            shift = None
        if shift is not None and _is_scalar(shift):
            ctx.fail("_cbcoordchk (null boundary DOF): each reference DOF is renumbered by its own position among the DOF that are kept", fn,
                     {"new - old": _r(shift, 300), "why": "all six reference DOF are shifted by one common number: wrong whenever a removed (null) DOF lies between two "
                                                          "reference DOF, e.g. reference DOF spread over several nodes"})
        else:
            ctx.error("_cbcoordchk (null boundary DOF): the renumbering of the reference DOF after trimming was not recognised", fn, _r(new, 400))


# ============================================================================================================ R7  cbcheck(reorder=True)   (NOT registered)
def _concrete(S, v, world, depth=0):
    """value of an index expression in a finite world {symbol name: tuple of ints}: only order-based operations (sort, argsort, searchsorted,
    gather, arange, len, scatter into a fresh array) - None when anything else occurs"""
    if depth > 12 or not is_rat(v):
        return None
    if v.is_const():
        c = v.const_value()
        return int(c) if c.denominator == 1 else None
    n = cs.symname(v)
    if n is not None and n in world:
        return world[n]
    b = S.buf(v)
    if b is not None and n is not None:
        cells = S.cells(v)
        shp = _concrete(S, b.shape[0], world, depth + 1) if b.shape and len(b.shape) == 1 and is_rat(b.shape[0]) else None
        if b.shape and b.shape[0] == "like":
            like = _concrete(S, b.shape[1], world, depth + 1)
            shp = len(like) if isinstance(like, tuple) else None
        if shp is None or not cells:
            return None
        out = [None] * shp
        for ix, val, _ in cells:
            i_, v_ = _concrete(S, ix, world, depth + 1), _concrete(S, val, world, depth + 1)
            if not isinstance(i_, tuple) or not isinstance(v_, tuple) or len(i_) != len(v_) or any(not 0 <= k < shp for k in i_):
                return None
            for k, x in zip(i_, v_):
                out[k] = x
        return None if any(x is None for x in out) else tuple(out)
    u = unfn(v)
    if u is None:
        return None
    nm, args = u
    if nm == "dim" and len(args) == 2 and eq(args[1], F.const(0)):
        x = _concrete(S, args[0], world, depth + 1)
        return len(x) if isinstance(x, tuple) else None
    if nm == "arange0" and len(args) == 1:
        k = _concrete(S, args[0], world, depth + 1)
        return tuple(range(k)) if isinstance(k, int) and 0 <= k <= 64 else None
    if nm == "idx" and len(args) == 2:
        x, i_ = _concrete(S, args[0], world, depth + 1), _concrete(S, args[1], world, depth + 1)
        if isinstance(x, tuple) and isinstance(i_, tuple) and all(isinstance(k, int) and 0 <= k < len(x) for k in i_):
            return tuple(x[k] for k in i_)
        return None
    sc = split_call(v)
    if sc is None or (set(sc[2]) - {"kind"}):
        return None          # the sorting algorithm does not matter: the worlds hold distinct values
    xs = [_concrete(S, a, world, depth + 1) for a in sc[1]]
    if sc[0] in ("np.argsort", ".argsort") and len(xs) == 1 and isinstance(xs[0], tuple):
        return tuple(sorted(range(len(xs[0])), key=lambda k: (xs[0][k], k)))
    if sc[0] in ("np.sort", "sorted") and len(xs) == 1 and isinstance(xs[0], tuple):
        return tuple(sorted(xs[0]))
    if sc[0] in ("len", "np.size") and len(xs) == 1 and isinstance(xs[0], tuple):
        return len(xs[0])
    if sc[0] in ("np.searchsorted", ".searchsorted") and len(xs) == 2 and all(isinstance(x, tuple) for x in xs):
        import bisect
        return tuple(bisect.bisect_left(xs[0], t) for t in xs[1])
    return None


def r7_reorder_geometry(ctx):
    """cbcheck(reorder=True) moves the boundary DOF to the front *in the order of bseto* (cbreorder: new row j is old DOF bseto[j] - C06-R3) and must hand
    the geometry table to rbgeom_uset with its rows in that same order, otherwise grid j of the geometry-based modes is paired with the stiffness and
    mass of another grid.  Decided in a finite world - every ordering of three distinct boundary DOF; sort / argsort / searchsorted / gather see values
    only through comparisons, so a mismatch found there is a mismatch for three boundary grids in that order.  Both readings of the table's row order
    are accepted (rows ascending in DOF - the b-set rows of a Nastran USET table -, or rows already in bseto order); a gather that fits neither
    reading for some ordering is reported.

    Finding F17 (fixed in /repo by 071f5a3): the pinned tree gathered with np.argsort(bseto), the inverse of the permutation needed, and failed this rule
    for the two cyclic orderings of three grids (confirmed with a run in a scratch copy: nas2cam_csuper SE 101, b-set grids in the order 11, 19, 3, 27)."""
    import itertools
    fn = cs.func(ctx, CB, "cbcheck")
    worker = "_cbcoordchk" if "_cbcoordchk" in cs.pristine(ctx, CB)[0] else "cbcoordchk"
    keep_opaque = (worker, "_solve_eig", "cgmass", "cbconvert", "cbreorder", "uset_convert", "_print_type_info", "_values_check",
                   "rbdispchk", "_rbdispchk", "rbmultchk", "_rbmultchk", "mk_net_drms", "cbtf")
    inl, consts = _tables(ctx, exclude=keep_opaque)
    S = Run(ctx, fn, inline=inl, consts=consts, erase_T=True, run=False)
    S.truth("uset is None", False)
    S.truth("conv is None", True)
    S.truth("reorder", True)
    S.truth("rb_norm is None", False)
    S.truth("rb_norm", False)
    S.sign("len(locate.flippv(bseto, np.size(Mcb, 0)))", "pos")
    S.sign("np.size(Mcb, 0) - len(bseto)", "pos")
    S.sign("em_filt", "zero")
    S.go()
    ffs = S.calls("_solve_eig")
    geo = S.calls("n2p.rbgeom_uset")
    if len(ffs) != 1 or len(geo) != 1:
        ctx.error("cbcheck (reorder=True): the free-free solution / the geometry-based modes were not found", fn, [len(ffs), len(geo)])
        return
    pf = place(ffs[0][1], ffs[0][2], signature(cs.func(ctx, CB, "_solve_eig")))
    pf = list(pf.values())
    ok = len(pf) >= 4 and S.same(pf[1], "cbreorder(Kcb, bseto)") and S.same(pf[2], "cbreorder(Mcb, bseto)")
    ctx.check(ok, "cbcheck (reorder=True): mass and stiffness are reordered with the boundary DOF first, in the order of bseto", ffs[0][3], None if ok else [_r(x, 120) for x in pf[1:3]])
    if not ok:
        return
    tab = place(geo[0][1], geo[0][2], ["uset", "refpoint"]).get("uset")
    U = S.root("uset[n2p.mksetpv(uset, 'p', 'b')]")
    P = None
    if eq(tab, U):
        P = "identity"
    else:
        u = unfn(tab) if is_rat(tab) else None
        if u is not None and u[0] == "idx" and eq(u[1][0], F.fn("attr:iloc", U)):
            P = u[1][1]
    if P is None:
        ctx.error("cbcheck (reorder=True): the geometry table handed to rbgeom_uset is not a row selection of the b-set rows of `uset`", geo[0][3], _r(tab, 300))
        return
    bad_a, bad_b = None, None
    for p_ in itertools.permutations((2, 5, 9)):
        got = tuple(range(3)) if P == "identity" else _concrete(S, P, {"bseto": p_})
        if not isinstance(got, tuple) or len(got) != 3 or sorted(got) != [0, 1, 2]:
            ctx.error("cbcheck (reorder=True): the row order of the geometry table could not be evaluated", geo[0][3], {"rows": _r(P, 300), "bseto": p_, "value": got})
            return
        srt = sorted(p_)
        if bad_b is None and tuple(srt[k] for k in got) != p_:
            bad_b = {"bseto": p_, "matrix rows hold DOF": p_, "table rows (ascending table) hold DOF": tuple(srt[k] for k in got)}
        if bad_a is None and got != (0, 1, 2):
            bad_a = {"bseto": p_, "matrix rows hold DOF": p_, "table rows (table in bseto order) hold DOF": tuple(p_[k] for k in got)}
    ok = bad_a is None or bad_b is None
    ctx.check(ok, "cbcheck (reorder=True): row j of the geometry table given to rbgeom_uset describes the DOF in row j of the reordered mass and stiffness "
                  "(for every ordering of three boundary DOF, under either reading of the table's row order)", geo[0][3], None if ok else [bad_b, bad_a])


# ============================================================================================================ R8  cgmass
def r8_cgmass(ctx):
    """cgmass recovers the mass properties of any rigid 6x6 mass.  The mass of a rigid body seen from a reference point is
    M = T^T blkdiag(diag(mx, my, mz), J) T with T = [[1, -skew(d)], [0, 1]] (d the offset of the cg, J the inertia about the cg; the translational
    mass may differ per direction - the general form of the function's own documentation).  cgmass is run on that matrix with its entries as exact
    polynomials in mx, my, mz, dx, dy, dz and the six entries of J (verifier/c06_cgmass.py: dense arrays of concrete shape, views share storage,
    helpers followed) and must return, identically in the twelve symbols: the offset d, and blkdiag(diag(mx, my, mz), J) - translational block
    unchanged, coupling blocks zero, rotary block J; with all6 the same two results, J again as the inertia, and radii of gyration with
    gyr_i^2 = J_ii / m_i.  A subscript mix-up in the parallel-axis terms is invisible for an isotropic mass (mx = my = mz) and for every stored
    model; here it leaves a non-zero polynomial."""
    from . import c06_cgmass as cg
    fn = cs.func(ctx, CB, "cgmass")
    funcs = {k: v for k, v in cs.module_funcs(ctx, CB).items() if k != "cgmass"}
    consts = cs.module_consts(ctx, CB)
    aliases = cs.import_aliases(ctx, CB)
    params = [a.arg for a in fn.args.posonlyargs + fn.args.args]
    if len(params) < 1 or fn.args.vararg is not None:
        ctx.error("cgmass: the signature (mass matrix first) was not recognised", fn, params)
        return

    def evaluate(all6):
        M, masses, d, J = cg.rigid_mass()
        before = M.cells()
        mach = cg.Machine(funcs, consts, aliases)
        kw = {}
        if "all6" in params or any(a.arg == "all6" for a in fn.args.kwonlyargs):
            kw["all6"] = all6
        elif all6:
            return None
        try:
            ret = mach.call_closure(cg.Closure(fn, None, "cgmass"), [M], kw, fn)
        except cg.Raised as e:
            ctx.fail(f"cgmass (all6={all6}): returns for a symmetric rigid mass (every test on the way to this raise was decided)", e.node, str(e))
            return None
        except (Unsupported, RecursionError) as e:
            ctx.error(f"cgmass (all6={all6}): the function could not be followed by value", fn, str(e)[:200])
            return None
        for n_ in mach.notes:
            ctx.assume("cgmass: " + n_)
        return ret, masses, d, J, mach

    def table(v, shape):
        """cells of an array (or nested sequence) of the given shape; None when v is something else; "unknown" when a cell is not known"""
        if isinstance(v, (list, tuple)):
            try:
                v = cg.to_arr(v)
            except Unsupported:
                return None
        if cg.is_unknown(v):
            return "unknown"
        if not isinstance(v, cg.Arr) or v.shape != shape:
            return None
        cells = v.cells()
        if any(cg.is_unknown(c) for c in cells):
            return "unknown"
        if not all(cg.is_num(c) for c in cells):
            return None
        return cells

    def obligation(cells, want, text, node, shape):
        if cells == "unknown":
            ctx.error(text + " [not decided: a value reaching this comparison is unknown]", node)
            return False
        if cells is None:
            return ctx.check(False, text, node, f"the result is not an array of shape {shape}")
        bad = [(divmod(i, shape[-1]) if len(shape) == 2 else i, _r(c - w, 200)) for i, (c, w) in enumerate(zip(cells, want)) if not c.equals(w)]
        return ctx.check(not bad, text, node, None if not bad else {"returned minus expected, at the entries that differ": bad[:6]})

    def block(cells, r0, c0):
        return [cells[(r0 + i) * 6 + c0 + j] for i in range(3) for j in range(3)]

    first = None
    for all6 in (False, True):
        res = evaluate(all6)
        if res is None:
            continue
        ret, masses, d, J, mach = res
        n_want = 6 if all6 else 2
        if cg.is_unknown(ret):
            ctx.error(f"cgmass (all6={all6}): the returned value is unknown", fn, repr(ret))
            continue
        if not isinstance(ret, (tuple, list)) or len(ret) != n_want:
            ctx.check(False, f"cgmass (all6={all6}): returns {n_want} values (mcg, dxyz" + (", gyr, princ_gyr, I, princ_I)" if all6 else ")"), fn,
                      type(ret).__name__ if not isinstance(ret, (tuple, list)) else len(ret))
            continue
        mcg, dxyz = table(ret[0], (6, 6)), table(ret[1], (3,))
        zero9 = [cg.ZERO] * 9
        Jc = [J[i][j] for i in range(3) for j in range(3)]
        diag = [masses[i] if i == j else cg.ZERO for i in range(3) for j in range(3)]
        if not all6:
            obligation(dxyz, list(d), "cgmass: the returned offset is the offset d of the cg from the reference point, for every rigid mass "
                                      "M = T^T blkdiag(diag(mx, my, mz), J) T", fn, (3,))
            if isinstance(mcg, list):
                obligation(block(mcg, 0, 0), diag, "cgmass: the translational block of the mass at the cg is diag(mx, my, mz)", fn, (3, 3))
                ok1 = all(c.equals(z) for c, z in zip(block(mcg, 0, 3) + block(mcg, 3, 0), zero9 + zero9))
                ctx.check(ok1, "cgmass: the translation / rotation coupling blocks of the mass at the cg are zero (both of them)", fn,
                          None if ok1 else {"upper right": [_r(c, 80) for c in block(mcg, 0, 3)], "lower left": [_r(c, 80) for c in block(mcg, 3, 0)]})
                obligation(block(mcg, 3, 3), Jc, "cgmass: the rotary block of the mass at the cg is the inertia about the cg, identically in mx, my, mz, d and J "
                                                  "(parallel-axis terms: the mass that multiplies d_j^2 in I_ii is the mass moving in the third direction)", fn, (3, 3))
            else:
                for text in ("cgmass: the translational block of the mass at the cg is diag(mx, my, mz)",
                             "cgmass: the translation / rotation coupling blocks of the mass at the cg are zero (both of them)",
                             "cgmass: the rotary block of the mass at the cg is the inertia about the cg, identically in mx, my, mz, d and J "
                             "(parallel-axis terms: the mass that multiplies d_j^2 in I_ii is the mass moving in the third direction)"):
                    obligation(mcg, None, text, fn, (6, 6))
            first = (mcg, dxyz)
        else:
            if first is not None and isinstance(first[0], list) and isinstance(first[1], list):
                same = isinstance(mcg, list) and isinstance(dxyz, list) and all(a.equals(b) for a, b in zip(mcg + dxyz, first[0] + first[1]))
                if mcg == "unknown" or dxyz == "unknown":
                    ctx.error("cgmass: all6 changes how much is returned, not the mass at the cg and the offset [not decided: a value is unknown]", fn)
                else:
                    ctx.check(same, "cgmass: all6 changes how much is returned, not the mass at the cg and the offset", fn)
            obligation(table(ret[4], (3, 3)), Jc, "cgmass (all6): the inertia matrix returned is the inertia about the cg", fn, (3, 3))
            gyr = table(ret[2], (3,))
            if isinstance(gyr, list):
                gyr = [g * g for g in gyr]
            obligation(gyr, [J[i][i] / masses[i] for i in range(3)], "cgmass (all6): radii of gyration: gyr_i^2 = I_ii / m_i (inertia about the cg over the mass "
                                                                      "in that direction)", fn, (3,))


def _r9(ctx):
    from .c06_order import r9_reorder_worlds
    r9_reorder_worlds(ctx)


_r9.__doc__ = "cbreorder executed by value on every ordered boundary selection of a 4-DOF world (see c06_order)"


RULES = [
    ("C06-R1", r1_cbtf, 30),
    ("C06-R2", r2_conversion, 17),
    ("C06-R3", r3_reorder, 9),
    ("C06-R4", r4_static_condensation, 8),
    ("C06-R5", r5_cbcheck_quantities, 24),
    ("C06-R6", r6_coordchk, 8),
    ("C06-R7", r7_reorder_geometry, 2),
    ("C06-R8", r8_cgmass, 7),
    ("C06-R9", _r9, 4),
]
LEVEL = "other"
EXPLANATION = ("Static, decided on values (the functions are evaluated on symbols; arrays are found through the field names of the returned namespace, report "
               "quantities through the label they are written under, helpers are followed): cbtf returns the enforced boundary acceleration itself, loads the interior "
               "equations with the coupling terms of the full equations, solves them with no rigid-body set, forms the boundary force from the boundary rows, with every "
               "subscript in its own index space, also for the all-boundary model; unit-conversion constants are exact reciprocals and applied on the documented sides "
               "and rows; cbreorder permutes symmetrically; _solve_eig's static condensation of massless DOF (Schur complement, reduced mass, expansion satisfying the "
               "massless equilibrium) and its removal of null rows/columns, alone and combined; cbcheck's report and namespace use each rigid-body set with the matrix "
               "partition of its own size under its own label; _cbcoordchk's stiffness-based modes (identity at the reference DOF, -Koo^-1 Kor elsewhere, zero rows at "
               "null DOF, per-DOF renumbering of the reference DOF after trimming); cgmass run on the rigid mass T^T blkdiag(diag(mx, my, mz), J) T with polynomial "
               "entries returns the offset d and blkdiag(diag(m), J) identically (exact algebra; direction-dependent translational mass included).")
MANIFEST = {
    "text": "Thin partial claim decided statically: (R1) cbtf: enforced boundary acceleration, boundary / interior displacement, interior right-hand side and its 0 Hz guard, "
            "boundary force rows, velocity, interior solver partitions and rb=[], index-space typing of every subscript of the result, the all-boundary model, the solver cache; "
            "(R2) m2e/e2m constants reciprocal to 2^-51, cbconvert row / column diagonals per block and their inverses, uset_convert scales exactly the length rows and the "
            "reference location; (R3) cbreorder's symmetric permutation for all option combinations; (R4) cbcheck's free-free eigensolution helper _solve_eig: reduced stiffness = "
            "Kxx - Kxz Kzz^-1 Kzx, reduced mass = Mxx, the eigenproblem solved for exactly those, expanded massless rows = -Kzz^-1 Kzx v, null rows/columns removed by one mask "
            "and re-inserted as zeros, both reductions combined; (R5) cbcheck builds the mass, grounding and effective-mass quantities of the stiffness / geometry / "
            "eigensolution rigid-body sets from the matrix partition of each set's own size and writes each under its own label / namespace field, rbe normalised at the "
            "reference DOF; (R6) _cbcoordchk: identity at the reference DOF, -Koo^-1 Kor at the other boundary DOF, null boundary DOF trimmed and re-inserted as zero rows, "
            "reference DOF renumbered one by one after trimming, modal rows zero; (R7) cbcheck(reorder=True) hands the geometry rows over in the order of the reordered matrices; "
            "(R8) cgmass evaluated entry by entry on the symbolic rigid 6x6 mass M = T^T blkdiag(diag(mx, my, mz), J) T (T = [[1, -skew(d)], [0, 1]]): returned offset = d, "
            "mass at the cg = blkdiag(diag(mx, my, mz), J) (translational block, both coupling blocks zero, rotary block J as polynomial identities), all6 returns the same "
            "two plus I = J and gyr_i^2 = J_ii / m_i; (R9) cbreorder executed by value on a finite world - M a matrix of distinct symbols, b every ordered selection of 1..4 of 4 DOF "
            "(ascending or not, leading block or not), drm and last both ways: the result is M taken at (b, q) / (q, b) in the caller's order of b, cell by cell. Not decided: cbcheck's rigid-body, effective-mass and grounding numbers, cgmass's principal-axis results (eigensolution) "
            "and its behaviour on non-rigid or non-symmetric input, numerical accuracy of cbtf.",
    "note": "Trusted: CPython ast; verifier/e2_formula.py, verifier/c06_sem.py, verifier/c06_cgmass.py (numpy semantics of dense arrays of concrete shape: views, broadcasting, "
            "in-place updates), verifier/c14_np.py (the by-value numpy interpreter, R9; locate.flippv by its documented meaning); the USET row layout documented in n2p.addgrid (row 1 location, row 2 ids, row 3 origin, rows 4-6 T).",
    "technique": "symbolic evaluation on values (arrays as objects, namespaces by field name, helpers followed, regimes as facts about values) + index-space typing of the "
                 "evaluated subscripts; by-value execution on an exhaustive finite world of index vectors (cbreorder)",
}
