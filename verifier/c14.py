"""C14 -- coordinate systems and rigid-body geometry (thin partial claim).

Every rule is decided on *values*: the functions are evaluated on symbols (verifier/c14_sem.py, on top of AutoEvaluator), regime by
regime, and the values that reach a return, a store or a call are compared with the geometric meaning - never with a spelling."""
from __future__ import annotations

import ast
from fractions import Fraction

from . import e2_formula as F
from . import c14_sem as G
from .core import AnchorError, Unsupported
from .e1_srcmodel import dotted, parent
from .e2_eval import is_unknown

N2P = "pyyeti/nastran/n2p.py"
PI = F.sym("pi")
# API of the module whose *calls* the rules speak about (never inlined, whatever their spelling)
PUBLIC_STOPS = ("_get_loc_a_basic", "_mkusetcoordinfo_byid")


def _show(v, n=300):
    s = repr(v)
    return s if len(s) <= n else s[:n] + "..."


def _inline(ctx):
    return G.helpers(ctx, N2P, exclude=PUBLIC_STOPS)


# ------------------------------------------------------------------------------------------------ R1: forward / inverse point maps
def _euler():
    """a general proper rotation Rz(al) Rx(be) Rz(ga): orthonormality is carried by sin^2 + cos^2 = 1 of the normal form, so T.T @ T is
    the identity *by evaluation* and a transposed or misplaced factor is not"""
    al, be, ga = F.sym("al"), F.sym("be"), F.sym("ga")

    def rz(t):
        c, s = F.cos(t), F.sin(t)
        return ((c, -s, F.const(0)), (s, c, F.const(0)), (F.const(0), F.const(0), F.const(1)))

    def rx(t):
        c, s = F.cos(t), F.sin(t)
        return ((F.const(1), F.const(0), F.const(0)), (F.const(0), c, -s), (F.const(0), s, c))
    return G.matmul(G.matmul(rz(al), rx(be)), rz(ga))


def _coordinfo(ctype, T):
    org = tuple(F.sym(f"o{k}") for k in range(3))
    return ((F.sym("cid"), F.const(ctype), F.const(0)), org) + tuple(T), org


def _free_of(v, names):
    return not any(G.mentions_sym(v, n) for n in names)


class _Acc:
    """obligations of a rule merged over the regimes that reach them (one obligation per meaning; it fails when any regime fails)"""

    def __init__(self, ctx):
        self.ctx = ctx
        self.d = {}

    def check(self, ok, msg, where=None, detail=None, nontrivial=True):
        cur = self.d.get(msg)
        if cur is None:
            self.d[msg] = [bool(ok), where, None if ok else detail, nontrivial]
        else:
            if not ok and cur[0]:
                cur[0], cur[1], cur[2] = False, where, detail
            cur[3] = cur[3] or nontrivial
        return ok

    def flush(self):
        for msg, (ok, where, detail, nt) in self.d.items():
            self.ctx.check(ok, msg, where, detail, nontrivial=nt)
        self.d = {}


def r1_inverse_pair(ctx):
    acc = _Acc(ctx)
    fwd = ctx.src.func(N2P, "_get_loc_a_basic")
    inv = ctx.src.func(N2P, "getcoordinates")
    inline = _inline(ctx)
    T = _euler()
    a = tuple(F.sym(f"a{k}") for k in range(3))
    x1, x2 = a[1] * PI / 180, a[2] * PI / 180
    atan2 = G.atan2_rule([x1, x2], [a[0], a[0] * F.sin(x1)])

    def hook(name, node, ev):
        if name in G.ATAN2 and len(node.args) == 2:
            y, x = ev.ev(node.args[0]), ev.ev(node.args[1])
            if G.is_rat(y) and G.is_rat(x):
                return atan2(y, x)
        if name in ("math.acos", "np.arccos") and len(node.args) == 1:
            v = ev.ev(node.args[0])
            # acos(cos u) = u for the polar angle 0 <= u <= 180 deg
            if G.is_rat(v) and G.same(v, F.cos(x1)):
                return x1
        return NotImplemented

    for ctype, label in ((1, "rectangular"), (2, "cylindrical"), (3, "spherical")):
        ci, org = _coordinfo(ctype, T)
        # ---- forward
        evs = G.explore(ctx, N2P, fwd, env={"coordinfo": ci, "a": a}, inline=inline)
        locs = [ev.ret() for ev in evs if not ev.raised]
        cells = ("cid", "o0", "o1", "o2", "al", "be", "ga")
        und = sorted({ast.unparse(n) for ev in evs for v, n, d in ev.sh.asked
                      if G.is_rat(v) and G.fold_bool(v) is None and any(G.mentions_sym(v, c) for c in cells)})
        if und:
            ctx.fail(f"_get_loc_a_basic ({label}): the map is selected by the type code (row 0, column 1 of the 5x3 coordinate-system record) alone", fwd,
                     {"tests on other cells of the record": und[:4]})
            continue
        if len(locs) > 1 and all(G.same(x, locs[0]) for x in locs[1:]):
            locs = locs[:1]
        loc = locs[0] if len(locs) == 1 else None
        if not (isinstance(loc, tuple) and len(loc) == 3 and not G.any_unknown(loc)):
            ctx.error(f"_get_loc_a_basic ({label}): basic location", fwd, _show(locs))
            continue
        vec = G.matmul(G.transpose(T), tuple(l - o for l, o in zip(loc, org)))
        ok = _free_of(vec, ("al", "be", "ga", "o0", "o1", "o2"))
        ctx.check(ok, f"_get_loc_a_basic ({label}): basic location = origin + T @ (local cartesian vector of the entered coordinates)", fwd,
                  None if ok else _show(loc))
        if ctype == 1:
            ok = G.same(vec, a)
            ctx.check(ok, "_get_loc_a_basic: type 1 is rectangular (the entered coordinates are the local cartesian vector)", fwd, None if ok else _show(vec))

        # ---- inverse of the forward result, every regime of getcoordinates that produces a result
        def hook2(name, node, ev, ci=ci):
            if name == "mkusetcoordinfo":
                ev._record(name, node)
                return ci
            return hook(name, node, ev)
        env = {"gid": (loc,), "csys": F.const(7)}
        paths = [ev for ev in G.explore(ctx, N2P, inv, env=env, hook=hook2, inline=inline) if not ev.raised]
        if not paths:
            ctx.error(f"getcoordinates ({label}): no regime returns", inv)
            continue
        sx, cx = G.atom_id(F.sin(x2)), G.atom_id(F.cos(x2))
        for ev in paths:
            res = ev.ret()
            branch = _branch_tag(ev, sx, cx) if ctype == 3 else ""
            tag = f"getcoordinates o _get_loc_a_basic ({label}{branch})"
            if not (isinstance(res, tuple) and len(res) == 3):
                ctx.error(f"{tag}: result", ev.returns[-1][1] if ev.returns else inv, _show(res))
                continue
            where = ev.returns[-1][1]
            if ctype == 1:
                ok = G.same(res, a)
                acc.check(ok, f"{tag}: identity - the origin is subtracted before the transposed transform is applied (inverse of `origin + T @ v` "
                              "for an orthonormal T)", where, None if ok else _show(res))
                continue
            names = ("R", "theta", "z") if ctype == 2 else ("R", "theta (polar angle, entered second)", "phi (azimuth, entered third)")
            how = ("hypot / norm of the local vector", "atan2(y, x) * 180/pi undoes the pi/180 conversion (argument order, reciprocal factors)",
                   "passed through" if ctype == 2 else "atan2(y, x) * 180/pi of the in-plane components")
            for k in range(3):
                ok = G.same(res[k], a[k])
                acc.check(ok, f"{tag}: {names[k]} is recovered ({how[k]})", where, None if ok else _show(res[k]))
            if ctype == 3 and all(G.same(res[k], a[k]) for k in range(3)):
                _divisor_guard(ctx, acc, ev, tag, x1, x2, a, where)
    acc.flush()


def _branch_tag(ev, sx, cx):
    """the regime of the spherical inverse, named by what it divides by (not by the spelling of its test)"""
    kinds = set()
    for num, den, node in ev.sh.divs:
        if not G.is_rat(den):
            continue
        ids = {aid for aid, _ in G.atoms_of(den)}
        if sx in ids:
            kinds.add("sin")
        if cx in ids:
            kinds.add("cos")
    if not kinds:
        return ", regime without a quotient by sin / cos of the azimuth"
    return ", regime with a quotient by " + " and ".join(sorted(kinds)) + " of the azimuth"


def _divisor_guard(ctx, acc, ev, tag, x1, x2, a, where):
    """spherical inverse: a quotient by sin(phi) or cos(phi) of the recovered azimuth is formed only on a branch that is not selected where
    that divisor vanishes (phi = 0 / 180 deg resp. +-90 deg are ordinary points, not polar singularities)"""
    sx, cx = G.atom_id(F.sin(x2)), G.atom_id(F.cos(x2))
    base = {G.atom_id(a[0]): Fraction(2), G.atom_id(F.sin(x1)): Fraction(3, 5), G.atom_id(F.cos(x1)): Fraction(4, 5),
            G.atom_id(a[1]): Fraction(30), G.atom_id(a[2]): Fraction(30), G.atom_id(PI): Fraction(22, 7)}
    points = {"phi = 0": (0, 1), "phi = 180 deg": (0, -1), "phi = 90 deg": (1, 0), "phi = -90 deg": (-1, 0)}
    tests = [(v, node, dec) for v, node, dec in ev.sh.asked if G.is_rat(v) and any(aid in (sx, cx) for aid, _ in G.atoms_of(v))]
    bad, undecided = [], []
    ndiv = 0
    for num, den, node in ev.sh.divs:
        if not G.is_rat(den) or not any(aid in (sx, cx) for aid, _ in G.atoms_of(den)):
            continue
        ndiv += 1
        for pname, (s_, c_) in points.items():
            asg = dict(base)
            asg[sx], asg[cx] = Fraction(s_), Fraction(c_)
            try:
                if G.conc(den, asg) != 0:
                    continue
                taken = all((G.conc(v, asg) != 0) == dec for v, _, dec in tests)
            except G.Undecided as e:
                undecided.append(f"{ast.unparse(node)} at {pname}: {e}")
                continue
            if taken:
                bad.append({"quotient": ast.unparse(node), "selected at": f"{pname} (sin = {s_}, cos = {c_})",
                            "tests": [f"{ast.unparse(n)} is {d}" for _, n, d in tests]})
    if undecided:
        ctx.error(f"{tag}: divisor of the in-plane radius", where, undecided)
        return
    acc.check(not bad, f"{tag}: a quotient by sin / cos of the azimuth is formed only where the selecting test keeps that divisor away from zero",
              where, None if not bad else {"violations": bad, "consequence": "the polar angle is computed from 0/0-like round-off at an ordinary point"},
              nontrivial=ndiv > 0)


# ------------------------------------------------------------------------------------------------------------ R3: rbgeom / rbmove
def _witness_truth(symbols, point, undecided):
    """truth of a test that speaks about `symbols` (atom ids) at the witness `point`; other tests stay undecided (the regime splits)"""
    ids = set(symbols)
    asg = dict(zip(symbols, point))

    def truth(v, node, ev):
        if not G.is_rat(v) or not any(aid in ids for aid, _ in G.atoms_of(v)):
            return None
        try:
            return G.conc(v, asg) != 0
        except G.Undecided as e:
            undecided.append(f"{ast.unparse(node)}: {e}")
            return None
    return truth


def _rbgeom_block(ev, fn):
    """6x6 block of one generic grid, assembled from the stores into the returned array (directly `x[a::6, c] = v`, or through an
    (n, 6, 6) reshaped view `b[:, i, j] = v`); raises Unsupported for a store it cannot place"""
    out = ev.ret()
    oid = G.ident(out) if G.is_rat(out) else None
    if oid is None or not oid.startswith("zeros#"):
        raise Unsupported(f"rbgeom: the returned array is not allocated by zeros() in the function ({_show(out)})")
    block = [[F.const(0)] * 6 for _ in range(6)]
    views = {}

    def ints(x):
        if isinstance(x, tuple):
            ks = [G.int_of(y) for y in x]
            return ks if all(k is not None for k in ks) else None
        if G.is_rat(x):
            k = G.int_of(x)
            if k is not None:
                return [k]
            it = ev._const_items(x)
            if it is not None:
                return [G.int_of(y) for y in it]
        return None

    def is_view(name):
        if name in views:
            return views[name]
        r = False
        for iv in [e.get(f"<init:{G.base_name(name)}>") for e in ev.sh.envs]:
            p = G.fn_parts(iv) if G.is_rat(iv) else None
            if p is None or p[0] not in ("call:.reshape", "call:np.reshape") or not p[1] or not G.same(p[1][0], out):
                continue
            dims = [G.untuple(x) for x in p[1][1:]]
            if len(dims) == 1 and isinstance(dims[0], tuple):
                dims = list(dims[0])
            if len(dims) == 3 and G.int_of(dims[1]) == 6 and G.int_of(dims[2]) == 6:
                r = True
        views[name] = r
        return r

    for name, ix, val, st in ev.cells:
        if name is None:
            raise Unsupported(f"rbgeom: store through an expression `{ast.unparse(st)}`")
        if isinstance(val, tuple) or is_unknown(val):
            if name == oid or is_view(name):
                raise Unsupported(f"rbgeom: stored value of `{ast.unparse(st)}` is not a per-grid scalar ({_show(val)})")
            continue
        if name == oid:
            if not (isinstance(ix, tuple) and len(ix) == 2):
                raise Unsupported(f"rbgeom: store `{ast.unparse(st)}`")
            sl = G.as_slice(ix[0]) if G.is_rat(ix[0]) else None
            cols = ints(ix[1])
            if sl is None or sl[1] is not None or sl[2] is None or G.int_of(sl[2]) != 6 or cols is None:
                raise Unsupported(f"rbgeom: store `{ast.unparse(st)}` is not `[a::6, c]`")
            a = 0 if sl[0] is None else G.int_of(sl[0])
            if a is None or not 0 <= a < 6 or len(cols) != 1 or not 0 <= cols[0] < 6:
                raise Unsupported(f"rbgeom: store `{ast.unparse(st)}`")
            block[a][cols[0]] = val
        elif is_view(name):
            if not (isinstance(ix, tuple) and len(ix) == 3):
                raise Unsupported(f"rbgeom: store `{ast.unparse(st)}`")
            sl = G.as_slice(ix[0]) if G.is_rat(ix[0]) else None
            ri, ci = ints(ix[1]), ints(ix[2])
            if sl != (None, None, None) or ri is None or ci is None:
                raise Unsupported(f"rbgeom: store `{ast.unparse(st)}` is not `[:, i, j]`")
            if len(ri) != len(ci):
                if len(ri) == 1:
                    ri = ri * len(ci)
                elif len(ci) == 1:
                    ci = ci * len(ri)
                else:
                    raise Unsupported(f"rbgeom: store `{ast.unparse(st)}`")
            for i, j in zip(ri, ci):
                if not (0 <= i < 6 and 0 <= j < 6):
                    raise Unsupported(f"rbgeom: store `{ast.unparse(st)}`")
                block[i][j] = val
    return tuple(tuple(r) for r in block)


def _rb_expected(x, y, z):
    o, i = F.const(0), F.const(1)
    return ((i, o, o, o, z, -y), (o, i, o, -z, o, x), (o, o, i, y, -x, o), (o, o, o, i, o, o), (o, o, o, o, i, o), (o, o, o, o, o, i))


def r3_rbgeom(ctx):
    fn = ctx.src.func(N2P, "rbgeom")
    inline = _inline(ctx)
    g = tuple(F.sym(f"g{k}") for k in "xyz")
    p = tuple(F.sym(f"p{k}") for k in "xyz")
    r = tuple(F.sym(f"r{k}") for k in "xyz")
    gids = {G.atom_id(a): b for a, b in zip(g, p)}

    def sub_hook(base, ix, node, ev):
        # `grids` is an (n, 3) array whose rows are treated alike: one generic row stands for it
        if G.is_vector(base) and len(base) == 3 and isinstance(ix, tuple) and len(ix) == 2 and G.is_rat(ix[0]) \
                and G.as_slice(ix[0]) == (None, None, None) and G.int_of(ix[1]) is not None and not G.any_unknown(base):
            return base[G.int_of(ix[1])]
        if G.is_vector(base) and len(base) == 3 and G.is_rat(ix) and G.same(ix, F.sym("refpoint")) and not G.any_unknown(base):
            return G.rebuild(base, gids)      # the row of the reference grid
        return NotImplemented

    def hook(name, node, ev):
        if name == "np.reshape" and len(node.args) == 2:
            v = ev.ev(node.args[0])
            if G.is_vector(v) and len(v) == 3:
                return v
        if isinstance(node.func, ast.Attribute) and node.func.attr == "reshape":
            v = ev.ev(node.func.value)
            if G.is_vector(v) and len(v) == 3:
                return v
        return NotImplemented

    def blocks(env, truth, what):
        evs = [ev for ev in G.explore(ctx, N2P, fn, truth=truth, hook=hook, sub_hook=sub_hook, env=env, inline=inline) if not ev.raised]
        out = []
        for ev in evs:
            try:
                out.append(_rbgeom_block(ev, fn))
            except Unsupported as e:
                ctx.error(f"rbgeom ({what}): 6x6 block of a grid", fn, str(e))
                return None
        if not out:
            ctx.error(f"rbgeom ({what}): no regime returns", fn)
            return None
        return out

    # ---- scalar reference: the index of a grid
    def scalar_truth(v, node, ev):
        def atom(x):
            q = G.fn_parts(x)
            if q is not None and q[0] == "cmp:Eq" and any(G.fn_parts(y) is not None and G.fn_parts(y)[0] in ("call:np.size", "call:len") for y in q[1]) \
                    and any(G.int_of(y) == 1 for y in q[1]):
                return True
            return None
        return G.truth_of(v, atom)
    bl = blocks({"grids": g}, scalar_truth, "scalar reference")
    if bl is not None:
        want = _rb_expected(*[a - b for a, b in zip(g, p)])
        ok = all(G.same(b, want) for b in bl)
        ctx.check(ok, "rbgeom: a scalar reference selects that grid's location: every grid gets [[I, -[(x - x_ref) x]], [0, I]] (unit translation / "
                      "rotation in its own component, rotational columns theta x r = (0,-z,y), (z,0,-x), (-y,x,0))", fn, None if ok else _show(bl[0], 900))
    # ---- vector reference: one generic point and the witness table for the short cut
    rids = [G.atom_id(a) for a in r]
    table = [("a generic reference point", (Fraction(7), Fraction(-2), Fraction(3))),
             ("[0, 3.5, -1.25]", (Fraction(0), Fraction(7, 2), Fraction(-5, 4))), ("[1, 0, 0]", (Fraction(1), Fraction(0), Fraction(0))),
             ("[0, 0, 2]", (Fraction(0), Fraction(0), Fraction(2))), ("[1, -1, 0]", (Fraction(1), Fraction(-1), Fraction(0))),
             ("[-2, 0, 3]", (Fraction(-2), Fraction(0), Fraction(3)))]
    seen_w = {w for _, w in table}
    for x in (0, 1, -1):
        for y in (0, 1, -1):
            for z in (0, 1, -1):
                w = (Fraction(x), Fraction(y), Fraction(z))
                if w not in seen_w:
                    table.append((f"[{x}, {y}, {z}]", w))
    want = _rb_expected(*[a - b for a, b in zip(g, r)])
    bad, first, generic = [], True, None
    for label, w in table:
        und = []
        bl = blocks({"grids": g, "refpoint": r}, _witness_truth(rids, w, und), f"reference {label}")
        if und:
            ctx.error(f"rbgeom (reference {label}): test on the reference point", fn, und)
            continue
        if bl is None:
            continue
        leaf = {i: F.const(c) for i, c in zip(rids, w)}
        if first:
            generic = bl[0]
        ok = all(G.same(b, generic) or G.same(G.rebuild(b, leaf), G.rebuild(generic, leaf)) for b in bl)
        if first:
            first = False
            ok = all(G.same(b, want) for b in bl)
            ctx.check(ok, "rbgeom: coordinates are taken relative to a vector reference point: every grid gets "
                      "[[I, -[(x - ref) x]], [0, I]]", fn, None if ok else _show(bl[0], 900))
        elif not ok:
            bad.append({"reference": label, "block": _show(bl[0], 400)})
    ctx.check(not bad, "rbgeom: the shift is skipped only when every coordinate of the reference point is zero", fn,
              None if not bad else {"counterexamples": bad, "consequence": "a reference point with one zero coordinate would be ignored"})
    # ---- rbmove
    mv = ctx.src.func(N2P, "rbmove")
    evs = [ev for ev in G.explore(ctx, N2P, mv, inline=inline) if not ev.raised]
    ok = bool(evs)
    detail = None
    for ev in evs:
        calls = [c for c in ev.calls if c[0] == "rbgeom"]
        if len(calls) != 1:
            ok, detail = False, f"{len(calls)} calls of rbgeom"
            break
        from .sem import place
        args = place(calls[0][1], calls[0][2], ["grids", "refpoint"])
        val = ev.ev(calls[0][3])
        good = G.same(args.get("grids"), F.sym("oldref")) and G.same(args.get("refpoint"), F.sym("newref")) \
            and G.same(ev.ret(), G.matmul(F.sym("rb"), val))
        if not good:
            ok, detail = False, _show(ev.ret())
    ctx.check(ok, "rbmove: modes about a new reference = modes @ rbgeom(old reference about new reference)", mv, detail)


# ------------------------------------------------------------------------------------------------ R2: rbgeom_uset local frames
_ELEM = __import__("re").compile(r"^(.*)\[(-?\d+)\]$")


def _family(v):
    """an element `X[k]` of a 3-vector (constant k) -> maker(j) of its siblings, else None"""
    d = G.single_atom(v) if G.is_rat(v) else None
    if d is None:
        return None
    if d[0] == "s":
        m = _ELEM.match(d[1])
        if m:
            return lambda j, nm=m.group(1): F.sym(f"{nm}[{j}]")
        return None
    if d[0] == "fn" and d[1] == "idx" and len(d[2]) == 2:
        base, k = G._arg(d[2][0]), G._arg(d[2][1])
        if G.int_of(k) is not None:
            return lambda j, b=base: F.fn("idx", b, F.const(j))
    return None


def _mask_of(lp):
    """the selecting mask of a loop over `positions[mask]`, else None"""
    it = lp["iter"]
    p = G.fn_parts(it) if G.is_rat(it) else None
    if p is None or p[0] != "idx" or len(p[1]) != 2:
        return None
    m = p[1][1]
    return m if G.is_rat(m) and (G.fn_atoms(m, "cmp:Eq") or (G.fn_parts(m) or ("",))[0] == "cmp:Eq") else None


def _mask_code(mask):
    """mask == (source == k) -> ('eq', k, source); its negation -> ('negated', k, source); else (None, None, None)"""
    def eq(v):
        q = G.fn_parts(v)
        if q is None or q[0] != "cmp:Eq" or len(q[1]) != 2:
            return None
        ks = [G.int_of(a) for a in q[1]]
        if (ks[0] is None) == (ks[1] is None):
            return None
        return (ks[0] if ks[0] is not None else ks[1]), (q[1][1] if ks[0] is not None else q[1][0])
    if mask is None:
        return None, None, None
    e = eq(mask)
    if e is not None:
        return "eq", e[0], e[1]
    q = G.fn_parts(mask)
    if q is not None and q[0] in ("not", "invert") and eq(q[1][0]) is not None:
        e = eq(q[1][0])
        return "negated", e[0], e[1]
    return None, None, None


def _family_in(M):
    """the 3-vector whose elements the entries of a frame matrix are made of (when no atan2 call names it)"""
    fams = {}
    for aid, d in G.atoms_of(M):
        f = _family(G.atom_rat(aid))
        if f is not None:
            key = G.vkey(f(0))
            fams.setdefault(key, [0, f])[0] += 1
    if not fams:
        return None
    return max(fams.values(), key=lambda x: x[0])[1]


def _loop_rows(ev, lp):
    """rows of one array stored during one generic iteration -> (array id, base row value, {offset: final value}, [row symbol names])"""
    log = ev.sh.rowlog[lp["rows"][0]:lp["rows"][1]]
    by = {}
    for buf, e, val, st in log:
        by.setdefault(buf, []).append(e)
    cand = [(len(v), k) for k, v in by.items() if k.startswith("zeros#")]
    if not cand:
        return None
    buf = max(cand)[1]
    es = by[buf]
    offs = [G.int_of(e - es[0]) for e in es]
    if any(o is None for o in offs):
        return None
    base = es[0] + min(offs)
    outside = []
    var = lp.get("var")
    if G.is_rat(var) and _mask_of(lp) is not None:
        # the loop runs over the first rows of the selected grids: rows var .. var + 5 are the grid's own
        rel = [G.int_of(e - var) for e in es]
        if all(o is not None for o in rel):
            base = var
            outside = sorted({o for o in rel if not 0 <= o < 6})
    final, names = {}, []
    for k in range(6):
        e = base + k
        names.append(f"{buf}[{e!r}]")
        final[k] = ev.sh.memory.get((buf, G.vkey(e)), F.sym(names[-1]))
    return buf, base, final, names, outside


def _loop_matrix(ev, lp):
    r = _loop_rows(ev, lp)
    if r is None:
        return None
    buf, base, final, names, outside = r
    M = []
    for k in range(6):
        cs = G.linear_in(final[k], names)
        if cs is None:
            return None
        M.append(tuple(cs))
    return base, tuple(M)


def _atan2_calls(ev, lp):
    return [c for c in ev.calls[lp["calls"][0]:lp["calls"][1]] if c[0] in G.ATAN2]


_OFF_AXIS = [(1, 0, 0), (-1, 0, 0), (0, 1, 0), (0, -1, 0), (1, 1, 0), (1, -1, 0), (-1, 1, 0), (-1, -1, 0), (-1, 0, 2), (0, -1, -3),
             (1, 0, -1), (0, 2, -2), (3, -3, 1), (-3, 4, -5), (3, 4, 5), (Fraction(1, 1000), 0, 0), (0, Fraction(-1, 1000), 0),
             (Fraction(1, 1000), Fraction(-1, 1000), 5)]


def r2_local_frames(ctx):
    fn = ctx.src.func(N2P, "rbgeom_uset")
    inline = _inline(ctx)

    def lib_truth(v, node, ev):
        def atom(x):
            q = G.fn_parts(x)
            if q is not None and q[0] in ("any", "all", "call:any", "call:np.any"):
                return True          # "there are such grids": the regime in which every block of the function runs
            return None
        return G.truth_of(v, atom)

    paths = [ev for ev in G.explore(ctx, N2P, fn, truth=lib_truth, inline=inline) if not ev.raised]
    if not paths:
        raise AnchorError("rbgeom_uset: no regime returns")
    gen = max(paths, key=lambda ev: (len([c for c in ev.calls if c[0] in G.ATAN2]), len(ev.sh.rowlog)))
    U = gen.sh.envs[0].get("uset")
    if not G.is_rat(U):
        raise Unsupported("rbgeom_uset: the (row-selected) USET table")
    iloc = F.fn("attr:iloc", U)
    tail = G.slice_value(F.const(1), None, None)

    def A(b):
        return F.fn("attr:T", F.fn("idx", iloc, F.fn("tuple", G.slice_value(b + 3, b + 6, None), tail)))

    def X(b):
        return F.fn("idx", iloc, F.fn("tuple", b, tail))
    # ---- the rectangular step
    top = [lp for lp in gen.sh.loops if lp["depth"] == 0 and lp["outer"] is None and _loop_rows(gen, lp) is not None]
    rect = [lp for lp in top if _mask_of(lp) is None and not _atan2_calls(gen, lp)]
    rbcall = [c for c in gen.calls if c[0] == "rbgeom"]
    ok, detail = len(rect) == 1 and len(rbcall) == 1, None
    if ok:
        buf, b, final, names, _ = _loop_rows(gen, rect[0])
        rbv = gen.ev(rbcall[0][3])
        for k in range(6):
            if not G.same(final[k], A(b) * F.fn("idx", rbv, b + k)):
                ok, detail = False, {"row": k, "value": _show(final[k])}
                break
    ctx.check(ok, "rbgeom_uset: the basic rigid-body rows of every grid are taken to its output system with the transpose of that grid's own 3x3 "
                  "(table rows 3..5, columns x, y, z), translations and rotations alike", rect[0]["node"] if rect else fn, detail)
    # ---- every grid is visited: first rows 0, 6, 12, ... of the (row-selected) table
    nrows = [F.fn("idx", F.fn("attr:shape", U), F.const(0)), F.fn("call:len", U)]
    nrows += [6 * F.fn("floordiv", n_, F.const(6)) for n_ in list(nrows)]
    ngrid = [F.fn("floordiv", n_, F.const(6)) for n_ in nrows[:2]]

    def first_rows(itv, var, base):
        """True / False when the iterable is understood, None otherwise"""
        q = G.fn_parts(itv) if G.is_rat(itv) else None
        if q is None or q[0] not in ("call:range", "call:np.arange"):
            return None
        a_ = q[1]
        if len(a_) == 1:
            return any(G.same(a_[0], n_) for n_ in ngrid) and G.same(base, 6 * var)
        if len(a_) == 3:
            return G.int_of(a_[0]) == 0 and G.int_of(a_[2]) == 6 and any(G.same(a_[1], n_) for n_ in nrows) and G.same(base, var)
        return False
    if len(rect) == 1:
        _, b, _, _, _ = _loop_rows(gen, rect[0])
        r_ = first_rows(rect[0]["iter"], rect[0]["var"], b) if G.is_rat(rect[0]["var"]) else None
        if r_ is None:
            ctx.error("rbgeom_uset: rows visited by the rectangular step", rect[0]["node"], _show(rect[0]["iter"]))
        else:
            ctx.check(r_, "rbgeom_uset: the rectangular step visits every grid: blocks of six rows starting at 0, 6, 12, ... of the selected table",
                      rect[0]["node"], None if r_ else {"iterable": _show(rect[0]["iter"]), "first row": _show(b)})
    # ---- the rows of the grids, and only those, of the returned array receive the result
    ret = gen.ret()
    sel = (G.fn_parts(U) or ("", []))
    sel = sel[1][1] if sel[0] == "idx" and len(sel[1]) == 2 else None
    if len(rect) == 1 and G.is_rat(ret) and G.ident(ret) is not None and sel is not None:
        rbuf = _loop_rows(gen, rect[0])[0]
        hits = [(e, v) for buf_, e, v, st in gen.sh.rowlog if buf_ == G.ident(ret) and G.is_rat(v) and G.ident(v) == rbuf]
        hits += [(ix[0], v) for nm, ix, v, st in gen.cells if nm == G.ident(ret) and isinstance(ix, tuple) and len(ix) == 2 and G.is_rat(v)
                 and G.ident(v) == rbuf and G.is_rat(ix[1]) and G.as_slice(ix[1]) == (None, None, None)]
        ok = len(hits) == 1 and G.same(hits[0][0], sel)
        ctx.check(ok, "rbgeom_uset: the local-frame rows are written to the rows of the grids that were selected (scalar points and q-set grids keep "
                      "zeros) of the returned array", gen.returns[-1][1] if gen.returns else fn,
                  None if ok else {"stores": [(_show(e, 120), _show(v, 60)) for e, v in hits]})
    else:
        ctx.error("rbgeom_uset: returned array", fn, _show(ret))
    # ---- the cylindrical / spherical fix-ups
    loops = [lp for lp in top if lp not in rect]
    want_type = gen.expr('uset.loc[(slice(None), 2), "y"]')
    rho, phi, zz, Rr, th = F.sym("rho"), F.sym("phi"), F.sym("zeta"), F.sym("Rr"), F.sym("theta")
    o, i1 = F.const(0), F.const(1)
    frames = {
        2: ("cylindrical", {0: rho * F.cos(phi), 1: rho * F.sin(phi), 2: zz},
            ((F.cos(phi), F.sin(phi), o), (-F.sin(phi), F.cos(phi), o), (o, o, i1)), "[e_r, e_theta, e_z]"),
        3: ("spherical", {0: rho * F.cos(phi), 1: rho * F.sin(phi), 2: zz},
            ((F.sin(th) * F.cos(phi), F.sin(th) * F.sin(phi), F.cos(th)), (F.cos(th) * F.cos(phi), F.cos(th) * F.sin(phi), -F.sin(th)),
             (-F.sin(phi), F.cos(phi), o)), "[e_R, e_theta, e_phi]"),
    }
    rule = G.atan2_rule([phi], [rho])                  # in-plane:  (x, y) = rho (cos phi, sin phi),  rho > 0 off the polar axis
    rule2 = G.atan2_rule([th], [Rr])                   # meridian:  (rho, z) = R (sin theta, cos theta),  R > 0
    stage2 = {G.atom_id(rho): Rr * F.sin(th), G.atom_id(zz): Rr * F.cos(th)}
    found = {}
    info = []
    for lp in loops:
        mask = _mask_of(lp)
        kind, code, src = _mask_code(mask)
        if kind == "negated":
            ctx.fail("rbgeom_uset: a local-frame fix-up is applied to the grids of one output-system type only", lp["node"],
                     {"selection": _show(mask), "consequence": f"grids of every type other than {code} are rotated into a frame that is not theirs"})
            continue
        if kind != "eq":
            ctx.error("rbgeom_uset: selection of the grids of a local-frame fix-up", lp["node"], _show(lp["iter"]))
            continue
        calls = _atan2_calls(gen, lp)
        rows = _loop_rows(gen, lp)
        pos = G.fn_parts(lp["iter"])[1][0]
        r_ = first_rows(pos, lp["var"], rows[1]) if rows is not None and G.is_rat(lp["var"]) else None
        if r_ is None:
            ctx.error(f"rbgeom_uset (type {code}): positions of the selected grids", lp["node"], _show(pos))
            continue
        if not r_:
            ctx.fail(f"rbgeom_uset: a fix-up runs over the first rows (0, 6, 12, ...) of the grids its mask selects", lp["node"],
                     {"positions": _show(pos), "first row used": _show(rows[1])})
            continue
        if rows is not None and rows[4]:
            ctx.fail("rbgeom_uset: the fix-up of a grid rewrites rows of that grid only (rows i .. i + 5 of its first row i)", lp["node"],
                     {"row offsets outside 0..5": rows[4]})
            continue
        mat = _loop_matrix(gen, lp)
        fam = (_family(calls[0][1][0]) or _family(calls[0][1][1])) if calls else (_family_in(mat[1]) if mat is not None else None)
        if code not in frames:
            ctx.fail("rbgeom_uset: a position-dependent frame is applied to cylindrical (type 2) and spherical (type 3) grids only", lp["node"],
                     {"selection": _show(mask), "consequence": f"there is no curvilinear output system of type {code}; the grids of one of the types 2, 3 "
                                                               "are left in (or taken out of) their rectangular frame"})
            continue
        if fam is None or mat is None:
            ctx.error("rbgeom_uset: local-frame fix-up", lp["node"], {"type code": code, "first atan2": _show(calls[0][1]) if calls else None,
                                                                      "rows": mat is not None})
            continue
        found[code] = G.same(src, want_type)
        label, par, frame, fname = frames[code]
        b, M = mat
        l = [fam(j) for j in range(3)]
        lids = [G.atom_id(x) for x in l]
        info.append((lp, code, lids, M, calls))
        # local position of the grid in its output system
        locv = None
        d0 = G.single_atom(l[0])
        if d0[0] == "s":
            nm = G.base_name(_ELEM.match(d0[1]).group(1))
            locv = next((v for n_, v, _ in gen.sh.inits[lp["inits"][0]:lp["inits"][1]][::-1] if n_ == nm), None)
        else:
            locv = G._arg(d0[2][0])
        want = G.matmul(A(b), X(b) - X(b + 2))
        ok = G.same(locv, want)
        ctx.check(ok, f"rbgeom_uset ({label}): the local position of a grid is (its own 3x3).T @ (grid location - origin of its output system), "
                      "rows 0 and 2 of the grid's table block", lp["node"], None if ok else _show(locv))
        # frame in the generic regime (off the polar axis)
        leaf = {lids[j]: par[j] for j in range(3)}
        Mp = G.rebuild(M, leaf, rule)
        if code == 3:
            Mp = G.rebuild(Mp, stage2, rule2)
        tt = tuple(r[:3] for r in Mp[:3])
        rr = tuple(r[3:] for r in Mp[3:])
        cross = all(x.is_zero() for r in Mp[:3] for x in r[3:]) and all(x.is_zero() for r in Mp[3:] for x in r[:3])
        ok = cross and G.same(tt, frame)
        ctx.check(ok, f"rbgeom_uset ({label}): the translational rows of a grid off the polar axis are rotated into the local frame {fname} at the "
                      "grid's position (rows = unit vectors; azimuth = atan2(local y, local x)"
                      + (", polar angle = atan2(in-plane radius, local z))" if code == 3 else ")"), lp["node"], None if ok else _show(tt, 900))
        ok = cross and G.same(rr, frame)
        ctx.check(ok, f"rbgeom_uset ({label}): the rotational rows are rotated by the same frame as the translational rows", lp["node"],
                  None if ok else _show(rr, 900))
    if set(found) != {2, 3} and any(o.status == "fail" and o.rule == ctx.rule for o in ctx.obls):
        return
    if set(found) != {2, 3}:
        ctx.error("rbgeom_uset: one local-frame fix-up per curvilinear type (2 cylindrical, 3 spherical)", fn, {"types bound": sorted(found)})
        return
    ok = found.get(2) is True and found.get(3) is True
    ctx.check(ok, "rbgeom_uset: cylindrical grids are those whose output-system type (table row 2, column y) is 2, spherical 3 - the same codes that "
                  "_get_loc_a_basic and getcoordinates dispatch on", fn, None if ok else {str(k): v for k, v in found.items()})
    # ---- the polar-axis short cuts, decided at the points of a witness table
    names = {(2, 0): "cylindrical azimuth", (3, 0): "spherical azimuth", (3, 1): "spherical polar angle"}
    verdict = {}
    for lp, code, lids, M, calls in info:
        for n, c in enumerate(calls):
            verdict[(code, n, id(c[3]))] = [names.get((code, n), f"angle {n + 1} of type {code}"), c[3], []]
        if not calls:
            verdict[(code, 0, id(lp["node"]))] = [f"{frames[code][0]} frame", lp["node"], []]
    und = []
    allids = sorted({x for _, _, lids, _, _ in info for x in lids})
    for w in _OFF_AXIS:
        w = tuple(Fraction(x) for x in w)

        def truth(v, node, ev, w=w):
            r = lib_truth(v, node, ev)
            if r is not None or not info:
                return r
            for _, _, lids, _, _ in info:
                if G.is_rat(v) and any(aid in lids for aid, _ in G.atoms_of(v)):
                    try:
                        return G.conc(v, dict(zip(lids, w))) != 0
                    except G.Undecided as e:
                        und.append(f"{ast.unparse(node)} at {tuple(map(str, w))}: {e}")
                        return None
            return None
        wpaths = [ev for ev in G.explore(ctx, N2P, fn, truth=truth, inline=inline, presets=gen.decisions) if not ev.raised]
        for ev in wpaths:
            for lp, code, lids, M, calls in info:
                lw = [x for x in ev.sh.loops if x["node"] is lp["node"]]
                guards_gen = [1 for v, n, d in gen.sh.asked[lp["asked"][0]:lp["asked"][1]] if G.is_rat(v) and any(a_ in lids for a_, _ in G.atoms_of(v))]
                guards_w = [1 for v, n, d in ev.sh.asked[lw[0]["asked"][0]:lw[0]["asked"][1]] if G.is_rat(v) and any(a_ in lids for a_, _ in G.atoms_of(v))] \
                    if lw else []
                if guards_gen and not guards_w:
                    und.append(f"the evaluation at {tuple(map(str, w))} does not meet the tests of the generic evaluation")
                    continue
                mw = _loop_matrix(ev, lw[0]) if lw else None
                if lw and mw is None and not any(r_[0].startswith("zeros#") for r_ in ev.sh.rowlog[lw[0]["rows"][0]:lw[0]["rows"][1]]):
                    mw = (None, tuple(tuple(F.const(int(p_ == q_)) for q_ in range(6)) for p_ in range(6)))      # nothing was rotated
                asg = dict(zip(lids, w))
                try:
                    if mw is not None:
                        a_, b_ = G.conc(mw[1], asg), G.conc(M, asg)
                        differs = any(abs(p - q) > Fraction(1, 10 ** 12) for p, q in zip(G._flat(a_), G._flat(b_)))
                    else:
                        differs = True
                except G.Undecided as e:
                    und.append(f"frame at {tuple(map(str, w))}: {e}")
                    continue
                if not differs:
                    continue
                reached = {id(c[3]) for c in (_atan2_calls(ev, lw[0]) if lw else [])}
                missing = [k for k in verdict if k[0] == code and k[2] not in reached]
                tests = [f"{ast.unparse(n)} is {d}" for v, n, d in ev.sh.asked[lw[0]["asked"][0]:lw[0]["asked"][1]]
                         if G.is_rat(v) and any(aid in lids for aid, _ in G.atoms_of(v))] if lw else []
                for k in (missing or [k for k in verdict if k[0] == code]):
                    verdict[k][2].append({"local position": [str(x) for x in w], "tests": tests})
    if und:
        ctx.error("rbgeom_uset: polar-axis tests at the witness points", fn, und[:6])
    for (code, n, _), (name, node, bad) in verdict.items():
        ctx.check(not bad, f"rbgeom_uset: the rotation by the {name} is skipped only when both arguments of its atan2 vanish (the grid is on the polar axis)",
                  node, None if not bad else {"counterexamples": bad[:4],
                                              "consequence": "a grid off the axis is left in the rectangular frame of its output system"})


# ------------------------------------------------------------------------------------------------ R4: formrbe3 DOF order
def _uset_derived(v):
    return any(d[0] == "s" and (d[1] == "uset" or d[1].startswith("uset.")) for _, d in G.atoms_of(v))


def _row_selections(v):
    """row selectors applied to the USET table inside a value: [selector value] for every table[rows, ...] / table.iloc[rows, ...] whose
    row index is not the full slice"""
    out = []
    for _, d in G.atoms_of(v):
        if d[0] != "fn" or d[1] != "idx" or len(d[2]) != 2:
            continue
        base, ix = G._arg(d[2][0]), G.untuple(G._arg(d[2][1]))
        if not _uset_derived(base):
            continue
        bd = G.single_atom(base)
        tableish = bd is not None and ((bd[0] == "s" and bd[1] in ("uset", "uset.iloc", "uset.loc", "uset.values", "uset.index")) or
                                       (bd[0] == "fn" and bd[1] in ("attr:iloc", "attr:loc", "attr:index")))
        if not tableish:
            continue
        rows = ix[0] if isinstance(ix, tuple) and ix else ix
        if G.is_rat(rows) and G.as_slice(rows) == (None, None, None):
            continue
        out.append(rows)
    return out


def _order_irrelevant(st):
    """an `if` whose arms neither leave the function / loop nor order, select or rebind the table: which arm runs cannot change what the
    ordering steps see, so the regime is not split there"""
    for arm in (st.body, st.orelse):
        for x in arm:
            for n in ast.walk(x):
                if isinstance(n, (ast.Return, ast.Raise, ast.Break, ast.Continue, ast.FunctionDef)):
                    return False
                if isinstance(n, ast.Call):
                    d = dotted(n.func) or (n.func.attr if isinstance(n.func, ast.Attribute) else "")
                    if d.split(".")[-1] in ("mat_intersect", "mkdofpv", "reset_index") or not d:
                        return False
                if isinstance(n, ast.Name) and isinstance(n.ctx, ast.Store) and n.id in ("uset", "usetdof"):
                    return False
    return True


def r4_rbe3_order(ctx):
    fn = ctx.src.func(N2P, "formrbe3")

    def truth(v, node, ev):
        st = node
        while st is not None and not isinstance(st, ast.stmt):
            st = parent(st)
        if isinstance(st, ast.If) and _order_irrelevant(st):
            return True
        return None
    paths = [ev for ev in G.explore(ctx, N2P, fn, truth=truth, inline=_inline(ctx)) if not ev.raised]
    if not paths:
        raise AnchorError("formrbe3: no regime returns")
    sites = {}
    for ev in paths:
        for name, pos, kws, node in ev.calls:
            if not name.endswith("mat_intersect"):
                continue
            from .sem import place
            a = place(pos, kws, ["D1", "D2", "keep"])
            for k in ("D1", "D2"):
                v = a.get(k)
                if v is None or is_unknown(v) or isinstance(v, tuple) or not _uset_derived(v):
                    continue
                # a DOF list that was itself sorted by an earlier ordering step is not an order reference; the table's index is
                if any(d[0] == "fn" and d[1].startswith("call:") and d[1].endswith("mat_intersect") for _, d in G.atoms_of(v)):
                    continue
                st = sites.setdefault(id(node), [node, [], []])
                for sel in _row_selections(v):
                    if G.fn_atoms(sel, "call:mkdofpv"):
                        st[1].append(_show(sel, 240))
                    else:
                        st[2].append(_show(sel, 240))
    if not sites:
        raise AnchorError("formrbe3: no ordering step against the USET table (locate.mat_intersect with the table's [id, dof] index)")
    for k, (node, bad, unclear) in enumerate(sorted(sites.values(), key=lambda x: (x[0].lineno, x[0].col_offset))):
        inst = f"formrbe3 (ordering step {k + 1}): rows / columns are ordered against the [id, dof] index of the USET table in *table* order (a row selection made with " \
               "mkdofpv(uset, 'p', <id list>) is in the order of the id list - `maintains the order of DOF as specified` - not of the table)"
        if unclear and not bad:
            ctx.error(inst, node, {"row selection of the reference table": unclear[0]})
        else:
            ctx.check(not bad, inst, node, None if not bad else {
                "reference table rows": bad[0], "consequence": "for a table that is not stored in ascending-id order the matrix no longer maps the "
                "independent DOF as they occur in the table to the dependent DOF"})


RULES = [
    ("C14-R1", r1_inverse_pair, 12),
    ("C14-R2", r2_local_frames, 11),
    ("C14-R3", r3_rbgeom, 4),
    ("C14-R4", r4_rbe3_order, 3),
]
LEVEL = "other"
EXPLANATION = ("Static, decided on values (verifier/c14_sem.py evaluates the functions on symbols, regime by regime, following loops, private helpers, "
               "aliases and module constants): (R1) getcoordinates composed with _get_loc_a_basic is the identity on the entered coordinates for "
               "rectangular, cylindrical and spherical systems with a general orientation (Euler-angle matrix, orthonormal by sin^2+cos^2=1) and origin, "
               "and a quotient by sin/cos of the azimuth is formed only where its selecting test keeps the divisor away from zero; (R2) rbgeom_uset takes "
               "each grid's rows (blocks of six, every grid) to its output system, builds the local position from the grid's own table block, rotates translations and rotations "
               "into the local cylindrical / spherical unit-vector frame, selects grids by the type codes 2 / 3, and skips a rotation only on the polar axis "
               "(witness table of off-axis points), rewrites only the grid's own rows and returns them at the rows of the selected grids; (R3) rbgeom's 6x6 block per grid is [[I, -[r x]], [0, I]] about a scalar or vector reference, the zero "
               "short cut is taken only for the zero vector, rbmove composes with rbgeom; (R4) formrbe3 orders rows / columns against the USET index in "
               "table order.")
MANIFEST = {
    "text": "Thin partial claim decided statically: (R1) forward/inverse point maps are algebraic inverses for rectangular, cylindrical and spherical systems "
            "(any orientation and origin), with a sound divisor selection in the spherical inverse; (R2) rbgeom_uset expresses every grid in its own output "
            "system: rectangular step, local position, cylindrical/spherical unit-vector frames applied to both row triplets, type codes 2/3, rotations "
            "skipped only at the true polar axis; (R3) rbgeom is theta x r about the reference point, the shift is skipped only for the zero vector, rbmove "
            "composes with rbgeom; (R4) formrbe3 sorts against the USET table in table order. "
            "Not decided: reference-chain resolution (mkusetcoordinfo / build_coords), rbcoords, the least-squares solve of formrbe3, replace_basic_cs.",
    "note": "Trusted: CPython ast; verifier/e2_formula.py; verifier/c14_sem.py. atan2(k sin u, k cos u) = u is used for k > 0 (R > 0, 0 < theta < 180 deg: "
            "away from the polar singularities, as in the property's domain). Guards are refuted, never proved, at the points of a finite witness table "
            "(exact rational arithmetic; square roots to 1e-30).",
    "technique": "static symbolic evaluation and composition of the coordinate maps and rigid-body blocks; exact evaluation of extracted guards at witness points",
}
