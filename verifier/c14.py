"""C14 -- coordinate systems and rigid-body geometry (thin partial claim).

Every rule is decided on *values*.  R1 - R3 (verifier/c14_geo.py) *run* the anchored functions with the interpreter of verifier/c14_np.py on inputs
with concrete shapes and symbolic entries (a 5x3 coordinate-system record with a general rotation, an (n, 3) grid array, a USET table with scalar
points, q-set members and grids of every output-system type) and compare what is returned with the geometric meaning - never with a spelling.
R4 evaluates formrbe3 on symbols (verifier/c14_sem.py) and looks at the values that reach the ordering steps, and runs it on a finite world of
tiny USET tables whose rows are in the caller's order (verifier/c14_order.py): every column of the result names, by value, the DOF it was computed from.  R5 (verifier/c14_fit.py) runs
rbcoords on rigid-body blocks of grids in general frames (on symbols) and at exact witness frames (numbers)."""
from __future__ import annotations

import ast

from . import c14_sem as G
from .c14_geo import r1_inverse_pair, r2_local_frames, r3_rbgeom
from .c14_fit import r5_rbcoords
from .core import AnchorError, Unsupported
from .e1_srcmodel import dotted, parent
from .e2_eval import is_unknown

N2P = "pyyeti/nastran/n2p.py"
# API of the module whose *calls* the rules speak about (never inlined, whatever their spelling)
PUBLIC_STOPS = ("_get_loc_a_basic", "_mkusetcoordinfo_byid")


def _show(v, n=300):
    s = repr(v)
    return s if len(s) <= n else s[:n] + "..."


def _inline(ctx):
    return G.helpers(ctx, N2P, exclude=PUBLIC_STOPS)


# ------------------------------------------------------------------------------------------------ R4: formrbe3 DOF order
def _uset_derived(v):
    return any(d[0] == "s" and (d[1] == "uset" or d[1].startswith("uset.")) for _, d in G.atoms_of(v))


def _row_selections(v):
    """row selectors applied to the USET table inside a value: [selector value] for every table[rows, ...] / table.iloc[rows, ...] whose
    row index is not the full slice"""
    out = []
    for _, d in G.atoms_of(v):
        if d[0] != "fn" or d[1] != "idx" or len(d[2]) != 2:
            continue
        base, ix = G._arg(d[2][0]), G.untuple(G._arg(d[2][1]))
        if not _uset_derived(base):
            continue
        bd = G.single_atom(base)
        tableish = bd is not None and ((bd[0] == "s" and bd[1] in ("uset", "uset.iloc", "uset.loc", "uset.values", "uset.index")) or
                                       (bd[0] == "fn" and bd[1] in ("attr:iloc", "attr:loc", "attr:index")))
        if not tableish:
            continue
        rows = ix[0] if isinstance(ix, tuple) and ix else ix
        if G.is_rat(rows) and G.as_slice(rows) == (None, None, None):
            continue
        out.append(rows)
    return out


def _order_irrelevant(st):
    """an `if` whose arms neither leave the function / loop nor order, select or rebind the table: which arm runs cannot change what the
    ordering steps see, so the regime is not split there"""
    for arm in (st.body, st.orelse):
        for x in arm:
            for n in ast.walk(x):
                if isinstance(n, (ast.Return, ast.Raise, ast.Break, ast.Continue, ast.FunctionDef)):
                    return False
                if isinstance(n, ast.Call):
                    d = dotted(n.func) or (n.func.attr if isinstance(n.func, ast.Attribute) else "")
                    if d.split(".")[-1] in ("mat_intersect", "mkdofpv", "reset_index") or not d:
                        return False
                if isinstance(n, ast.Name) and isinstance(n.ctx, ast.Store) and n.id in ("uset", "usetdof"):
                    return False
    return True


def r4_rbe3_order(ctx):
    fn = ctx.src.func(N2P, "formrbe3")

    def truth(v, node, ev):
        st = node
        while st is not None and not isinstance(st, ast.stmt):
            st = parent(st)
        if isinstance(st, ast.If) and _order_irrelevant(st):
            return True
        return None
    paths = [ev for ev in G.explore(ctx, N2P, fn, truth=truth, inline=_inline(ctx)) if not ev.raised]
    if not paths:
        raise AnchorError("formrbe3: no regime returns")
    sites = {}
    for ev in paths:
        for name, pos, kws, node in ev.calls:
            if not name.endswith("mat_intersect"):
                continue
            from .sem import place
            a = place(pos, kws, ["D1", "D2", "keep"])
            for k in ("D1", "D2"):
                v = a.get(k)
                if v is None or is_unknown(v) or isinstance(v, tuple) or not _uset_derived(v):
                    continue
                # a DOF list that was itself sorted by an earlier ordering step is not an order reference; the table's index is
                if any(d[0] == "fn" and d[1].startswith("call:") and d[1].endswith("mat_intersect") for _, d in G.atoms_of(v)):
                    continue
                # an ordering step is named by the *values* it orders (the DOF list and the reference), not by the call site: a helper or
                # closure that wraps the call is one site but as many steps as it is called with different lists
                other = a.get("D2" if k == "D1" else "D1")
                okey = G.vkey(other) if other is not None and not is_unknown(other) and not isinstance(other, tuple) else ("site", id(node))
                st = sites.setdefault((G.vkey(v), okey), [node, [], [], len(sites)])
                for sel in _row_selections(v):
                    if G.fn_atoms(sel, "call:mkdofpv"):
                        st[1].append(_show(sel, 240))
                    else:
                        st[2].append(_show(sel, 240))
    if not sites:
        raise AnchorError("formrbe3: no ordering step against the USET table (locate.mat_intersect with the table's [id, dof] index)")
    for k, (node, bad, unclear, _) in enumerate(sorted(sites.values(), key=lambda x: x[3])):
        inst = f"formrbe3 (ordering step {k + 1}): rows / columns are ordered against the [id, dof] index of the USET table in *table* order (a row selection made with " \
               "mkdofpv(uset, 'p', <id list>) is in the order of the id list - `maintains the order of DOF as specified` - not of the table)"
        if unclear and not bad:
            ctx.error(inst, node, {"row selection of the reference table": unclear[0]})
        else:
            ctx.check(not bad, inst, node, None if not bad else {
                "reference table rows": bad[0], "consequence": "for a table that is not stored in ascending-id order the matrix no longer maps the "
                "independent DOF as they occur in the table to the dependent DOF"})
    _finite_worlds(ctx)


def _finite_worlds(ctx):
    """the documented order of the columns (`the order the DOF occur in the USET table`), decided by value on tiny witness tables
    (verifier/c14_order.py): UM_List=None"""
    from . import c14_order as O
    fn = ctx.src.func(N2P, "formrbe3")
    for name, ids, groups in O.WORLDS:
        world = f"witness table: grids {', '.join(map(str, ids))} in this order ({name}), dependent grid {O.DEP}, Ind_List = " + \
                ", ".join(f"[{d}{', ' + w if w else ''}], {list(gs)}" for d, w, gs in groups)
        inst = "formrbe3: the columns follow the independent DOF in the order they occur in the USET table (each column is computed from the " \
               f"rigid-body row of its own DOF) - {world}"
        try:
            expected, runs = O.run_world(ctx, fn, name, ids, groups)
        except O._Crash as e:
            ctx.fail(inst, fn, {"run-time error on a valid table": str(e)})
            continue
        except Unsupported as e:
            ctx.error(inst, fn, str(e))
            continue
        want = [(g, d) for g, d, _ in expected]
        unclear = [cols for cols in runs if any(len(labs) != 1 for labs, _ in cols)]
        if unclear:
            ctx.error(inst, fn, {"columns that are not computed from exactly one independent DOF": _show(unclear[0], 400)})
            continue
        bad = [[next(iter(labs)) for labs, _ in cols] for cols in runs if [next(iter(labs)) for labs, _ in cols] != want]
        ctx.check(not bad, inst, fn, None if not bad else {
            "columns (id, dof) of the returned matrix": _show(bad[0], 400), "order of occurrence in the table": _show(want, 400),
            "consequence": "rbe3 @ (independent motion in table order) is not the motion of the dependent grid: an order of the ids was presupposed "
                           "that nothing established"})
        # (that every DOF keeps the weight of its own Ind_List group is *not* checked: misplaced weights change the interpolation but any positive
        # weights reproduce rigid-body motion exactly, so it is not a necessary condition of this property)


RULES = [
    ("C14-R1", r1_inverse_pair, 14),
    ("C14-R2", r2_local_frames, 16),
    ("C14-R3", r3_rbgeom, 7),
    ("C14-R4", r4_rbe3_order, 7),
    ("C14-R5", r5_rbcoords, 7),
]
LEVEL = "other"
EXPLANATION = ("Static, decided on values: the anchored functions are *executed* by a small interpreter (verifier/c14_np.py: Python statements, closures, "
               "numpy arrays with view semantics, the USET table) on inputs with concrete shapes and symbolic entries, regime by regime, and the returned "
               "values are compared with the geometric meaning. (R1) getcoordinates composed with _get_loc_a_basic is the identity on the entered "
               "coordinates for rectangular, cylindrical and spherical systems with a general orientation (Euler-angle matrix, orthonormal by "
               "sin^2+cos^2=1) and origin, and a quotient by sin/cos of the azimuth is formed only where its selecting test keeps the divisor away from "
               "zero; (R2) rbgeom_uset, run on tables with scalar points, q-set members and grids of every output-system type in several orders, returns for "
               "every grid blockdiag(F T', F T') @ [[I, -[(x - ref) x]], [0, I]] with F the identity / the cylindrical / the spherical unit-vector frame at "
               "the grid's local position, zeros elsewhere, for a vector and a grid-id reference point, and skips a rotation only on the polar axis "
               "(witness table of off-axis points, exact numbers); (R3) rbgeom's 6x6 block per grid is [[I, -[r x]], [0, I]] about a scalar, vector, (1, 3) or "
               "default reference, the zero short cut is taken only for the zero vector, rbmove composes with rbgeom; (R4) formrbe3 orders rows / columns "
               "against the USET index in table order, and - run on witness tables of three independent grids whose ids ascend / do not ascend, with "
               "rbgeom_uset returning one symbol per (row label, column) and a linear solve acting column by column - returns columns that are "
               "computed from the independent DOF in their order of occurrence in the table (UM_List=None); (R2) also: a grid id given as reference "
               "is found wherever its rows are, on witness tables in the caller's order (ids 15, 9, 4, 6 / 6, 12, 15, 2, 4), every grid as reference; (R5) rbcoords, run on blockdiag(M, M) [[I, -[p x]], [0, I]] for grids in a general frame M, in "
               "the reference frame and with zero rows, returns p for each grid (its own block, its own frame; exact solve) with zero deviations, and - "
               "at exact witness frames tilted by 1e-2 ... 1e-6, half / quarter turns, a permutation, where every test the function makes has a truth "
               "value - bypasses the least-squares fit only where the location is still right to 1e-7 x distance (a tolerance on the diagonal of the "
               "3x3 block does not bound its off-diagonal terms).")
MANIFEST = {
    "text": "Thin partial claim decided statically: (R1) forward/inverse point maps are algebraic inverses for rectangular, cylindrical and spherical systems "
            "(any orientation and origin), with a sound divisor selection in the spherical inverse; (R2) rbgeom_uset expresses every grid in its own output "
            "system: rectangular step, local position, cylindrical/spherical unit-vector frames applied to both row triplets, type codes 2/3, rotations "
            "skipped only at the true polar axis, scalar points and q-set grids left zero, vector and grid-id reference points; (R3) rbgeom is theta x r about "
            "the reference point, the shift is skipped only for the zero vector, rbmove composes with rbgeom; (R4) formrbe3 sorts against the USET table in "
            "table order (symbolic ordering steps; columns by value on witness tables with ascending and non-ascending ids, UM_List=None); a grid-id "
            "reference of rbgeom_uset is located by label, not by an order of the ids nothing established (witness tables in caller's order); (R5) rbcoords recovers each grid's location from its own block in its own frame (general rotation, reference frame, zero "
            "rows), reports zero deviations for exactly rigid modes, and bypasses the least-squares fit only for frames where the location stays "
            "right to 1e-7 x distance (witness frames tilted by 1e-2 ... 1e-6, half / quarter turns). "
            "Not decided: reference-chain resolution (mkusetcoordinfo / build_coords), the least-squares solve of formrbe3, its column order with a UM_List, "
            "whether each DOF keeps its own weight (any positive weights reproduce rigid motion), replace_basic_cs, "
            "rbcoords on modes that are not rigid (its deviation report), floating-point conditioning of the fit.",
    "note": "Trusted: CPython ast; verifier/e2_formula.py; verifier/c14_np.py (model of the Python / numpy / pandas operations the anchored functions "
            "use; mksetpv, mkdofpv and - inside rbgeom_uset / rbmove - rbgeom are modelled by their documented meaning; lstsq / solve / inv / pinv of a square "
            "matrix are the exact solution where the determinant does not vanish identically, the minimum-norm solution zero for the zero matrix; "
            "np.allclose / isclose are the comparisons |a - b| <= atol + rtol |b|; np.searchsorted / bisect are the bisection they perform, whatever the "
            "order of the array; table.reset_index() is its [id, dof, columns] array); verifier/c14_sem.py; verifier/c14_order.py (expanddof, "
            "locate.mat_intersect, mkdofpv by their documented meaning; labels compared only for equality / order). "
            "atan2(k sin u, k cos u) = u is used for k > 0 (R > 0, 0 < theta < 180 deg: away from the polar singularities, as in the property's domain). "
            "Guards are refuted, never proved, at the points of a finite witness table (exact rational arithmetic; square roots to 1e-30).",
    "technique": "static symbolic execution (concrete shapes, symbolic entries) and composition of the coordinate maps and rigid-body blocks; exact "
                 "evaluation at witness points",
}
