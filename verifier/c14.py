"""C14 -- coordinate systems and rigid-body geometry (thin partial claim)."""
from __future__ import annotations

import ast

from . import e2_formula as F
from .core import AnchorError, Unsupported
from .e1_srcmodel import dotted, walk_no_nested, parent, ancestors, utext
from .e2_eval import Evaluator, Unknown, is_unknown, need

N2P = "pyyeti/nastran/n2p.py"


def _atan2_args(r):
    """Rat that is c * atan2(y, x) -> (c, y, x)"""
    r = need(r)
    atoms = [a for a in r.n.atoms() if F.atom_desc(a)[0] == "fn" and F.atom_desc(a)[1] == "atan2"]
    if len(atoms) != 1:
        return None
    d = F.atom_desc(atoms[0])
    y = F.Rat(F._poly_from_key(d[2][0][1]), F._poly_from_key(d[2][0][2]))
    x = F.Rat(F._poly_from_key(d[2][1][1]), F._poly_from_key(d[2][1][2]))
    coef = r / F.Rat(F.Poly.atom(atoms[0]))
    if coef.depends_on("___") or any(F.atom_desc(a)[0] == "fn" for a in coef.n.atoms() | coef.d.atoms()):
        return None
    return coef, y, x


def _calls(node, ev):
    d = dotted(node.func) or ""
    if d in ("math.hypot", "np.hypot") and len(node.args) == 2:
        a, b = ev.ev(node.args[0]), ev.ev(node.args[1])
        if is_unknown(a) or is_unknown(b):
            return a if is_unknown(a) else b
        return F.sqrt(need(a) * need(a) + need(b) * need(b))
    if d in ("math.atan2", "np.arctan2") and len(node.args) == 2:
        a, b = ev.ev(node.args[0]), ev.ev(node.args[1])
        if is_unknown(a) or is_unknown(b):
            return a if is_unknown(a) else b
        return F.fn("atan2", need(a), need(b))
    if d in ("linalg.norm", "np.linalg.norm", "la.norm") and len(node.args) == 1:
        v = ev.ev(node.args[0])
        if isinstance(v, tuple):
            tot = F.const(0)
            for x in v:
                tot = tot + need(x) * need(x)
            return F.sqrt(tot)
    if d == "np.array" and node.args and isinstance(node.args[0], (ast.List, ast.Tuple)):
        return tuple(ev.ev(e) for e in node.args[0].elts)
    if isinstance(node.func, ast.Attribute) and node.func.attr == "astype":
        return ev.ev(node.func.value)
    return NotImplemented


def r1_inverse_pair(ctx):
    fwd = ctx.src.func(N2P, "_get_loc_a_basic")
    inv = ctx.src.func(N2P, "getcoordinates")
    a = (F.sym("a0"), F.sym("a1"), F.sym("a2"))
    pi = F.sym("pi")
    T, origin = F.sym("T"), F.sym("org")
    for ctype, label in ((2, "cylindrical"), (3, "spherical")):
        def cond(test, ev, ctype=ctype):
            t = utext(test)
            return {"coordinfo[0,1]==1": ctype == 1, "coordinfo[0,1]==2": ctype == 2}.get(t)

        def sub(node, ev):
            t = utext(node)
            return {"coordinfo[2:]": T, "coordinfo[1]": origin, "a[0]": a[0], "a[1]": a[1], "a[2]": a[2]}.get(t, NotImplemented)

        ev = Evaluator(env={"math.pi": pi}, src=ctx.src, cond=cond, subscript=sub, call=_calls)
        ev.run(fwd.body)
        vec = ev.env.get("vec")
        loc = ev.env.get("location")
        if not isinstance(vec, tuple) or any(is_unknown(x) for x in vec):
            ctx.error(f"_get_loc_a_basic ({label}): local vector", fwd, repr(vec))
            continue
        # location = origin + T @ vec
        if isinstance(loc, tuple):
            ok = all(not is_unknown(x) and x.equals(origin + T * v) for x, v in zip(loc, vec))
        else:
            ok = False
        ctx.check(ok, f"_get_loc_a_basic ({label}): basic location = origin + T @ (local cartesian vector)", fwd, None if ok else repr(loc))
        # inverse: g = T.T @ (xyz_basic - xyz_coord) with T.T T = 1  ->  g = vec
        loops = [n for n in inv.body if isinstance(n, ast.For)]
        body = None
        for n in ast.walk(loops[0]):
            if isinstance(n, ast.Assign) and ast.unparse(n.targets[0]) == "g":
                gdef = n
        t = ast.unparse(gdef.value).replace(" ", "")
        ok = t == "T.T@(xyz_basic-xyz_coord)"
        ctx.check(ok, "getcoordinates: the origin is subtracted before applying T.T (inverse of `origin + T @ v` for an orthonormal T)", gdef, t)
        chain = [n for n in ast.walk(loops[0]) if isinstance(n, ast.If) and ast.unparse(n.test).replace(" ", "") == "ctype==1"]
        if not chain:
            raise AnchorError("getcoordinates: type dispatch")
        arm = chain[0].orelse[0]   # elif ctype == 2
        stmts = arm.body if ctype == 2 else arm.orelse
        results = []

        def call2(node, ev):
            if dotted(node.func) == "result.append" and node.args:
                results.append(ev.ev(node.args[0]))
                return F.const(0)
            return _calls(node, ev)

        # branch on |s| > |c| : evaluate both
        for pick in (True, False):
            results.clear()
            ev2 = Evaluator(env={"g": vec, "math.pi": pi}, src=ctx.src, call=call2,
                            cond=lambda test, ev, pick=pick: pick if "abs(s)>abs(c)" in utext(test) else None)
            for st in stmts:
                if isinstance(st, ast.Expr):
                    ev2.ev(st.value)
                else:
                    ev2.stmt(st)
            if not results or not isinstance(results[-1], tuple) or len(results[-1]) != 3:
                ctx.error(f"getcoordinates ({label}): result", arm, repr(results))
                continue
            R, th, ph = results[-1]
            tag = f"getcoordinates o _get_loc_a_basic ({label}{', |sin| > |cos| branch' if pick and ctype == 3 else ''})"
            ok = not is_unknown(R) and R.equals(a[0])
            ctx.check(ok, f"{tag}: the radius is recovered (hypot / norm of the local vector is R)", arm, None if ok else repr(R))
            x1 = a[1] * pi / 180
            x2 = a[2] * pi / 180
            if ctype == 2:
                at = _atan2_args(th) if not is_unknown(th) else None
                ok = at is not None and at[0].equals(180 / pi) and (at[1] * F.cos(x1) - at[2] * F.sin(x1)).is_zero()
                ctx.check(ok, f"{tag}: theta = atan2(y, x) * 180/pi returns the angle that was converted with pi/180 (argument order and reciprocal factors)", arm,
                          None if ok else repr(th))
                ok = not is_unknown(ph) and ph.equals(a[2])
                ctx.check(ok, f"{tag}: z is passed through", arm, None if ok else repr(ph))
            else:
                at = _atan2_args(ph) if not is_unknown(ph) else None
                ok = at is not None and at[0].equals(180 / pi) and (at[1] * F.cos(x2) - at[2] * F.sin(x2)).is_zero()
                ctx.check(ok, f"{tag}: phi (third component) = atan2(y, x) * 180/pi is the azimuth that was entered third", arm, None if ok else repr(ph))
                at = _atan2_args(th) if not is_unknown(th) else None
                ok = False
                if at is not None and at[0].equals(180 / pi):
                    # the code divides by sin(phi') / cos(phi') of the recovered azimuth; with phi' = x2:
                    y_, x_ = at[1], at[2]
                    y_ = _subst_atan2_trig(y_, x2)
                    ok = y_ is not None and (y_ * F.cos(x1) - x_ * F.sin(x1)).is_zero()
                ctx.check(ok, f"{tag}: theta (second component) = atan2(rho, z) * 180/pi is the polar angle that was entered second", arm,
                          None if ok else repr(th))
            if ctype == 2:
                break


def _subst_atan2_trig(r, angle):
    """replace sin(atan2(..)) / cos(atan2(..)) atoms by sin/cos of the known angle"""
    r = need(r)
    mp = {}
    for a in list(r.n.atoms() | r.d.atoms()):
        d = F.atom_desc(a)
        if d[0] in ("sin", "cos"):
            arg = F._poly_from_key(d[1])
            if any(F.atom_desc(x)[0] == "fn" and F.atom_desc(x)[1] == "atan2" for x in arg.atoms()):
                mp[a] = F.sin(angle) if d[0] == "sin" else F.cos(angle)
    if not mp:
        return r

    def sp(p):
        res = F.const(0)
        for m, c in p.t.items():
            term = F.const(c)
            for x, e in m:
                term = term * ((mp[x] if x in mp else F.Rat(F.Poly.atom(x))) ** e)
            res = res + term
        return res
    return sp(r.n) / sp(r.d)


def r2_dispatch(ctx):
    fwd = ctx.src.func(N2P, "_get_loc_a_basic")
    t = utext(fwd)
    ok = "ifcoordinfo[0,1]==1:" in t and "ifcoordinfo[0,1]==2:" in t
    ctx.check(ok, "_get_loc_a_basic: type 1 rectangular, type 2 cylindrical, otherwise spherical", fwd)
    inv = ctx.src.func(N2P, "getcoordinates")
    t = utext(inv)
    ok = "ifctype==1:" in t and "elifctype==2:" in t and "ctype=coordinfo[0,1].astype(np.int64)" in t
    ctx.check(ok, "getcoordinates: the same type codes select the inverse maps", inv)
    rb = ctx.src.func(N2P, "rbgeom_uset")
    t = utext(rb)
    ok = "cyl=(uset.loc[slice(None),2,'y']==2).values" in t.replace("(slice(None),2)", "slice(None),2") and \
        "sph=(uset.loc[slice(None),2,'y']==3).values" in t.replace("(slice(None),2)", "slice(None),2")
    ctx.check(ok, "rbgeom_uset: cylindrical grids are those whose output-system type is 2, spherical 3", rb)
    # azimuth rotations are guarded against the polar axis with BOTH in-plane coordinates
    n = 0
    for c in ast.walk(rb):
        if isinstance(c, ast.Call) and dotted(c.func) == "math.atan2":
            n += 1
            args = {utext(a) for a in c.args}
            guard = None
            for anc in ancestors(c):
                if isinstance(anc, ast.If) and any(c is y for x in anc.body for y in ast.walk(x)):
                    guard = anc
                    break
            gt = ast.unparse(guard.test).replace(" ", "") if guard is not None else ""
            ok = guard is not None and all(f"abs({a})" in gt for a in args) and ">" in gt
            ctx.check(ok, f"rbgeom_uset: `{ast.unparse(c)}` is skipped only when both of its arguments vanish (the point is on the polar axis)", c,
                      None if ok else {"guard": gt, "consequence": "a grid at theta = 180 deg (y = 0, x < 0) is off the axis but would not be rotated into its local frame"})
    ctx.check(n == 3, "rbgeom_uset: three azimuth/polar angle computations are guarded", rb, n, nontrivial=False)
    # the 2x2 rotation built from the angle is applied to translations and rotations alike
    t = utext(rb)
    ok = t.count("t=np.array([[c,s],[-s,c]])") == 2 and t.count("rb2[i:i+2]=t@rb2[i:i+2]") == 2 and t.count("rb2[i+3:i+5]=t@rb2[i+3:i+5]") == 2
    ctx.check(ok, "rbgeom_uset: the in-plane rotation [[c, s], [-s, c]] is applied to the translational and the rotational rows of the grid, "
                  "in the cylindrical and the spherical fix-up alike", rb)
    ok = "t=np.array([[s,0,c],[c,0,-s],[0,1,0]])" in t and "rb2[i:i+3]=t@rb2[i:i+3]" in t and "rb2[i+3:i+6]=t@rb2[i+3:i+6]" in t
    ctx.check(ok, "rbgeom_uset: the spherical frame [e_R, e_theta, e_phi] rotation is applied to both row triplets", rb)


def r3_rbgeom(ctx):
    fn = ctx.src.func(N2P, "rbgeom")
    want = {(1, 3): ("-", 2), (2, 3): ("+", 1), (0, 4): ("+", 2), (2, 4): ("-", 0), (0, 5): ("-", 1), (1, 5): ("+", 0)}
    got = {}
    for st in walk_no_nested(fn):
        if isinstance(st, ast.Assign) and isinstance(st.targets[0], ast.Subscript) and ast.unparse(st.targets[0].value) == "rbmodes" \
                and isinstance(st.targets[0].slice, ast.Tuple):
            rs, cs = st.targets[0].slice.elts
            if not isinstance(rs, ast.Slice) or not isinstance(cs, ast.Constant):
                continue
            row = ast.literal_eval(rs.lower) if rs.lower is not None else 0
            v = st.value
            sign = "+"
            if isinstance(v, ast.UnaryOp) and isinstance(v.op, ast.USub):
                sign = "-"
                v = v.operand
            if isinstance(v, ast.Subscript) and ast.unparse(v.value) == "grids":
                comp = ast.literal_eval(v.slice.elts[1])
                got[(row, cs.value)] = (sign, comp)
    ok = got == want
    ctx.check(ok, "rbgeom: rotational columns are the cross product theta x r: (0,-z,y), (z,0,-x), (-y,x,0)", fn, None if ok else {str(k): v for k, v in got.items()})
    t = utext(fn)
    ok = "foriinrange(6):rbmodes[i::6,i]=1.0" in t.replace("\n", "")
    ctx.check(ok, "rbgeom: unit translation / rotation of every grid in its own component", fn)
    # the reference shift
    shifts = [st for st in ast.walk(fn) if isinstance(st, ast.Assign) and ast.unparse(st.value).replace(" ", "") == "grids-refpoint"]
    ok = len(shifts) == 1
    if ctx.check(ok, "rbgeom: coordinates are taken relative to the reference point", fn):
        g = parent(shifts[0])
        if isinstance(g, ast.If):
            tt = ast.unparse(g.test).replace(" ", "")
            ok = tt in ("np.any(refpoint!=[0,0,0])", "np.any(refpoint!=0)", "(refpoint!=[0,0,0]).any()", "np.any(refpoint)")
            ctx.check(ok, "rbgeom: the shift is skipped only when every coordinate of the reference point is zero", g,
                      None if ok else {"guard": tt, "consequence": "a reference point with one zero coordinate (e.g. [0, 3.5, -1.25]) would be ignored"})
    ok = "ifnp.size(refpoint)==1:grids=grids-grids[refpoint]" in t.replace("\n", "")
    ctx.check(ok, "rbgeom: a scalar reference selects that grid's location", fn)
    mv = ctx.src.func(N2P, "rbmove")
    ok = "returnrb@rbgeom(oldref,newref)" in utext(mv)
    ctx.check(ok, "rbmove: modes about a new reference = modes @ rbgeom(old reference about new reference)", mv)


RULES = [
    ("C14-R1", r1_inverse_pair, 10),
    ("C14-R2", r2_dispatch, 8),
    ("C14-R3", r3_rbgeom, 6),
]
LEVEL = "other"
EXPLANATION = ("Static: composing getcoordinates' cylindrical and spherical arms with _get_loc_a_basic's yields the identity on [R, theta, z] / [R, theta, phi] "
               "(symbolic: hypot/norm via sin^2+cos^2, atan2 argument order via the tangent identity, reciprocal degree factors, origin/T ordering); type "
               "dispatch agreement; polar-axis guards mention both in-plane coordinates; rbgeom's cross-product table and reference shift.")
MANIFEST = {
    "text": "Thin partial claim decided statically: (R1) forward/inverse point maps are algebraic inverses for cylindrical and spherical systems; (R2) the same type "
            "codes dispatch every coordinate-type branch, the rbgeom_uset azimuth/polar rotations are guarded only at the true polar axis and applied to both row "
            "triplets; (R3) rbgeom is theta x r about the reference point, the shift is skipped only for the zero vector, rbmove composes with rbgeom. "
            "Not decided: reference-chain resolution, rbcoords, formrbe3, replace_basic_cs.",
    "note": "Trusted: CPython ast; verifier/e2_formula.py; atan2 is checked through the tangent identity y cos(a) = x sin(a) (quadrant assumed from R > 0, sin(theta) > 0 away "
            "from the polar singularities, as in the property's domain); T is taken orthonormal.",
    "technique": "static symbolic composition of forward and inverse coordinate maps; structural guard/dispatch rules",
}
