"""C19 -- PSD and signal utilities (thin partial claim).

Every rule evaluates the anchored function on symbols with the C19 value engine (c19_sem.py) and decides on *values and roles*: "the array
returned", "what is stored in it, under which index, inside which loops", "the array handed to np.interp as xp", "the slice of the filter
output that is kept".  No rule looks at a local's name, at the text of a statement or test, at the order or polarity of `if` arms, at
whether a block sits in a helper, or at how a loop / a numpy call is spelled."""
from __future__ import annotations

import ast
from fractions import Fraction

from . import e2_formula as F
from .core import Unsupported
from .e1_srcmodel import dotted
from .e2_eval import is_unknown
from . import c19_sem as S
from .c19_sem import Run, PyTuple, eq, un, israt, const_of, int_of, find_atoms, top_atoms, placed, ix_parts, unslice, is_sym

from .c19_fix import r5_fixtime

PSD = "pyyeti/psd.py"
DSP = "pyyeti/dsp.py"


def _spec_hook(node, ev):
    """proc_psd_spec(spec) -> (Freq, PSD, npsds): the two arrays are the roots of area / interp"""
    if (dotted(node.func) or "").rsplit(".", 1)[-1] == "proc_psd_spec":
        return PyTuple((F.sym("Freq"), F.sym("PSD"), F.sym("npsds")))
    return NotImplemented


def _short(v, n=300):
    s = repr(v)
    return s if len(s) <= n else s[:n] + "..."


def _undecided(vals):
    """a value an undecided test has leaked into (merged `ite`) or that could not be lowered: the regime is not the one the rule speaks about"""
    for v in vals:
        if v is None or is_unknown(v):
            return True
        if isinstance(v, tuple):
            if _undecided(list(v)):
                return True
        elif israt(v) and find_atoms(v, lambda n, a: n == "ite"):
            return True
    return False


_unrecognised = S.unrecognised


def _defined(ctx):
    """names that mean something in the two modules (functions, imports, module-level assignments) or are builtins: a call of any other bare name is an undefined name -
    a definite error at run time, not an idiom the checker does not know"""
    if getattr(ctx, "_c19_defined", None) is None:
        import builtins
        out = set(dir(builtins))
        for rel in (PSD, DSP):
            m = ctx.src.mod(rel)
            out |= {q.split("#")[0].split(".")[0] for q in m.funcs} | S.module_names(ctx, rel) | set(S.module_namedtuples(ctx, rel))
            for st in m.tree.body:
                for x in ast.walk(st) if isinstance(st, (ast.Assign, ast.AnnAssign, ast.AugAssign, ast.ClassDef, ast.If, ast.Try)) else ():
                    if isinstance(x, ast.Name) and isinstance(x.ctx, ast.Store):
                        out.add(x.id)
                    elif isinstance(x, (ast.ClassDef, ast.FunctionDef)):
                        out.add(x.name)
        ctx._c19_defined = out
    return ctx._c19_defined


def _chk(ctx, ok, msg, where, detail=None, vals=(), **kw):
    """ctx.check, except that a mismatch on a value that is not decided is an analysis error (cannot bind), never a violation"""
    if not ok and _undecided(vals):
        ctx.error(msg, where, {"not decided": [_short(v) for v in vals if _undecided([v])][:3], "detail": detail})
        return False
    if not ok and _unrecognised(vals, _defined(ctx)):
        ctx.error(msg, where, {"not decided": "the value is built with routines the checker does not know", "routines": _unrecognised(vals, _defined(ctx))[:6], "detail": detail})
        return False
    return ctx.check(ok, msg, where, detail, **kw)


# =============================================================================================================================== R1 area

def _unwrap_loops(v):
    """loopres(k, n, loopres(k', n', x)) -> ([(k, n), (k', n')], x)"""
    chain = []
    while True:
        a = un(v, "loopres")
        if a is None:
            return chain, v
        chain.append((a[0], a[1]))
        v = a[2]


def _strip_carried(v):
    while True:
        a = un(v, "carried")
        if a is None:
            return v
        v = a[0]


def _is_zero_array(v):
    v = _strip_carried(v)
    return un(v, "zeros") is not None or un(v, "zeros_like") is not None or (israt(v) and v.is_zero())


def _is_fresh_array(v):
    """a newly allocated array, whatever it is filled with (np.zeros / np.empty / np.ones / *_like): enough where every element is overwritten afterwards"""
    v = _strip_carried(v)
    return _is_zero_array(v) or any(un(v, k) is not None for k in ("empty", "ones", "empty_like", "ones_like", "zeros_like"))


def _counter_offset(ix, loops):
    """ix = k + c for one recorded loop counter k and a constant c  ->  (loop record, c)"""
    for l in loops:
        c = const_of(ix - l.k) if israt(ix) else None
        if c is not None:
            return l, c
    return None, None


def _window(T):
    """a test that is (the negation of) a two-sided window on the slope symbol s0  ->  (polarity, [(strict, coefficient of s0, rest)])"""
    pol = True
    a = un(T, "not")
    if a is not None:
        T, pol = a[0], False
    conj = un(T, "and")
    if conj is None:
        disj = un(T, "or")
        if disj is None:
            return None
        conj = []
        for x in disj:          # not (A or B) = (not A) and (not B) ;  not (e < 0) = (-e <= 0)
            u = S.unfn(x)
            if u is None or u[0] not in ("lt0", "le0"):
                return None
            conj.append(F.fn("le0" if u[0] == "lt0" else "lt0", -u[1][0]))
        pol = not pol
    out = []
    for x in conj:
        u = S.unfn(x)
        if u is None or u[0] not in ("lt0", "le0"):
            return None
        e = u[1][0]
        # e * (positive denominator) keeps the sign only if the denominator is a positive constant: require a constant one
        if not e.d.is_const():
            return None
        try:
            cf = F.coeffs_in(e.n.scale(1 / e.d.const_value()), "s0")
        except Unsupported:
            return None
        if set(cf) - {0, 1} or 1 not in cf:
            return None
        out.append((u[0] == "lt0", F.Rat(cf[1]), F.Rat(cf.get(0, F.Poly()))))
    return (pol, out) if len(out) == 2 else None


def _scale_groups(v, var):
    """v as a sum of parts that are homogeneous in the symbol `var` (v(c var) = sum c^d part_d)  ->  {d: part_d};  None when a degree cannot be read"""
    if not israt(v):
        return None

    def atom_deg(a):
        d = F.atom_desc(a)
        if d[0] == "s":
            return 1 if d[1] == var else 0
        if d[0] == "fn":
            args = [F.Rat(F._poly_from_key(k[1]), F._poly_from_key(k[2])) for k in d[2] if not isinstance(k, str)]
        else:
            args = [F.Rat(F._poly_from_key(d[1]))]
        gs = [_scale_groups(x, var) for x in args]
        if any(g is None or len(g) > 1 for g in gs):
            return None
        if d[0] == "fn" and d[1] == "abs":
            return next(iter(gs[0]), 0)          # |c x| = c |x| for c > 0
        return 0 if all(not g or 0 in g for g in gs) else None          # a function of scale-invariant arguments is scale-invariant

    def poly_groups(p_):
        out = {}
        for m, c in p_.t.items():
            deg = 0
            for a, e in m:
                da = atom_deg(a)
                if da is None:
                    return None
                deg += da * e
            out.setdefault(deg, {})[m] = c
        return {k: F.Rat(F.Poly(t)) for k, t in out.items()}
    gd = poly_groups(v.d)
    gn = poly_groups(v.n)
    if gd is None or gn is None or len(gd) != 1:
        return None
    dd = next(iter(gd))
    return {k - dd: x / F.Rat(v.d) for k, x in gn.items()}


def _selector_scaling(T, var):
    """Does the truth of test T change when `var` (the PSD level) is scaled by c > 0?  ->  ("invariant", None) | ("level", limit truth for c -> 0) |
    ("unknown", why).  Every sign leaf e (<|<=|==) 0 is split into parts homogeneous in var; a leaf with one part keeps its sign; a leaf with several
    parts whose lowest-degree part is a non-zero constant tends to that constant's sign for c -> 0."""
    mixed = []

    def walk(t):
        u = S.unfn(t)
        if is_sym(t, "True") or is_sym(t, "False"):
            return t
        if u is None:
            raise Unsupported(f"leaf {_short(t, 120)}")
        nm, a = u
        if nm == "not":
            return S.b_not(walk(a[0]))
        if nm in ("and", "or"):
            return (S.b_and if nm == "and" else S.b_or)([walk(x) for x in a])
        if nm in ("lt0", "le0", "eq0"):
            g = _scale_groups(a[0], var)
            if g is None:
                raise Unsupported(f"degree of {_short(a[0], 120)} in the PSD level")
            if len(g) <= 1:
                return t
            mixed.append(a[0])
            low = g[min(g)]
            c = const_of(low)
            if c is None or c == 0:
                raise Unsupported(f"the part of lowest degree of {_short(a[0], 120)} is not a constant")
            return S.b_const({"lt0": c < 0, "le0": c <= 0, "eq0": False}[nm])
        raise Unsupported(f"leaf {_short(t, 120)}")
    try:
        lim = walk(T)
    except Unsupported as e:
        return "unknown", str(e)
    if not mixed:
        return "invariant", None
    if is_sym(lim, "True") or is_sym(lim, "False"):
        return "level", (is_sym(lim, "True"), mixed)
    return "unknown", "the test depends on the PSD level in some of its parts only"


def r1_area(ctx):
    """psd.area: the value returned is an accumulator that starts from zeros and, inside a loop over all segments and a loop over all columns,
    receives `own element + segment area`; the two segment formulas (evaluated with f2 = f1 e^L, p2 = p1 e^(s L)) are the exact integral of the
    log-log interpolant and its s -> -1 limit; the limit formula is selected by a narrow window centred on the pole of the general one."""
    fn = ctx.src.func(PSD, "area")
    FREQ, PSDS = F.sym("Freq"), F.sym("PSD")
    facts = ["PSD.ndim == 2", "Freq.size >= 2", "len(Freq) >= 2", "Freq.shape[0] >= 2"]
    f1, p1, L, s0 = F.sym("f1"), F.sym("p1"), F.sym("L"), F.sym("s0")

    def evaluate(arm, sub):
        loads = {"F": [], "P": []}

        def rewrite(base, ix, ev):
            if eq(base, FREQ):
                if sub is None:
                    loads["F"].append(ix)
                    return NotImplemented
                c = const_of(ix - sub["kseg"])
                if c == sub["c0"]:
                    return f1
                if c == sub["c0"] + 1:
                    return f1 * F.exp(L)
            elif eq(base, PSDS):
                parts = ix_parts(ix)
                if sub is None:
                    loads["P"].append(parts)
                    return NotImplemented
                if (len(parts) == 2 and sub["col"] is not None and eq(parts[1], sub["col"])) or (len(parts) == 1 and sub["col"] is None and unslice(parts[0]) is None):
                    c = const_of(parts[0] - sub["kseg"])
                    if c == sub["c0"]:
                        return p1
                    if c == sub["c0"] + 1:
                        return p1 * F.exp(s0 * L)
            return NotImplemented

        def oracle(v, ev):
            return arm if ev.sh.loop_stack else None       # the one data-dependent selector inside the loops: both arms are evaluated

        R = Run(ctx, fn, PSD, facts=facts, call=_spec_hook, rewrite=rewrite, oracle=oracle, ranks={"Freq": 1, "PSD": 2})
        return R, loads

    res = {}
    for arm in (True, False):
        R0, loads = evaluate(arm, None)
        # roles of the two loops: the counter in the Freq loads is the segment counter, the one in the PSD column index the column counter
        fo = [_counter_offset(ix, R0.loops) for ix in loads["F"] if unslice(ix) is None]          # (a slice is an intermediate: its elements are loaded after it)
        el = [pr for pr in loads["P"] if len(pr) == 2 and all(unslice(x) is None for x in pr)]          # element loads (rows / columns / slices are intermediates)
        vector = not el          # no element loads: whole rows PSD[k] are used (all columns at once)
        if vector:
            el = [pr + [None] for pr in loads["P"] if len(pr) == 1 and unslice(pr[0]) is None]
        po = [(_counter_offset(pr[0], R0.loops), pr[1]) for pr in el]
        if not fo or not el or any(l is None for l, _ in fo) or any(l is None for (l, _), _ in po):
            ctx.error("area: the loads of the break-point frequencies / PSD values inside the segment loops", fn, {"Freq": [_short(x) for x in loads["F"]]})
            return
        seg = fo[0][0]
        cols = {S._key(c) if c is not None else None: c for _, c in po}
        col, cl, cc = None, None, None
        for c in ([] if vector else cols.values()):
            l_, c_ = _counter_offset(c, R0.loops)
            if l_ is not None and l_ is not seg:
                col, cl, cc = c, l_, c_
                break
        if col is None and not vector:
            col = next(iter(cols.values()))
        ints = lambda xs: sorted({int(c) if c.denominator == 1 else float(c) for c in xs})      # noqa  (JSON-safe)
        g = {"seg": seg, "foff": ints(c for _, c in fo), "poff": ints(c for (_, c), _ in po), "one_seg": all(l is seg for l, _ in fo) and all(l is seg for (l, _), _ in po),
             "ncol": len(cols), "col": col, "colloop": cl, "coloff": None if cc is None else int(cc), "vector": vector}
        c0 = g["foff"][0]
        R, _ = evaluate(arm, {"kseg": seg.k, "c0": c0, "col": col})
        res[arm] = (R, g)
    R, g = res[True]
    seg, cl = g["seg"], g["colloop"]
    # (proc_psd_spec returns the frequencies, one row of PSD values per frequency, and the number of PSD columns: every spelling of the two counts is accepted;
    #  a count that differs from them by a constant is a violation, one that is written in another way is not decided)
    size_forms = [R.E(t) for t in ("Freq.size - 1", "len(Freq) - 1", "Freq.shape[0] - 1", "PSD.shape[0] - 1", "len(PSD) - 1")]
    col_forms = [R.E(t) for t in ("PSD.shape[1]", "npsds", "PSD.shape[-1]", "len(PSD.T)")]

    def count(n, forms, others):
        """True: n is one of the forms | False: n is one of the forms plus a non-zero constant, or another extent of the two arrays (+ a constant) | None: not decided"""
        if any(eq(n, w) for w in forms):
            return True
        if israt(n) and any(const_of(n - w) is not None for w in list(forms) + list(others) if israt(w)):
            return False
        return None
    other_extents = [R.E(t) for t in ("PSD.shape[2]", "PSD.shape[-2]", "PSD.size", "PSD.ndim", "Freq.ndim")]
    msg = "area: every one of the Freq.size - 1 segments is visited (the segment counter runs over 0 .. size - 2 and reads break points k and k + 1)"
    cnt = count(seg.n, size_forms, col_forms + other_extents)
    if cnt is None and g["one_seg"] and g["foff"] == [0, 1]:
        ctx.error(msg, seg.node, {"trip count": _short(seg.n)})
    else:
        ok = g["one_seg"] and g["foff"] == [0, 1] and cnt is True
        ctx.check(ok, msg, seg.node, None if ok else {"trip count": _short(seg.n), "offsets read": g["foff"]})
    msg = "area: every PSD column is visited (a loop over all columns, or whole rows of the PSD array at once)"
    cnt = count(cl.n, col_forms, size_forms + other_extents) if cl is not None else None
    if all(r[1]["vector"] for r in res.values()):
        ctx.ok(msg, seg.node)
    elif cl is not None and g["coloff"] == 0 and cnt is None:
        ctx.error(msg, cl.node, {"trip count": _short(cl.n)})
    else:
        ok = cl is not None and g["coloff"] == 0 and cnt is True
        ctx.check(ok, msg, cl.node if cl is not None else seg.node, None if ok else {"trip count": _short(cl.n) if cl is not None else None})
    ok = all(len(r[1]["foff"]) == 2 and r[1]["foff"][1] == r[1]["foff"][0] + 1 and r[1]["poff"] == r[1]["foff"] and r[1]["ncol"] == 1 and r[1]["one_seg"] for r in res.values())
    ctx.check(ok, "area: the segment formulas read the two end points of the segment - consecutive break points k, k + 1 of Freq and rows k, k + 1 of the same PSD column",
              seg.node, None if ok else {"Freq offsets": g["foff"], "PSD row offsets": g["poff"], "PSD columns": g["ncol"]})
    if not ok:
        return          # the formulas below are evaluated on the end points of one segment: nothing more to say when they are not that
    # ---- the accumulator and the increments
    incs, accs, tests = {}, {}, {}
    for arm, (Ra, ga) in res.items():
        rv = Ra.ret()
        chain, body = _unwrap_loops(rv)
        st = un(body, "store") if israt(body) else None
        if st is None and ga["vector"] and israt(body):
            # whole-array accumulation  acc <- acc + areas of the segment for all columns
            car = [av for av, nm, a in top_atoms(body) if nm == "carried"]
            if len(car) == 1 and not find_atoms(body - car[0], lambda n, a: n == "carried"):
                st = (car[0], None, body)
        scalar = None
        if st is not None and len(chain) == 1 and not ga["vector"] and israt(st[2]):
            # one curve at a time: acc[j] <- (a scalar that starts from 0 and receives the areas of all segments of column j in an inner loop)
            chain2, inner = _unwrap_loops(st[2])
            car = [av for av, nm, a in top_atoms(inner) if nm == "carried"] if chain2 and israt(inner) else []
            if len(car) == 1 and not find_atoms(inner - car[0], lambda n, a: n == "carried"):
                start = un(car[0], "carried")[0]
                scalar = (israt(start) and const_of(start) == 0, inner - car[0], chain + chain2)
        if scalar is not None:
            old, jx, val = st
            inc = scalar[1]
            clean = not find_atoms(inc, lambda n, a: n in ("carried", "loopres", "store"))
            inloops = {S._key(k) for k, _ in scalar[2]}
            accs[arm] = (scalar[0], eq(jx, ga["col"]), clean, S._key(ga["seg"].k) in inloops and ga["colloop"] is not None and S._key(ga["colloop"].k) in inloops,
                         next((c.node for c in Ra.cells if eq(c.new, body)), ga["seg"].node))
            incs[arm] = inc
            ts = [t for t in Ra.sh.tests if t[3] and israt(t[0]) and t[1] is not None and not (is_sym(t[0], "True") or is_sym(t[0], "False")) and _leaves_undecided(Ra, t[0])]
            keys = {S._key(t[0]) for t in ts}
            tests[arm] = ts[0] if len(keys) == 1 else None
            continue
        if st is None or len(chain) < (1 if ga["vector"] else 2):
            if israt(rv) and not _undecided([rv]) and not find_atoms(rv, lambda n, a: n in ("loopres", "carried") or n.startswith("call:") or n == "apply"):
                ctx.fail("area: segment areas are accumulated per column, starting from zero (additivity over segments): acc[j] <- acc[j] + area(segment, column j)", Ra.ret_node(),
                         {"returned": _short(rv), "consequence": "the value returned does not depend on the segment loops at all"})
            else:
                ctx.error("area: the returned value is an array accumulated inside the segment and column loops", Ra.ret_node(), _short(rv))
            return
        old, jx, val = st
        own = Ra.ev.mk_idx(old, jx) if jx is not None else old
        inc = val - own
        clean = not find_atoms(inc, lambda n, a: n in ("carried", "loopres", "store"))
        inloops = {S._key(k) for k, _ in chain}
        accs[arm] = (_is_zero_array(old), (jx is None and ga["vector"]) or (jx is not None and eq(jx, ga["col"])), clean,
                     S._key(ga["seg"].k) in inloops and (ga["vector"] or (ga["colloop"] is not None and S._key(ga["colloop"].k) in inloops)),
                     next((c.node for c in Ra.cells if eq(c.new, body)), ga["seg"].node))
        incs[arm] = inc
        ts = [t for t in Ra.sh.tests if t[3] and israt(t[0]) and t[1] is not None and not (is_sym(t[0], "True") or is_sym(t[0], "False")) and _leaves_undecided(Ra, t[0])]
        keys = {S._key(t[0]) for t in ts}
        tests[arm] = ts[0] if len(keys) == 1 else None
    if tests[True] is None or tests[False] is None or S._key(tests[True][0]) != S._key(tests[False][0]):
        ctx.error("area: exactly one data-dependent test selects between the two segment formulas", fn, [_short(t[0]) for t in (tests[True], tests[False]) if t])
        return
    T, _, tnode, _ = tests[True]
    exact = p1 * f1 * (F.exp((s0 + 1) * L) - 1) / (s0 + 1)          # integral of p1 (f/f1)^s over [f1, f2], f2 = f1 e^L
    lim_exact = p1 * f1 * L                                           # its limit for s -> -1
    w = _window(T)
    t_all = S.V(S.Shared(oracle=lambda v, ev: True)).truth(T)
    if w is not None and t_all is not None:
        # the leaves of the test were given the truth value `arm`: the window itself is true in the run where truth(T) == polarity
        sp = incs[True] if t_all == w[0] else incs[False]
    else:
        # the selector is not understood: take as "special" the arm that is not the exact integral
        sp = incs[True] if incs[False].equals(exact) or not incs[True].equals(exact) and incs[True].equals(lim_exact) else incs[False]
    gen = incs[False] if sp is incs[True] else incs[True]
    raw = [av for x in (sp, gen) for av, nm, a in find_atoms(x, lambda n, a: n == "idx" and (eq(a[0], FREQ) or eq(a[0], PSDS)))]
    if raw:
        ctx.error("area: the segment formulas use the break points in a way that is not understood", tnode, [_short(x) for x in raw])
        return
    ok = gen.equals(exact)
    _chk(ctx, ok, "area: the general formula (f2 p2 - f1 p1)/(s + 1), s the log-log slope of the segment, is the exact integral of the log-log interpolant over the segment", tnode,
         None if ok else {"code": _short(gen), "integral": _short(exact)}, [gen])
    eps = F.sym("eps")
    try:
        ser = F.series(gen.subs({"s0": eps - 1}), "eps", 0)
        lim = ser.coef(0) if ser.val >= 0 else None
    except Unsupported:
        lim = None
    ok = lim is not None and lim.equals(sp)
    _chk(ctx, ok, "area: the special-case formula p1 f1 log(f2/f1) is the s -> -1 limit of the general one", tnode,
         None if ok else {"limit": _short(lim) if lim is not None else "singular", "special": _short(sp)}, [gen, sp])
    # homogeneity: area(c spec) = c area(spec) - both formulas are of degree 1 in the PSD values, so the test that selects between them must not change
    # when all PSD values are scaled (an absolute tolerance on a quantity that scales with the data - isclose(f2 p2, f1 p1) - does)
    kind, info = _selector_scaling(T, "p1")
    msg = ("area: the test that selects the limit formula is a function of the log-log slope alone - it does not change when every PSD value is scaled by c > 0 "
           "(area(c spec) = c area(spec))")
    t_none = S.V(S.Shared(oracle=lambda v, ev: False)).truth(T)

    def used(truth):
        taken = incs[True] if t_all == truth else incs[False] if t_none == truth else None
        if taken is None:
            return "one formula is used for every segment"
        return ("the s = -1 limit formula is used for every segment, whatever its slope" if taken is sp else "the general formula is used at s = -1 as well (0/0)")
    if kind == "invariant":
        ctx.ok(msg, tnode)
    elif kind == "level":
        ctx.fail(msg, tnode, {"test": _short(T), "not homogeneous in the PSD values": [_short(x) for x in info[1]],
                              "consequence": f"for PSD values small enough the test is {info[0]} whatever the slope: " + used(info[0])})
    else:
        ctx.error(msg, tnode, {"test": _short(T), "why": info})
    if w is None or t_all is None:
        ctx.error("area: the selector is a two-sided window on the slope", tnode, _short(T))
    else:
        pol, bounds = w
        # the window: two bounds a s0 + b (<|<=) 0 ; centre = mean of the two roots, whatever the sign of a
        roots = [-b / a for _, a, b in bounds]
        centre = (roots[0] + roots[1]) / 2
        den = gen.d if not gen.d.is_const() else exact.d
        try:
            pole = den.subs({"s0": centre}).is_zero()
        except Unsupported:
            pole = False
        ok = pole and (bounds[0][1] + bounds[1][1]).is_zero()
        ctx.check(ok, "area: the limit formula is selected by |d| < eps with the window centred exactly on the pole of the general formula (the singular slope s = -1, "
                      "i.e. -10 log10(2) dB/octave, and only there)", tnode,
                  None if ok else {"test": _short(T), "centre of the window": _short(centre), "denominator of the general formula": _short(F.Rat(den)),
                                   "consequence": "slopes near but not at the singular one (e.g. exactly -3 dB/octave) would be integrated with the limit formula"})
        if ok:
            hw = const_of((roots[0] - roots[1]) / 2)
            if hw is None:
                ctx.error("area: the window is narrow (relative error of the limit formula is eps * log(f2/f1) / 2)", tnode, _short((roots[0] - roots[1]) / 2))
            else:
                ok = 0 < abs(hw) <= Fraction(1, 10000)
                ctx.check(ok, "area: the window is narrow (relative error of the limit formula is eps * log(f2/f1) / 2)", tnode, None if ok else str(abs(hw)))
    ok = all(a[0] and a[1] and a[2] and a[3] for a in accs.values())
    ctx.check(ok, "area: segment areas are accumulated per column, starting from zero (additivity over segments): acc[j] <- acc[j] + area(segment, column j)", accs[True][4],
              None if ok else {str(k): {"starts from zeros": a[0], "stored under the column index": a[1], "increment independent of the accumulator": a[2], "inside both loops": a[3]}
                               for k, a in accs.items()})


def _leaves_undecided(R, T):
    """True when the truth of T was supplied by the rule's oracle (it is decided neither by constants nor by the regime facts)"""
    probe = S.V(S.Shared(facts=R.sh.facts))
    probe.sh.index_syms = R.sh.index_syms
    return probe.truth(T) is None


# =============================================================================================================================== R2 interp

def r2_interp(ctx):
    """psd.interp, each regime of `linear` evaluated on symbols: the value returned in the log-log regime is store(A, m, exp(A[m])) with
    A = interp1d(log Freq, log PSD, ...)(log freq) and m the in-range mask; in the linear regime it is interp1d(Freq, PSD, ...)(freq)"""
    fn = ctx.src.func(PSD, "interp")

    def regime(lin):
        R = Run(ctx, fn, PSD, pins={"linear": "True" if lin else "False"}, call=_spec_hook)
        v = R.ret()
        mk = R.calls("interp1d")
        return R, v, mk

    def applied(v):
        """apply(interp1d(...), q) -> (placed interp1d arguments, q)"""
        a = un(v, "apply") if israt(v) else None
        if a is None or len(a) != 2:
            return None, None
        u = S.unfn(a[0])
        if u is None or not u[0].startswith("call:") or u[0][5:].rsplit(".", 1)[-1] != "interp1d":
            return None, None
        return placed("interp1d", u[1]), a[1]

    # ---- log-log regime.  Accepted forms of the value returned (A = interp1d(...)(q), m the in-range mask):
    #   store(A, m, exp(A[m]))      exp written back into the in-range slots (out-of-range keeps the fill value)
    #   ite(m, exp(A), 0)           np.where(m, exp(A), 0)   (also np.where(m, exp(A), A))
    #   store(exp(A), not m, 0)     exp of everything, out-of-range zeroed
    R, v, mk = regime(False)
    A = mask = None
    form_ok = False
    st = un(v, "store") if israt(v) else None
    it = un(v, "ite") if israt(v) else None
    if st is not None and un(st[0], "apply") is not None:
        A, mask = st[0], st[1]
        form_ok = eq(st[2], F.exp(R.ev.mk_idx(A, mask)))
    elif st is not None:
        try:
            A = F.log(st[0])
        except Unsupported:
            A = None
        mask = S.b_not(st[1])
        form_ok = A is not None and un(A, "apply") is not None and eq(st[2], F.const(0))
    elif it is not None:
        mask = it[0]
        try:
            A = F.log(it[1])
        except Unsupported:
            A = None
        # (np.where(m, exp(A), A): the out-of-range results keep the value interp1d gave them, the fill value - the same array as the masked store)
        form_ok = A is not None and un(A, "apply") is not None and (eq(it[2], F.const(0)) or eq(it[2], A))
    else:
        A = v
        if applied(A)[0] is None and israt(v):
            try:
                if applied(F.log(v))[0] is not None:
                    A = F.log(v)          # exp of every result, in range or not: the form the second obligation reports
            except Unsupported:
                pass
    a, q = applied(A)
    where = mk[0].node if mk else fn
    if a is None and israt(v) and (find_atoms(v, lambda n, a_: n in ("loopres", "carried")) or (st is None and it is None and find_atoms(v, lambda n, a_: n in ("store", "ite")))):
        # the interpolant is post-processed in a way that is none of the forms above (element by element in a loop, in several steps ...): not decided
        ctx.error("interp (log-log): the value returned is the interpolant with exp() written back under the in-range mask", R.ret_node(), _short(v))
        a = None
    else:
        a = a if a is not None else ({} if not (v is None or is_unknown(v)) else None)
        if a is None:
            ctx.error("interp (log-log): the returned value", R.ret_node(), _short(v))
    if a is not None:
        _r2_loglog(ctx, R, v, a, q, form_ok, mask, where)
    # ---- linear regime
    R, v, mk = regime(True)
    a, q = applied(v)
    if a is None and israt(v) and find_atoms(v, lambda n, a_: n in ("loopres", "carried")):
        ctx.error("interp (linear): the value returned is the interpolant itself", R.ret_node(), _short(v))
        return
    a = a or {}
    ok = R.same(a.get("x"), "Freq") and R.same(a.get("y"), "PSD") and R.same(q, "freq") and not R.cells
    _chk(ctx, ok, "interp (linear): no log/exp on either side", mk[0].node if mk else fn, None if ok else {"returned": _short(v)}, [v])


def _r2_loglog(ctx, R, v, a, q, form_ok, mask, where):
    ok = R.same(a.get("x"), "np.log(Freq)") and R.same(a.get("y"), "np.log(PSD)") and R.same(q, "np.log(freq)")
    _chk(ctx, ok, "interp (log-log): both axes of the specification and the query frequencies are taken to log", where,
         None if ok else {"interp1d": {k: _short(x) for k, x in a.items()}, "query": _short(q)}, [v])
    inr = "(freq >= Freq[0]) & (freq <= Freq[-1])"
    ok = form_ok and mask is not None and R.same(mask, inr)
    _chk(ctx, ok, "interp (log-log): exp() is applied to exactly the in-range results (out-of-range stays at the fill value 0)", R.ret_node(),
         None if ok else {"returned": _short(v)}, [v])
    ok = R.same(a.get("fill_value"), "0") and R.same(a.get("bounds_error"), "False")
    ctx.check(ok, "interp (log-log): out-of-range queries give 0, not an error", where, nontrivial=False)


# =============================================================================================================================== R3 resample

FILTERS = {"lfilter", "upfirdn", "convolve", "fftconvolve", "oaconvolve", "filtfilt", "resample_poly", "sosfilt", "convolve1d", "correlate"}


def _is_filter(name, args):
    return name.startswith("call:") and name.rsplit(".", 1)[-1] in FILTERS


def _last_dim(v):
    """length along the last axis of an array value, where the value shows it"""
    z = un(v, "zeros") or un(v, "ones") or un(v, "empty")
    if z is not None:
        shp = z[0]
        st = un(shp, "store")
        if st is not None and int_of(st[1]) == -1:
            return st[2]
        t = un(shp, "tuple")
        if t is not None:
            return t[-1]
        sc = un(shp, "seqcat")
        if sc is not None and un(sc[1], "tuple") is not None:
            return un(sc[1], "tuple")[-1]
        return shp if un(shp, "attr:shape") is None else None
    st = un(v, "store")
    if st is not None:
        return _last_dim(st[0])
    return None


def _last_axis_slice(ix):
    """(..., a:b:s) or a:b:s  ->  (a, b, s) with None for absent"""
    parts = ix_parts(ix)
    if len(parts) == 2 and is_sym(parts[0], "Ellipsis"):
        return unslice(parts[1])
    return None          # (a bare slice addresses the FIRST axis: the last one only for 1-D data, and resample takes data of any dimension)


class _Layout:
    """The array handed to the filter, read along its last axis: `total` samples, all zero except positions off + stride * j (j = 0 .. ln - 1), which hold
    sample j of `signal`.  However the array was put together - zeros concatenated around a zero-stuffed array, the samples written straight into one
    zero buffer that already has room for the padding, no stuffing at all - there is one such description, and the lag bookkeeping speaks about it only:
    `off` is the front padding, total - off - ln * stride the padding behind the stuffed signal."""

    def __init__(self, total, off, stride, signal, buffer=None, slot=None, cat_axes=(), core=None, stop=None):
        self.total, self.off, self.stride, self.signal, self.buffer, self.slot = total, off, stride, signal, buffer, slot
        self.cat_axes = list(cat_axes)          # axis of every concatenation that built the array
        self.core = core                        # length of the array the samples were stored in / of the signal itself (before anything was concatenated to it)
        self.stop = stop                        # explicit end of the slots the samples were stored in (None: to the end of the buffer)
        self.slot_start = off                   # first slot, counted in the buffer itself (off counts in the whole filter input)


def _zero_buffer(buf):
    """`b = np.empty(shape); b[...] = 0` (every element overwritten with 0, whatever the buffer held) is np.zeros(shape)"""
    st = un(buf, "store")
    if st is not None and israt(st[2]) and const_of(st[2]) == 0:
        parts = ix_parts(st[1])
        full = all(is_sym(p_, "Ellipsis") or (unslice(p_) is not None and all(b is None for b in unslice(p_))) for p_ in parts)
        if full and sum(1 for p_ in parts if is_sym(p_, "Ellipsis")) <= 1:
            for k0 in ("zeros", "ones", "empty"):
                a = un(st[0], k0)
                if a is not None:
                    return F.fn("zeros", a[0])
    return buf


def _layout(R, x, ln):
    """-> _Layout of the filter input x (ln: the number of samples of the signal along the last axis; R: the run, for the sign facts of the regime)"""
    if x is None or not israt(x):
        raise Unsupported(f"the filter input: {_short(x)}")
    c = un(x, "cat")
    if c is not None:
        inner, before, total = None, None, F.const(0)
        def zeros_len(part):
            """length of a block of zeros (a zero array, or zero arrays concatenated along the same axis); None: not that"""
            if un(part, "zeros") is not None:
                n = _last_dim(part)
                if n is None:
                    raise Unsupported("length of the padding")
                return n
            cc = un(part, "cat")
            if cc is not None and eq(cc[0], c[0]):
                ns = [zeros_len(x) for x in cc[1:]]
                if all(n is not None for n in ns):
                    tot = F.const(0)
                    for n in ns:
                        tot = tot + n
                    return tot
            return None
        for part in c[1:]:
            n = zeros_len(part)
            if n is not None:
                total = total + n
                continue
            if inner is not None:
                raise Unsupported("the filter input is not zeros around one array")
            inner, before = _layout(R, part, ln), total
            if inner.total is None:
                raise Unsupported(f"length of the array the samples are stored in (padding is concatenated around it): {_short(inner.buffer)}")
            total = total + inner.total
        if inner is None:
            raise Unsupported("the filter input is not zeros around one array")
        out = _Layout(total, before + inner.off, inner.stride, inner.signal, inner.buffer, inner.slot, [c[0]] + inner.cat_axes, inner.core, inner.stop)
        out.slot_start = inner.slot_start
        return out
    st = un(x, "store")
    if st is not None:
        buf, slot, sig = st
        buf = _zero_buffer(buf)
        if un(buf, "store") is not None or un(buf, "loopres") is not None or un(buf, "carried") is not None:
            raise Unsupported(f"the filter input is a buffer written in several steps: {_short(x)}")
        n = _last_dim(buf) if (un(buf, "zeros") or un(buf, "ones") or un(buf, "empty")) is not None else None          # (a buffer that is not zeros has a length too: the obligation on the zeros reports it)
        sl = _last_axis_slice(slot)
        if sl is None:
            parts = ix_parts(slot)
            if unslice(parts[0]) is not None and not any(is_sym(p_, "Ellipsis") for p_ in parts) and all(unslice(p_) is not None for p_ in parts):
                # slices counted from the FIRST axis: not the axis that is filtered unless the data is 1-D (resample takes data of any dimension)
                sl0 = unslice(parts[0])
                return _Layout(n, sl0[0] if sl0[0] is not None else F.const(0), F.sym("<a step along the first axis>"), sig, buf, slot, [], n, sl0[1])
            raise Unsupported(f"the samples are not stored in a slice along the last axis of the filter input: {_short(slot)}")
        probe = S.V(R.sh.scratch())

        def bound(b):
            """a slice bound the regime's facts show to be negative counts from the end of the buffer"""
            if b is None or probe.truth(S.lt0(b)) is not True:
                return b
            if n is None:
                raise Unsupported("a slice bound counted from the end of a buffer of unknown length")
            return n + b
        lo_, hi_ = bound(sl[0]), bound(sl[1])
        # (n None: not a zero array of visible length - the obligations that need the length / the zeros report it)
        return _Layout(n, lo_ if lo_ is not None else F.const(0), sl[2] if sl[2] is not None else F.const(1), sig, buf, slot, [], n, hi_)
    lr = un(x, "loopres")
    if lr is not None:
        return _loop_layout(x, lr, ln)
    u = S.unfn(x)
    if u is not None and (u[0].startswith("call:") or u[0] in ("apply", "ite", "idx", "zeros")):
        raise Unsupported(f"the filter input is built in a way that is not modelled: {_short(x)}")
    # what is left is read as the signal itself (no stuffing, no padding): only an element-wise expression of inputs and of reductions of inputs is that - an array
    # built in any other way (filled in a loop, by a routine, through a mask ...) is a buffer whose stores were not placed
    for av, nm, a in top_atoms(x):
        if nm in _REDUCTIONS:
            continue
        inner = un(av, "idx") or un(av, "call:np.expand_dims")
        if inner is not None and israt(inner[0]) and (S.unfn(inner[0]) or ("",))[0] in _REDUCTIONS:
            continue
        raise Unsupported(f"the filter input is built in a way that is not modelled: {_short(av)}")
    return _Layout(ln, F.const(0), F.const(1), x, None, None, [], ln, None)


_REDUCTIONS = {"call:np.mean", "call:np.sum", "call:np.average", "call:np.nanmean", "call:np.median", "call:np.max", "call:np.min", "call:np.std"}


def _loop_layout(x, lr, ln):
    """the filter input is a zero buffer filled sample by sample in a counted loop: `for j in range(ln): buf[..., off + stride * j] = signal[..., j]`"""
    k, n, body = lr
    kname = S._strsym(k)
    st = un(body, "store")
    cb = un(st[0], "carried") if st is not None else None
    if kname is None or cb is None or un(cb[0], "zeros") is None:
        raise Unsupported(f"the filter input is filled in a loop in a way that is not modelled: {_short(x)}")
    buf, slot, val = cb[0], st[1], st[2]
    parts = ix_parts(slot)
    iv = un(val, "idx") if israt(val) else None
    vparts = ix_parts(iv[1]) if iv is not None else []
    if not (len(parts) == 2 and is_sym(parts[0], "Ellipsis") and israt(parts[1]) and unslice(parts[1]) is None
            and len(vparts) == 2 and is_sym(vparts[0], "Ellipsis") and israt(vparts[1]) and eq(vparts[1], k) and israt(iv[0]) and not iv[0].depends_on(kname)):
        raise Unsupported(f"the filter input is filled in a loop, but not as `buffer[..., position(j)] = signal[..., j]`: {_short(body)}")
    pos = parts[1]
    off = pos.subs({kname: F.const(0)})
    stride = pos.subs({kname: F.const(1)}) - off
    if off.depends_on(kname) or stride.depends_on(kname) or not eq(pos, off + stride * k):
        raise Unsupported(f"the position a loop stores sample j at is not off + stride * j: {_short(pos)}")
    if not eq(n, ln):
        raise Unsupported(f"the loop that fills the filter input runs over {_short(n)} samples, not over the input length")
    total = _last_dim(buf)
    out = _Layout(total, off, stride, iv[0], buf, F.fn("tuple", F.sym("Ellipsis"), S.mk_slice(off, off + ln * stride, stride)), [], total, off + ln * stride)
    return out


class _Resampled:
    """roles in one regime of dsp.resample, read from the value returned"""

    def __init__(self, R, rv):
        self.R = R
        cands = [(av, nm, args) for av, nm, args in top_atoms(rv) if _is_filter(nm, args) or find_atoms(av, _is_filter)] if israt(rv) else []
        if len(cands) != 1:
            raise Unsupported(f"the returned array is not (a slice of) one filter output plus the mean: {_short(rv)}")
        av, nm, args = cands[0]
        self.rest = rv - av
        if find_atoms(self.rest, _is_filter):
            raise Unsupported("the filter output occurs non-linearly in the returned array")
        self.start, self.stop, self.step = F.const(0), None, F.const(1)
        if nm == "idx":
            sl = _last_axis_slice(args[1])
            if sl is None:
                raise Unsupported(f"the filter output is not sliced along the last axis: {_short(args[1])}")
            self.start = sl[0] if sl[0] is not None else F.const(0)
            self.stop = sl[1]
            self.step = sl[2] if sl[2] is not None else F.const(1)
            u = S.unfn(args[0])
            if (u is None or not _is_filter(u[0], u[1])) and israt(args[0]):
                # (filter output + mu)[..., a::s] with mu the mean kept as a trailing axis of length 1: broadcasting comes first, so this is (filter output)[..., a::s] + mu
                fs = [(av_, nm_, a_) for av_, nm_, a_ in top_atoms(args[0]) if _is_filter(nm_, a_)]
                if len(fs) == 1:
                    extra = args[0] - fs[0][0]
                    if not find_atoms(extra, _is_filter) and _last_axis_mean(extra, R.E("data")) is True:
                        self.rest = self.rest + extra
                        u = (fs[0][1], fs[0][2])
            if u is None or not _is_filter(u[0], u[1]):
                raise Unsupported(f"what is sliced is not the filter output: {_short(args[0])}")
            nm, args = u
        elif not _is_filter(nm, args):
            raise Unsupported(f"the returned array is not a slice of the filter output: {_short(av)}")
        self.routine = nm[5:].rsplit(".", 1)[-1]
        self.pad_front = self.pad_back = F.const(0)
        self.cat_axis = None
        self.up = None
        if self.routine == "lfilter":
            a = placed("signal.lfilter", args)
            self.fir, self.den, self.axis, x = a.get("b"), a.get("a"), a.get("axis", F.const(-1)), a.get("x")
            one = un(self.den, "tuple") if self.den is not None else None
            if one is not None and len(one) == 1:
                self.den = one[0]              # lfilter(b, [1.0], x)
            self.rate = F.const(1)             # output sample k is full-rate sample k
            ln = R.E("data.shape[-1]")
            lay = self.layout = _layout(R, x, ln)
            self.buffer, self.slot, self.signal = lay.buffer, lay.slot, lay.signal
            self.pad_front = lay.off           # full-rate position of the first sample in the array that is filtered
            self.pad_back = lay.total - lay.off - ln * lay.stride if lay.total is not None else None          # what follows the ln * stride slots of the stuffed signal
            self.cat_axis = None if not lay.cat_axes else lay.cat_axes[0] if all(eq(a_, lay.cat_axes[0]) for a_ in lay.cat_axes) else F.sym("<mixed>")
        elif self.routine == "upfirdn":
            a = placed("signal.upfirdn", args)
            self.fir, self.den, self.axis = a.get("h"), F.const(1), a.get("axis", F.const(-1))
            self.up = a.get("up", F.const(1))
            self.rate = a.get("down", F.const(1))          # output sample k is full-rate sample k * down
            self.buffer, self.slot, self.signal = None, None, a.get("x")
        else:
            raise Unsupported(f"filter routine {self.routine} is not modelled")

    def stuff_step(self):
        if self.up is not None:
            return self.up
        return self.layout.stride

    def slots(self, ln):
        """True: the slice the samples are stored in has exactly ln slots (numpy would raise otherwise) | None: not decided"""
        lay = self.layout
        if lay.slot is None:
            return True
        end = lay.stop if lay.stop is not None else lay.core          # (core: the length of the buffer itself)
        if end is None:
            return None
        return True if eq(end - lay.slot_start, ln * lay.stride) else None


def _last_axis_mean(mu, data):
    """True / False / None (not understood): mu is the mean of `data` along the last axis, kept as a trailing axis of length 1"""
    def is_mean(v, keep):
        u = S.unfn(v)
        if u is None or u[0] != "call:np.mean":
            return False
        a = placed("np.mean", u[1])
        kd = a.get("keepdims")
        return eq(a.get("a"), data) and int_of(a.get("axis")) == -1 and ((kd is not None and is_sym(kd, "True")) if keep else (kd is None or is_sym(kd, "False"))) \
            and set(a) <= {"a", "axis", "keepdims"}
    if not israt(mu):
        return None
    if is_mean(mu, True):
        return True
    ix = un(mu, "idx")
    if ix is not None and is_mean(ix[0], False):
        parts = ix_parts(ix[1])
        if len(parts) == 2 and is_sym(parts[0], "Ellipsis") and (is_sym(parts[1], "None") or is_sym(parts[1], "np.newaxis")):
            return True
    ex = un(mu, "call:np.expand_dims")
    if ex is not None and is_mean(ex[0], False):
        pos, kw_ = S.call_args(ex[1:])
        ax = kw_.get("axis", pos[0] if pos else None)
        if ax is not None and int_of(ax) == -1:
            return True
    for av, nm, a in find_atoms(mu, lambda n, a: n == "call:np.mean"):
        pl = placed("np.mean", a)
        if eq(pl.get("a"), data) and int_of(pl.get("axis")) not in (None, -1):
            return False            # a mean along another axis
    if find_atoms(mu, lambda n, a: n in ("call:np.mean", "call:np.average", "call:np.sum", "call:np.nanmean")):
        return None
    return False


def _opaque_extents(vals):
    """extents (X.shape / X.size / len(X) / X.ndim) of arrays X that are not plain inputs of the function: the size of a computed array (one built in a helper, the
    result of an expression the engine does not know the shape of) that the value does not show.  A layout that is expressed in such an extent cannot be compared with
    one expressed in data.shape[-1]: the store / the padding cannot be placed - not decided, never a violation."""
    out = []
    for v in vals:
        if not israt(v):
            continue
        for av, nm, a in find_atoms(v, lambda n, a: n in ("attr:shape", "attr:size", "attr:ndim", "len")):
            x = a[0] if a else None
            if not (israt(x) and S.unfn(x) is None and S._strsym(x) is not None):
                out.append(av)
    return out


def r3_resample(ctx):
    """dsp.resample, evaluated in the regimes (p', q' > 1), (q' = 1), (t given); p' = p / gcd, q' = q / gcd.  The lag bookkeeping is generic:
    whatever routine filters (lfilter on a zero-stuffed, zero-padded signal: output sample k is full-rate sample k; upfirdn: output sample k is
    full-rate sample k * down), the first retained sample must be the full-rate sample `front padding + M/2` (the FIR is symmetric about
    M/2) and the retained samples must be q' full-rate samples apart.  "Front padding", stuffing step and the padding behind the signal are read from
    the array that is actually handed to the filter (_Layout: total length, position of sample j = off + stride j), however it was put together:
    zeros concatenated / appended / np.pad-ed around a stuffed array, or the samples written straight into one zero buffer with room for the padding
    (slots nz : nz + ln p : p, or nz:-nz:p - a bound the regime's facts show to be negative counts from the end)."""
    fn = ctx.src.func(DSP, "resample")

    def gcd_hook(node, ev):
        if (dotted(node.func) or "").rsplit(".", 1)[-1] == "gcd" and len(node.args) == 2:
            vs = [ev.ev(a) for a in node.args]
            if all(israt(v) for v in vs) and {S._key(v) for v in vs} == {S._key(ev.lookup("p") or F.sym("p")), S._key(ev.lookup("q") or F.sym("q"))}:
                return F.sym("g")          # g = gcd(p, q)
        return NotImplemented

    def regime(qone=False, t=False):
        pins = {"axis": "-1", "getfir": "False"}
        facts = ["p // g > 1", "p > 1", "q > 1", "pts > 0"]          # (p >= p / gcd > 1; q >= gcd >= 1 and q = gcd only in the q' = 1 regime, where q is pinned; the FIR has taps)
        if qone:
            pins["q"] = "g"                # q' = 1  <=>  q = gcd(p, q)
            facts.remove("q > 1")
        else:
            facts.append("q // g > 1")
        if t:
            facts.append("not:t is None")
        else:
            pins["t"] = "None"
        return Run(ctx, fn, DSP, pins=pins, facts=facts, call=gcd_hook)

    descr = {}
    for arm, qone in (("q > 1", False), ("q == 1", True)):
        R = regime(qone)
        rv = R.ret()
        Pr, Qr = R.E("p // g"), R.E("q // g")
        M = R.E("2 * pts * max(P, Q)", P=Pr, Q=Qr)
        try:
            if rv is None or is_unknown(rv) or isinstance(rv, tuple):
                raise Unsupported(f"value returned: {_short(rv)}")
            D = _Resampled(R, rv)
        except Unsupported as e:
            if israt(rv) and not _undecided([rv]) and not find_atoms(rv, _is_filter) and not find_atoms(rv, lambda n, a: n == "apply"):
                ctx.fail(f"resample ({arm}): result taken from the filter output", R.ret_node(), {"returned": _short(rv), "consequence": "the value returned does not depend on the FIR filter at all"})
            else:
                ctx.error(f"resample ({arm}): result taken from the filter output", R.ret_node(), str(e))
            continue
        descr[arm] = (R, D, Pr, Qr, M, rv)
        def chk(ok, msg, where, detail=None, rv=rv, sizes=()):
            op = _opaque_extents(sizes) if not ok else []
            if op:
                ctx.error(msg, where, {"not decided": "the layout is expressed in the size of an array the checker cannot relate to the input length", "sizes": [_short(x) for x in op[:3]], "detail": detail})
                return False
            return _chk(ctx, ok, msg, where, detail, [rv])
        first = D.start * D.rate
        want = D.pad_front + M / 2
        ok = eq(first, want)
        chk(ok, f"resample ({arm}): the first retained sample is full-rate sample `front padding + M/2` of the filter output (the FIR is centred at M/2), for every p/q",
                  R.ret_node(), None if ok else {"routine": D.routine, "first retained full-rate index": _short(first), "expected": _short(want),
                                                 "consequence": "q * (x // q) != x whenever q does not divide x: the output is shifted by a fraction of an output sample "
                                                                "(original samples are not kept, constants and band-limited signals are not reproduced)"}, sizes=[first, want])
        sp = D.step * D.rate
        ok = eq(sp, Qr)
        chk(ok, f"resample ({arm}): retained samples are {'q' if arm == 'q > 1' else '1'} full-rate sample(s) apart after the lag is removed", R.ret_node(),
                  None if ok else _short(sp))
        sig = D.signal
        removed = R.E("data") - sig if israt(sig) else None
        ok = removed is not None and eq(D.rest, removed)
        if not ok and removed is not None and _last_axis_mean(D.rest, R.E("data")) is True and _last_axis_mean(removed, R.E("data")) is True:
            ok = True          # two spellings of one value: np.mean(data, axis=-1, keepdims=True) = data.mean(axis=-1)[..., None] = np.expand_dims(data.mean(axis=-1), -1)
        chk(ok, f"resample ({arm}): the mean removed before filtering is added back", R.ret_node(), None if ok else {"added": _short(D.rest), "removed": _short(removed)})
    if "q > 1" not in descr:
        return
    R, D, Pr, Qr, M, rv = descr["q > 1"]

    def chk(ok, msg, where, detail=None, rv=rv, sizes=()):
        op = _opaque_extents(sizes) if not ok else []
        if op:
            ctx.error(msg, where, {"not decided": "the layout is expressed in the size of an array the checker cannot relate to the input length", "sizes": [_short(x) for x in op[:3]], "detail": detail})
            return False
        return _chk(ctx, ok, msg, where, detail, [rv])
    ss = D.stuff_step()
    ok = ss is not None and eq(ss, Pr) and eq(D.step * D.rate, Qr)
    chk(ok, "resample: the ratio is reduced by gcd(p, q) before anything is derived from it (stuffing step p / gcd, decimation step q / gcd)", fn,
              None if ok else {"stuffing step": _short(ss), "decimation step": _short(D.step * D.rate)})
    fir = D.fir
    lens = [a[0] for _, nm, a in find_atoms(fir, lambda n, a: n in ("call:signal.windows.kaiser", "call:np.arange"))] if israt(fir) else []
    ok = len(lens) >= 2 and all(eq(x, M + 1) for x in lens)
    chk(ok, "resample: the FIR has M + 1 taps with M = 2 pts max(p, q) (even: M/2 is the FIR delay in samples)", fn, None if ok else [_short(x) for x in lens])
    # documented output length / time vector
    Rt = regime(False, t=True)
    tv = Rt.ret()
    want = "np.arange(n) * (t[1] - t[0]) * data.shape[-1] / n + t[0]"
    nexp = Rt.E("int(np.ceil(data.shape[-1] * P / Q))", P=Pr, Q=Qr)
    ok = isinstance(tv, tuple) and len(tv) == 2 and Rt.same(tv[1], want, n=nexp)
    _chk(ctx, ok, "resample: the documented output length is ceil(ln p / q), ln the input length along `axis` (the returned time vector has that many samples, spaced dt ln / n)",
         Rt.ret_node(), None if ok else _short(tv[1] if isinstance(tv, tuple) and len(tv) > 1 else tv), [tv])
    cutoff = "(min(1 / Q, 1 / P) / 2)"
    firexp = R.E(f"P * signal.windows.kaiser(M + 1, beta) * (2 * {cutoff} * np.sinc(2 * {cutoff} * (np.arange(M + 1) - M / 2)))", P=Pr, Q=Qr, M=M)
    ok = israt(fir) and eq(fir, firexp) and eq(D.den, F.const(1)) and eq(D.axis, F.const(-1))
    if D.routine == "lfilter":
        # (the padding may be concatenated to the stuffed array or be part of the zero buffer the samples are written into: both are read off the array that is filtered)
        ok = ok and eq(D.pad_front, M / 2) and D.pad_back is not None and eq(D.pad_back, M / 2) and (D.cat_axis is None or eq(D.cat_axis, F.const(-1)))
        if D.pad_back is None:
            ctx.error("resample: length of the array that is filtered", R.ret_node(), {"buffer": _short(D.buffer)})
            ok = None
        if D.stop is not None:
            # an explicit stop: ceil((stop - start) / step) samples are retained
            span = D.stop - D.start
            if not (eq(span, R.E("data.shape[-1] * P", P=Pr)) or eq(span, R.E("int(np.ceil(data.shape[-1] * P / Q)) * Q", P=Pr, Q=Qr))):
                ctx.error("resample: number of samples retained by a slice with an explicit stop", R.ret_node(), _short(span))
                ok = None
        msg = ("resample: M // 2 zeros are added at both ends of the stuffed signal before the FIR (gain p, Kaiser-windowed sinc with cut-off min(1/p, 1/q)/2 "
               "centred at M/2) is applied along the last axis - so M samples of lag are removed and ln*p remain")
        dbg = {"front": _short(D.pad_front), "back": _short(D.pad_back), "axis": _short(D.cat_axis), "fir": _short(fir, 200)}
    else:
        n_ = R.E("int(np.ceil(data.shape[-1] * P / Q))", P=Pr, Q=Qr)
        ok = ok and D.stop is not None and eq(D.stop - D.start, n_)
        msg = ("resample: the FIR (gain p, Kaiser-windowed sinc with cut-off min(1/p, 1/q)/2 centred at M/2) is applied along the last axis and ceil(ln p / q) "
               "samples are retained")
        dbg = {"stop - start": _short(D.stop - D.start) if D.stop is not None else None, "fir": _short(fir, 200)}
    if ok is not None:
        chk(bool(ok), msg, R.ret_node(), None if ok else dbg, sizes=[D.pad_front, D.pad_back, D.start, D.stop])
    mean_ok = _last_axis_mean(R.E("data") - D.signal, R.E("data")) if israt(D.signal) else None
    if mean_ok is None:
        ctx.error("resample: what is removed from the data before filtering (expected: the mean along the last axis)", fn, _short(D.signal))
    if D.routine == "lfilter":
        zshape = un(D.buffer, "zeros") if D.buffer is not None else None
        lay = D.layout
        lnp = R.E("data.shape[-1] * P", P=Pr)
        nslots = D.slots(R.E("data.shape[-1]"))
        if nslots is None:
            ctx.error("resample: the slice of the zero array the samples are stored in has ln slots", fn, {"slot": _short(D.slot), "buffer": _short(D.buffer)})
        # the zero array spans the ln p slots of the stuffed signal: on its own (padding concatenated afterwards), or together with the padding (one buffer)
        span = lay.core is not None and (eq(lay.core, lnp) or (not lay.cat_axes and lay.total is not None and eq(lay.total - lay.off - D.pad_back, lnp) and eq(D.pad_back, M / 2)))
        ok = D.buffer is not None and zshape is not None and span and eq(ss, Pr) and mean_ok
        msg = "resample: zero stuffing places the (mean-removed) samples every p-th slot of a zero array of length ln p (original samples are kept when upsampling)"
    else:
        ok = eq(ss, Pr) and mean_ok
        msg = "resample: the (mean-removed) samples are up-sampled by p with zeros (original samples are kept when upsampling)"
    if mean_ok is not None and not (D.routine == "lfilter" and nslots is None):
        lay_ = getattr(D, "layout", None)
        chk(bool(ok), msg, fn, None if ok else {"buffer": _short(D.buffer), "slot": _short(D.slot), "signal": _short(D.signal)},
            sizes=[lay_.core, lay_.total, lay_.off, lay_.stop, D.pad_back] if lay_ is not None else [])


# =============================================================================================================================== R4 rescale

def r4_rescale(ctx):
    """psd.rescale conserves the mean-square content of every output band by construction: it integrates the input PSD band by band into a
    cumulative mean-square curve over the input band EDGES, interpolates that curve at the output band edges and divides the difference by the
    output band width.  Decided on values and roles, in the regimes (octave output scale, extendends, uniform input spacing, both outer bands
    reaching beyond the data) x (P a matrix with one PSD per column | P a vector): the table np.interp interpolates over (xp) is [first lower
    edge, every upper edge], the curve (fp) is the cumulative sum of (upper - lower edge) * PSD starting from 0, both edge arrays are
    interpolated over that table and that curve, the returned band PSD is (curve at one set of edges - curve at the other) / (difference of
    those same edges), the outermost edges are clamped to the outermost input band edges (not the centre frequencies) for this and the nominal
    ones are used for the reported mean squares."""
    fn = ctx.src.func(PSD, "rescale")
    for shape in ("matrix", "vector", "row"):
        _rescale_regime(ctx, fn, shape)


def _assembled(R, v):
    """An array filled block by block in a preallocated buffer, as the concatenation it equals (first axis):
         B[0] = a ; B[1:] = X   ->  [a, X]            B = zeros((n, c)) ; B[1:] = X    ->  [zeros((1, c)), X]
         B[:-1] = X ; B[-1] = b ->  [X, b]            B = zeros((n, c)) ; B[:-1] = X   ->  [X, zeros((1, c))]
    (the stores in any order; numpy checks that the blocks fit).  Anything else is returned as it is."""
    if not israt(v) or un(v, "store") is None:
        return v
    stores, base = [], v
    while un(base, "store") is not None:
        a = un(base, "store")
        stores.append((a[1], a[2]))
        base = a[0]
    kind = next((nm for nm in ("zeros", "empty", "ones") if un(base, nm) is not None), None)
    if kind is None:
        return v
    shp = un(un(base, kind)[0], "tuple")
    if shp is not None and len(shp) != 2:
        return v
    slot = {}
    for ix, val in stores:
        k, sl = int_of(ix), unslice(ix)
        if k in (0, -1):
            key = "head" if k == 0 else "tail"
        elif sl is not None and sl[2] is None and sl[0] is not None and int_of(sl[0]) == 1 and sl[1] is None:
            key = "after"
        elif sl is not None and sl[2] is None and sl[0] is None and sl[1] is not None and int_of(sl[1]) == -1:
            key = "before"
        else:
            return v
        if key in slot:
            return v
        slot[key] = val
    stack = "np.vstack" if shp is not None else "np.hstack"

    def blank():
        return R.ev.np_call("np.zeros", [PyTuple((F.const(1), shp[1]))], {}, None) if shp is not None else F.const(0)
    if set(slot) <= {"head", "after"} and "after" in slot:
        if "head" not in slot and kind != "zeros":
            return v
        return R.ev.np_call(stack, [PyTuple((slot.get("head", None) if "head" in slot else blank(), slot["after"]))], {}, None)
    if set(slot) <= {"tail", "before"} and "before" in slot:
        if "tail" not in slot and kind != "zeros":
            return v
        return R.ev.np_call(stack, [PyTuple((slot["before"], slot["tail"] if "tail" in slot else blank()))], {}, None)
    return v


def _rescale_regime(ctx, fn, shape):
    oned = shape != "matrix"
    tag = {"matrix": "rescale", "vector": "rescale (P a vector)", "row": "rescale (P a 1 x n matrix)"}[shape]

    def call(node, ev):
        if (dotted(node.func) or "").rsplit(".", 1)[-1] == "get_freq_oct":
            return PyTuple((F.sym("Wctr"), F.sym("FLo"), F.sym("FUo")))        # documented return order: centres, lower edges, upper edges
        return NotImplemented

    lo_in, hi_in = "(F - np.diff(F)[0] / 2)", "(F + np.diff(F)[0] / 2)"
    facts = ["np.all(np.diff(F) == np.diff(F)[0])", f"FLo[0] < {lo_in}[0]", f"FUo[-1] > {hi_in}[-1]"] + {"matrix": ["P.ndim == 2", "P.shape[0] > 1"], "vector": ["P.ndim == 1"], "row": ["P.ndim == 2", "P.shape[0] == 1"]}[shape]
    R = Run(ctx, fn, PSD, pins={"freq": "None", "frange": "None", "extendends": "True"}, facts=facts, call=call, exclude=("get_freq_oct",),
            ranks={"F": 1, "P": 1 if shape == "vector" else 2, "FLo": 1, "FUo": 1, "Wctr": 1})
    Pm, ncol = ("P.reshape(-1, 1)", "1") if oned else ("P", "P.shape[1]")
    ns = R.ret()
    ip = R.calls("interp")
    if not isinstance(ns, tuple) or len(ns) != 4 or any(x is None or is_unknown(x) for x in ns):
        ctx.error(f"{tag}: the four returned values", R.ret_node(), _short(ns))
        return
    if len(ip) != 2 or any(not all(israt(c.args.get(k)) for k in ("x", "xp", "fp")) for c in ip):
        ctx.error(f"{tag}: the two np.interp calls (cumulative curve at the lower and at the upper output edges)", fn, [(_short(c.args)) for c in ip])
        return
    # the two calls may sit in one loop over the columns or in two (two comprehensions): each one's column counter is renamed to one symbol
    COL = F.sym("@col")

    def generic(c):
        k = S._strsym(c.loops[-1].k) if c.loops else None
        return {key: (v.subs({k: COL}) if k and israt(v) else v) for key, v in c.args.items()}
    a, b = generic(ip[0]), generic(ip[1])
    for d_ in (a, b):
        # (a table / a curve assembled block by block in a preallocated array is the concatenation of the blocks)
        d_["xp"] = _assembled(R, d_["xp"])
        c_ = un(d_["fp"], "idx")
        if c_ is not None:
            d_["fp"] = R.ev.mk_idx(_assembled(R, c_[0]), c_[1])
    # the table and the curve
    ok = R.same(a["xp"], f"np.hstack(({lo_in}[0], {hi_in}))")
    _chk(ctx, ok, f"{tag} (uniform input spacing): the cumulative curve is tabulated at the input band edges [first lower edge, every upper edge], the edges being "
                  "centre -/+ half the spacing", ip[0].node, None if ok else _short(a["xp"]), [a["xp"]])
    col = un(a["fp"], "idx")
    cparts = ix_parts(col[1]) if col is not None else []
    curve = col[0] if col is not None else None
    want_ca = R.E(f"np.vstack((np.zeros((1, {ncol})), np.cumsum(({hi_in} - {lo_in}).reshape(-1, 1) * {Pm}, axis=0)))")
    ok = curve is not None and eq(curve, want_ca) and len(cparts) == 2 and eq(cparts[0], S.FULL)
    _chk(ctx, ok, f"{tag}: the cumulative mean square is sum((upper - lower edge) * PSD) down the bands, starting from 0 (one more row than bands), one column per PSD",
         ip[0].node, None if ok else {"fp": _short(a["fp"]), "expected curve": _short(want_ca)}, [a["fp"]])
    ok = eq(a["xp"], b["xp"]) and eq(a["fp"], b["fp"])
    _chk(ctx, ok, f"{tag}: the same cumulative curve, over the same edge table, is interpolated at the lower and at the upper output edges", ip[1].node,
         None if ok else {"xp": [_short(a["xp"]), _short(b["xp"])], "fp": [_short(a["fp"]), _short(b["fp"])]}, [a["xp"], b["xp"], a["fp"], b["fp"]])
    # the edges interpolated at: the octave-band edges with the outermost ones clamped to the outermost input band edges
    want_lo = R.ev.mk_store(F.sym("FLo"), F.const(0), R.E(f"{lo_in}[0]"))
    want_hi = R.ev.mk_store(F.sym("FUo"), F.const(-1), R.E(f"{hi_in}[-1]"))
    xs = [a["x"], b["x"]]
    ok = (eq(xs[0], want_lo) and eq(xs[1], want_hi)) or (eq(xs[1], want_lo) and eq(xs[0], want_hi))
    _chk(ctx, ok, f"{tag} (extendends): an output band reaching beyond the data is clamped to the outermost input band EDGE (lower edge of the first band, upper edge of "
                  "the last) while the mean square is computed", ip[0].node,
         None if ok else {"interpolated at": [_short(x) for x in xs], "expected": [_short(want_lo), _short(want_hi)]}, xs)
    # where the results go: column i of a zero array, i the column of the curve, inside one loop over the columns
    bufs = []
    trips = [R.E(ncol), R.E("len(np.transpose(c))", c=curve), R.E("c.shape[1]", c=curve)] if curve is not None else [R.E(ncol)]
    for c in ip:
        loop = c.loops[-1] if c.loops else None
        if loop is None:
            bufs.append(None)
            continue
        per_col = len(cparts) == 2 and eq(cparts[1], COL) and any(eq(loop.n, w) for w in trips)
        cell = next((x for x in R.cells if eq(x.val, c.value) and israt(x.new) and israt(x.ix)), None)
        if cell is not None:
            # stored into column k of a zero array inside the loop
            sp = ix_parts(cell.ix) if israt(cell.ix) else []
            # (the loop runs over every column and each pass overwrites a whole column: what the new array held before does not matter)
            good = per_col and len(sp) == 2 and eq(sp[0], S.FULL) and eq(sp[1], loop.k) and _is_fresh_array(cell.old)
            bufs.append((F.fn("loopres", loop.k, S.as_rat(loop.n), cell.new), good, cell.node, cell.ix))
            continue
        # the columns collected by a comprehension and stacked:  column_stack([...]) / array([...]).T / stack([...], axis=1)
        comp = next((av for av, nm, a_ in find_atoms(ns[0], lambda n, a_: n == "comp" and eq(a_[2], c.value))), None)
        hold = None
        if comp is not None:
            for av, nm, a_ in find_atoms(ns[0], lambda n, a_: n in ("call:np.column_stack", "call:np.transpose", "call:np.stack") and a_ and not isinstance(a_[0], str) and eq(a_[0], comp)):
                kw_ = S.call_args(a_)[1]
                if nm != "call:np.stack" or ("axis" in kw_ and int_of(kw_["axis"]) in (1, -1)):
                    hold = av
        if hold is None:
            bufs.append(None)
            continue
        bufs.append((hold, per_col and eq(un(comp, "comp")[0], loop.k), c.node, loop.k))
    ok = all(x is not None and x[1] for x in bufs)
    msg_ = f"{tag}: for every column i of the PSD, the curve's column i at the lower / upper edges is stored in column i of a new array (one array per edge set)"
    lost = [c for c, x in zip(ip, bufs) if x is None]
    if lost and any(find_atoms(ns[0], lambda n, a_, key=S.fkey(c.value): n == "call:np.interp" and S.fkey(F.fn(n, *a_)) == key) for c in lost):
        # where an interpolated column went was not followed (a store form that is not modelled), yet it reaches the result: not decided
        ctx.error(msg_, lost[0].node, [_short(x[3]) if x else None for x in bufs])
        return
    _chk(ctx, ok, msg_, bufs[0][2] if bufs[0] else fn, None if ok else [_short(x[3]) if x else None for x in bufs], [x[3] for x in bufs if x] + [c.value for c in ip])
    if not ok:
        return
    B1, B2 = bufs[0][0], bufs[1][0]
    # (the expected value is symmetric under exchanging the two calls, not under exchanging the members of one pair only)
    psd_want = (B2 - B1) * (1 / F.fn("col", b["x"] - a["x"]))
    fin = (lambda x: R.E("np.ravel(x)", x=x)) if oned else (lambda x: x)
    ok = eq(ns[0], fin(psd_want))
    _chk(ctx, ok, f"{tag}: band PSD = (curve at the upper edges - curve at the lower edges) / (upper - lower edges), the edges being the ones interpolated at", R.ret_node(),
         None if ok else {"returned": _short(ns[0]), "expected": _short(fin(psd_want))}, [ns[0]])
    ms_want = psd_want * F.fn("col", F.sym("FUo") - F.sym("FLo"))
    tot_want = R.E("np.sum(ms, axis=0)", ms=ms_want)
    ok = eq(ns[3], fin(ms_want)) and eq(ns[2], R.E("t[0]", t=tot_want) if oned else tot_want) and eq(ns[1], F.sym("Wctr"))
    _chk(ctx, ok, f"{tag} (extendends): the nominal outer edges are restored after the clamp - the reported mean square is PSD * nominal band width, its sum over the bands "
                  "is the returned total, the centre frequencies are the octave centres", R.ret_node(), None if ok else [_short(x, 200) for x in ns[1:]], list(ns[1:]))


RULES = [
    ("C19-R1", r1_area, 9),
    ("C19-R2", r2_interp, 4),
    ("C19-R3", r3_resample, 11),
    ("C19-R4", r4_rescale, 21),
    ("C19-R5", r5_fixtime, 11),
]
LEVEL = "other"
EXPLANATION = ("Static, decided on values and roles (functions evaluated on symbols, c19_sem.py; a comparison that fails on a value built with a routine the checker does not know, "
               "or on an array the engine lost track of - written through a view / another name / an unknown method - is 'not decided', never a violation): "
               "psd.area's general formula is the exact integral of the log-log "
               "interpolant (symbolic identity), the special case is its s -> -1 limit and is selected by a narrow window centred on the pole of the general formula, "
               "all segments/columns are accumulated from zero; psd.interp's log/exp pairing; dsp.resample's lag removal / decimation index arithmetic (first kept "
               "full-rate index = front padding + M/2 for every p/q, whatever the filter routine); psd.rescale's cumulative-curve construction; dsp.fixtime on every path "
               "through its tail: time = arange(L)/sr + told[0] + scalars, data = olddata[index] with the index expression decided element by element on finite worlds "
               "(nearest sample, earlier one on a tie / last sample before), no selection without the search unless established by an element-wise test, all definitions "
               "(numpy / numba) of the search functions agree.")
MANIFEST = {
    "text": "Thin partial claim decided statically: (R1) psd.area segment formulas (exact integral, limit, selector centred on the singularity, full coverage and "
            "accumulation); (R2) psd.interp log/exp pairing and in-range mask; (R3) dsp.resample keeps full-rate samples (padding + M/2) + q k of the filter output, pads "
            "M/2 both sides, restores the mean, reduces p/q by gcd; (R4) psd.rescale's band mean squares are differences of one cumulative curve tabulated at the input band "
            "edges, divided by the same band widths, with the outer edges clamped to input band edges and restored; (R5) dsp.fixtime returns arange(L)/sr + told[0] + scalar "
            "shifts and olddata[index], the index being the nearest (earlier on a tie) / previous old sample on every finite world of 2-4 old times, for every definition of "
            "the search functions; a selection that bypasses the search must be established by an element-wise comparison of old and new times. R1 also requires the s = -1 "
            "selector to be invariant under scaling the PSD values. Not decided: resample's interpolation accuracy, fixtime's drop-out / spike / outlier removal and the "
            "turning-point alignment (only that they move the time base by scalars), get_freq_oct band tables (value-level).",
    "note": "Trusted: CPython ast; verifier/e2_formula.py (exp/log, series); verifier/c19_sem.py (value engine); scipy interp1d / lfilter / upfirdn semantics.",
    "technique": "evaluation on symbols (functional arrays, index algebra, three-valued tests from facts, generic loop iteration) with exact symbolic integral/limit check; "
                 "path enumeration over undecided tests; finite-world evaluation of index expressions / loop code by the checker's own evaluator (exact rationals, no repo code run)",
}
